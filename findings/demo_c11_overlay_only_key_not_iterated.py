"""C11 demo: a variable that only an overlay provides (alias `env` overlay, `swap(overlay=...)`) is visible to every read
path alike: [], in, get, iteration, items(), detype()."""
import os, sys
root = os.environ.get("XV_REPO", "/repo")
sys.path.insert(0, root)
from xonsh.environ import Env
env = Env(A="0")
with env.swap(overlay={"NEWK": "v"}):
    views = {"[]": env["NEWK"] == "v", "in": "NEWK" in env, "get": env.get("NEWK") == "v", "iteration": "NEWK" in list(env), "keys()": "NEWK" in env.keys(), "items()": ("NEWK", "v") in list(env.items()), "detype()": env.detype().get("NEWK") == "v"}
print(views)
bad = [k for k, v in views.items() if not v]
print("WRONG: a variable provided by an overlay only is absent from " + ", ".join(bad) if bad else "OK")
sys.exit(1 if bad else 0)
