"""C07 demo: `$[al]` (uncaptured threaded callable alias, no redirect) delivers the alias's stderr to stderr.

ProcProxyThread.run picked stdout's object for stderr whenever errwrite == c2pwrite - which is also true when
neither stream has a handle (-1 == -1), so with `xonsh script.xsh 2>err.log` the alias's errors went to stdout."""
import os, subprocess, sys, tempfile
root = os.environ.get("XV_REPO", "/repo")
src = '''
def _al(args, stdin, stdout, stderr):
    print("OUT", file=stdout)
    print("ERR", file=stderr)
    return 0
aliases['al'] = _al
$[al]
$[al e>o]
print("after")
'''
with tempfile.TemporaryDirectory() as d:
    f = os.path.join(d, "t.xsh")
    open(f, "w").write(src)
    p = subprocess.run([sys.executable, "-m", "xonsh", "--no-rc", f], cwd=root, capture_output=True, text=True, env=dict(os.environ, PYTHONPATH=root, XONSH_DATA_DIR=d, HOME=d), timeout=120)
out, err = p.stdout.split(), [l for l in p.stderr.split() if l in ("OUT", "ERR")]
print("stdout:", out, "stderr:", err, "rc:", p.returncode)
ok = out == ["OUT", "OUT", "ERR", "after"] and err == ["ERR"]
if not ok and "AttributeError" in p.stderr:
    print("note:", [l for l in p.stderr.splitlines() if "Error" in l][-1])
print("OK" if ok else "WRONG: expected stdout OUT, OUT, ERR (merged), after and stderr ERR")
sys.exit(0 if ok else 1)
