"""C04 demo (known finding): a value injected with @() arrives verbatim when it stands alone, but is globbed /
tilde-expanded when it is glued to another part.  exit 0 = verbatim in both cases, 1 = re-interpreted."""
import os, sys, tempfile
sys.path.insert(0, os.environ.get("XV_REPO", "/repo"))
from xonsh.built_ins import XSH
from xonsh.execer import Execer
from xonsh.environ import Env
d = tempfile.mkdtemp(); open(os.path.join(d, "a1"), "w").close(); open(os.path.join(d, "a2"), "w").close(); os.chdir(d)
XSH.load(execer=Execer(), env=Env(XONSH_SHOW_TRACEBACK=False, HOME="/home/someone"))
got = []
XSH.aliases["record"] = lambda args: got.append(list(args)) or 0
ctx = {"x": "a*", "t": "~"}
for line in ("record @(x)\n", "record @(x)@('')\n", "record @(t)\n", "record @(t)/\n"):
    XSH.execer.exec(line, glbs=ctx, locs=None)
print(got)
ok = got == [["a*"], ["a*"], ["~"], ["~/"]]
print("VERBATIM" if ok else "RE-INTERPRETED")
sys.exit(0 if ok else 1)
