"""C20 demo: bare `disown` acts on the live current job, not on one that has already finished.

disown_fn was the only job command that read the table without purging finished jobs first: with the most recent job
already exited, `disown` reported 'Removed job 2 (running)' for it and left the live job 1 in the table."""
import os, sys
sys.path.insert(0, os.environ.get("XV_REPO", "/repo"))
from xonsh.built_ins import XSH
from xonsh.environ import Env
import xonsh.procs.jobs as J

XSH.env = Env(AUTO_CONTINUE=False)
XSH.all_jobs = {}
class P:
    def __init__(self, alive): self.alive = alive; self.pid = 4000 + id(self) % 1000; self.returncode = None if alive else 0
    def poll(self): return None if self.alive else 0
class Spec: captured = "hiddenobject"
class Pipe: spec = Spec()
def job(alive, name):
    p = P(alive)
    return {"cmds": [[name]], "pids": [p.pid], "status": "running", "obj": p, "bg": True, "pipeline": Pipe(), "pgrp": None}
J.add_job(job(True, "live-sleep"))      # job 1, alive
j2 = job(True, "short")
J.add_job(j2)                            # job 2, most recent
j2["obj"].alive = False                 # ... and it finishes
out = J.disown_fn([])
left = sorted(J.get_jobs())
print("disown said:", repr(out), "- table now:", left)
ok = left == [] and "1" in str(out)
print("OK" if ok else "WRONG: `disown` should have purged job 2 and removed the live job 1")
sys.exit(0 if ok else 1)
