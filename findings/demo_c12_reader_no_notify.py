"""C12 demo: a history read from disk (JsonCommandField.__getitem__) that holds the FIFO ticket while a
background flusher queues up behind it pops its ticket without notifying the condition — the flusher sleeps
forever and its commands never reach the file.  exit 0 = flusher finishes, 1 = flusher stuck."""
import os, sys, tempfile, threading, time, collections
sys.path.insert(0, os.environ.get("XV_REPO", "/repo"))
from xonsh.built_ins import XSH
from xonsh.environ import Env
import xonsh.history.json as hj
d = tempfile.mkdtemp()
XSH.env = Env(XONSH_DATA_DIR=d, HISTCONTROL=set(), XONSH_STORE_STDOUT=False, XONSH_HISTORY_SAVE_CWD=False)
h = hj.JsonHistory(filename=os.path.join(d, "h.json"), gc=False, buffersize=100)
for i in range(3):
    h.append({"inp": f"cmd{i}\n", "rtn": 0, "ts": [1.0, 2.0]})
h.flush().join()            # 3 commands on disk
h.append({"inp": "late\n", "rtn": 0, "ts": [1.0, 2.0]})   # in the buffer, to be flushed by F
gate = threading.Event(); queued = threading.Event()
class Q(collections.deque):
    def append(self, x):
        super().append(x)
        if isinstance(x, hj.JsonCommandField):
            queued.set(); gate.wait(5)          # reader took its ticket, not yet inside the condition
h._queue = Q()
res = {}
t = threading.Thread(target=lambda: res.setdefault("v", h.inps[0])); t.start()
queued.wait(5)
f = h.flush()                # flusher queues behind the reader and waits on the condition
time.sleep(0.3)
gate.set(); t.join(5)
f.join(2)
print("reader got", res.get("v"), "| flusher still waiting:", f.is_alive())
sys.exit(1 if f.is_alive() else 0)
