"""C18 demo (known finding): a file name containing `!` is completed without quotes, and the completed
command line does not denote that file.  exit 0 = reads back as the one argument, 1 = not."""
import os, sys
sys.path.insert(0, os.environ.get("XV_REPO", "/repo"))
from xonsh.lib.completion_quoting import name_needs_quotes
from xonsh.built_ins import XSH
from xonsh.execer import Execer
from xonsh.environ import Env
XSH.load(execer=Execer(), env=Env(XONSH_SHOW_TRACEBACK=False))
got = []
XSH.aliases["record"] = lambda args: got.append(list(args)) or 0
name = "fi!le"
quoted = name_needs_quotes(name)
line = "record " + (repr(name) if quoted else name) + "\n"
try:
    XSH.execer.exec(line, glbs={}, locs=None)
except BaseException as e:
    got.append(f"{type(e).__name__}: {e}")
print("needs quotes:", quoted, "| completed line:", line.strip(), "| argv seen:", got)
ok = got == [[name]]
print("OK" if ok else "DIFFERENT FILE / ERROR")
sys.exit(0 if ok else 1)
