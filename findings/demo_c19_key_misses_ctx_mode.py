"""C19 demo (known finding): the code cache is keyed on the text only.
(a) same text compiled in mode 'exec' then run in mode 'single' reuses the exec bytecode (no echo of the value);
(b) same text compiled while x,y are bound (Python `x -y`) is reused when they are not (would be a command).
exit 0 = cached behaviour equals uncached, exit 1 = differs."""
import io, os, sys, tempfile, contextlib
sys.path.insert(0, os.environ.get("XV_REPO", "/repo"))
from xonsh.built_ins import XSH
from xonsh.execer import Execer
from xonsh.environ import Env
from xonsh.codecache import run_code_with_cache
d = tempfile.mkdtemp()
XSH.load(execer=Execer(), env=Env(XONSH_DATA_DIR=d, XONSH_CACHE_EVERYTHING=True, XONSH_CACHE_SCRIPTS=True, XONSH_SHOW_TRACEBACK=False, RAISE_SUBPROC_ERROR=False))
ex = XSH.execer; ex.cacheall = True
def run(code, ctx, mode):
    buf = io.StringIO()
    with contextlib.redirect_stdout(buf), contextlib.redirect_stderr(buf):
        info = run_code_with_cache(code, "<c>", ex, glb=ctx, loc=None, mode=mode)
    return buf.getvalue().strip(), (info[0].__name__ if info and info[0] else None)
bad = 0
# (a) mode
r_exec = run("1+1\n", {}, "exec")
r_single_cached = run("1+1\n", {}, "single")
XSH.env["XONSH_CACHE_EVERYTHING"] = False; ex.cacheall = False
r_single_uncached = run("1+1\n", {}, "single")
XSH.env["XONSH_CACHE_EVERYTHING"] = True; ex.cacheall = True
print("mode: cached", r_single_cached, "uncached", r_single_uncached)
bad += r_single_cached != r_single_uncached
# (b) context
r_bound = run("xx -yy\n", {"xx": 5, "yy": 2}, "single")
r_unbound_cached = run("xx -yy\n", {}, "single")
XSH.env["XONSH_CACHE_EVERYTHING"] = False; ex.cacheall = False
r_unbound_uncached = run("xx -yy\n", {}, "single")
print("ctx: bound", r_bound, "| unbound cached", r_unbound_cached, "| unbound uncached", r_unbound_uncached)
bad += r_unbound_cached != r_unbound_uncached
# (c) script cache, same context dependence
from xonsh.codecache import run_script_with_cache
XSH.env["XONSH_CACHE_EVERYTHING"] = True; ex.cacheall = True; ex.scriptcache = True
sp = os.path.join(d, "s.xsh"); open(sp, "w").write("xx -yy\n"); os.utime(sp, (1, 1))
def runs(ctx):
    buf = io.StringIO()
    with contextlib.redirect_stdout(buf), contextlib.redirect_stderr(buf):
        info = run_script_with_cache(sp, ex, glb=ctx, loc=None, mode="exec")
    return (info[0].__name__ if info and info[0] else None)
s_bound = runs({"xx": 5, "yy": 2})
s_unbound_cached = runs({})
XSH.env["XONSH_CACHE_EVERYTHING"] = False; XSH.env["XONSH_CACHE_SCRIPTS"] = False; ex.cacheall = False; ex.scriptcache = False
s_unbound_uncached = runs({})
print("script: bound", s_bound, "| unbound cached", s_unbound_cached, "| unbound uncached", s_unbound_uncached)
bad += s_unbound_cached != s_unbound_uncached
print("SAME" if not bad else "DIFFERS")
sys.exit(1 if bad else 0)
