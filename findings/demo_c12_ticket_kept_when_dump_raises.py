"""C12 demo: one failing flush must not stop every later flush (and the at-exit flush) for good.

JsonHistoryFlusher removed its ticket from the FIFO only after dump() returned normally.  dump() creates its temp file
with mkstemp outside any handler: an ENOSPC / EACCES there killed the flusher thread with its ticket still at the front,
and every later flusher or reader - the at-exit flush included - waited for its turn forever."""
import errno, os, sys, tempfile, threading, time
sys.path.insert(0, os.environ.get("XV_REPO", "/repo"))
from xonsh.built_ins import XSH
from xonsh.environ import Env
from xonsh.history.json import JsonHistory

d = tempfile.mkdtemp()
XSH.env = Env(XONSH_DATA_DIR=d, XONSH_HISTORY_SIZE=(1000, "commands"), HISTCONTROL="", XONSH_STORE_STDOUT=False, XONSH_HISTORY_SAVE_CWD=False)
fn = os.path.join(d, "h.json")
h = JsonHistory(filename=fn, gc=False, save_cwd=False)
threading.excepthook = lambda args: None   # the failing worker's traceback is expected
real = tempfile.mkstemp
calls = {"n": 0}
def failing(*a, **k):
    calls["n"] += 1
    if calls["n"] == 1:
        raise OSError(errno.ENOSPC, "No space left on device")
    return real(*a, **k)
tempfile.mkstemp = failing
h.append({"inp": "first", "rtn": 0, "ts": [1.0, 2.0]})
h.flush()                      # background flusher: its dump() fails once
time.sleep(0.5)
h.append({"inp": "second", "rtn": 0, "ts": [3.0, 4.0]})
done = threading.Event()
t = threading.Thread(target=lambda: (h.flush(at_exit=True), done.set()), daemon=True)
t.start()
ok = done.wait(5)
tempfile.mkstemp = real
print("OK: the at-exit flush completed after an earlier flush had failed" if ok else "WRONG: the at-exit flush is still waiting for its turn after 5 s (the failed flusher's ticket was never removed)")
sys.stdout.flush()
os._exit(0 if ok else 1)
