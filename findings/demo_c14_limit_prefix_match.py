"""C14 demo: a history limit is read in full or rejected - never cut short.

`$XONSH_HISTORY_SIZE = "1,000 files"` (or "1_000 commands", "8128 commands!") was read as (1, 'commands'):
RE_HISTORY_TUPLE.match() stops at the first character it does not understand and the empty unit means
'commands', so the next GC pass keeps one command of the whole history."""
import os, sys
sys.path.insert(0, os.environ.get("XV_REPO", "/repo"))
from xonsh.tools import to_history_tuple
from xonsh.history.json import _xhj_gc_commands_to_rmfiles

bad = []
for text in ("1,000 files", "1_000 commands", "8128 commands!", "10 files or so", "1.5.2 gb"):
    try:
        got = to_history_tuple(text)
    except ValueError:
        continue  # rejected: fine
    bad.append((text, got))
for text, want in (("8128 commands", (8128, "commands")), (" 20 files ", (20, "files")), ("30 days", (2592000.0, "s")), ("100", (100, "commands"))):
    got = to_history_tuple(text)
    if got != want:
        bad.append((text, got, "want", want))
if bad:
    text, got = bad[0][:2]
    files = [(float(i), 50, f"f{i}", 1000) for i in range(10)]
    if got[1] == "commands":
        n, rm = _xhj_gc_commands_to_rmfiles(got[0], files)
        print(f"WRONG: {text!r} is read as {got}; a GC pass over 10 sessions of 50 commands would remove {len(rm)} of them")
    print("WRONG:", bad)
    sys.exit(1)
print("OK: limits are read in full or rejected")
