#!/venv/bin/python
"""C10 defect: a per-command overlay whose value is an empty list (`$E=@([]) cmd`) raises IndexError while the command spec is built: the overlay normaliser unwraps one-element lists with `v[0]` under the guard `len(v) > 1` being false, which an empty list also satisfies.  exit 1 = defect shows."""
import sys
sys.path.insert(0, sys.argv[1] if len(sys.argv) > 1 else "/repo")
from xonsh.built_ins import XSH
from xonsh.execer import Execer
XSH.load(execer=Execer(), inherit_env=False)
from xonsh.procs.specs import SubprocSpec
bad = 0
for val in ([], ["a"], ["a", "b"], "s"):
    try:
        s = SubprocSpec(["true"], env={"E": val})
        print(repr(val), "->", repr(s.env["E"]))
    except IndexError as e:
        bad += 1
        print(repr(val), "-> IndexError", e)
print("defect shows" if bad else "ok")
sys.exit(1 if bad else 0)
