#!/venv/bin/python
"""C03/C02 defect: a form feed (^L, legal whitespace in Python source, PEP 8 page separator) on an earlier line makes a
later bare command run as Python.  str.splitlines() also splits at \\x0c, \\x0b, \\x1c-\\x1e, \\x85, U+2028/9, so the line
tables of Execer._parse_ctx_free and CtxAwareTransformer.ctxvisit disagree with the parser's line numbers (which
count \\n only).  exit 1 = defect shows."""
import ast, sys
sys.path.insert(0, sys.argv[1] if len(sys.argv) > 1 else "/repo")
from xonsh.built_ins import XSH
from xonsh.execer import Execer
XSH.load(execer=Execer(), inherit_env=False)
ex = XSH.execer
bad = 0
CASES = [f"x = 1{ch}\nls -l\n" for ch in ("", "\x0c", " ")]  # form feed is whitespace between tokens
CASES += [f"x = '{ch}'\nls -l\n" for ch in ("\x0c", "\x0b", "\x1c", "\x1d", "\x1e", "\x85", "\u2028", "\u2029")]  # any of them inside a string
CASES += [f"# page{ch}break\necho hi && ls -l\n" for ch in ("\x0c", "\x85", "\u2028")]  # ... or a comment
for _ in [0]:
    for src in CASES:
        try:
            t = ex.parse(src, ctx={"x"}, mode="exec")
            calls = [n.func.attr for n in ast.walk(t) if isinstance(n, ast.Call) and isinstance(n.func, ast.Attribute) and "subproc" in n.func.attr]
            ok = bool(calls)
        except SyntaxError as e:
            ok, calls = False, f"SyntaxError {e}"
        if not ok:
            bad += 1
            print(f"{src!r}: the command line is not wrapped as a subprocess: {calls}")
print("defect shows" if bad else "ok: every bare command was wrapped")
sys.exit(1 if bad else 0)
