#!/venv/bin/python
"""C17 defect: format_source() corrupts non-ASCII text when the source carries a non-UTF-8 PEP 263 coding cookie.

_Formatter._iter_tokens encodes its (already decoded) text as UTF-8 and hands the bytes to tokenize(), whose
detect_encoding() honours the cookie and decodes them with *that* encoding: `x = 'café'` under `# -*- coding: latin-1 -*-`
comes back as `x = 'cafÃ©'`.  exit 1 = defect shows."""
import sys
sys.path.insert(0, sys.argv[1] if len(sys.argv) > 1 else "/repo")
from xonsh.formatter.core import format_source
bad = 0
for src in ["# -*- coding: latin-1 -*-\nx  = 'café'\n", "# coding: cp1252\necho  'naïve – dash'\n", "# -*- coding: utf-8 -*-\nx  = 'café'\n"]:
    out = format_source(src)
    want = src.replace("  ", " ")
    ok = out == want
    bad += not ok
    print("ok " if ok else "BAD", repr(src), "->", repr(out))
print("defect shows" if bad else "ok")
sys.exit(1 if bad else 0)
