"""C08 demo: after $PATH is reordered or an entry is removed (no directory mtime changes) the commands cache
keeps answering from the old $PATH.  exit 0 = cache agrees with a fresh $PATH search, 1 = stale."""
import os, sys, tempfile, stat
sys.path.insert(0, os.environ.get("XV_REPO", "/repo"))
from xonsh.built_ins import XSH
from xonsh.environ import Env
from xonsh.commands_cache import CommandsCache
from xonsh.procs.executables import locate_executable
base = tempfile.mkdtemp()
a, b = os.path.join(base, "a"), os.path.join(base, "b")
for d, names in ((a, ["foo", "onlya"]), (b, ["foo"])):
    os.mkdir(d)
    for n in names:
        p = os.path.join(d, n); open(p, "w").write("#!/bin/sh\n"); os.chmod(p, 0o755)
env = Env(PATH=[a, b], XONSH_DATA_DIR=base, COMMANDS_CACHE_SAVE_INTERMEDIATE=False)
XSH.env = env
cc = CommandsCache(env, {})
bad = 0
print("PATH=[a,b]  ->", cc.locate_binary("foo"))
env["PATH"] = [b, a]
got, want = cc.locate_binary("foo"), locate_executable("foo")
print("PATH=[b,a]  -> cache", got, "| search", want); bad += os.path.realpath(got or "") != os.path.realpath(want or "")
env["PATH"] = [b]
got_in, want_in = ("onlya" in cc), locate_executable("onlya") is not None
print("PATH=[b]    -> 'onlya' in cache:", got_in, "| search finds it:", want_in); bad += got_in != want_in
sys.exit(1 if bad else 0)
