"""C02 demo: names bound by `except* E as e` and by `import a.b` (binds `a`) must keep later lines Python.
Prints the phase-2 decision for the last statement; exit 0 = Python, 1 = turned into a subprocess."""
import os, sys, ast
sys.path.insert(0, os.environ.get("XV_REPO", "/repo"))
from xonsh.built_ins import XSH
from xonsh.execer import Execer
from xonsh.environ import Env
XSH.load(execer=Execer(), env=Env(XONSH_SHOW_TRACEBACK=False))
ex = XSH.execer
bad = 0
cases = {
 "except*": "try:\n    pass\nexcept* ValueError as eg:\n    pass\nn = 1\neg -n\n",
 "import a.b": "import os.path\nn = 1\nos -n\n",
 "import a.b (attr)": "import os.path\nn = 1\nos.sep -n\n",
}
for name, src in cases.items():
    tree = ex.parse(src, ctx=set())
    last = tree.body[-1]
    is_sub = "subproc" in ast.dump(last)
    print(f"{name:20s} last statement -> {'SUBPROCESS' if is_sub else 'python'}")
    bad += is_sub
sys.exit(1 if bad else 0)
