"""C19 demo: an unreadable cache entry (here: owned by another user, mode 000, reader not root)
must be ignored, not fatal."""
import os, sys, tempfile
sys.path.insert(0, os.environ.get("XV_REPO", "/repo"))
d = tempfile.mkdtemp(); os.chmod(d, 0o755)
cache = os.path.join(d, "entry"); open(cache, "wb").write(b"x\n"); os.chmod(cache, 0)
src = os.path.join(d, "s.xsh"); open(src, "w").write("1\n"); os.utime(src, (1, 1))
from xonsh.codecache import script_cache_check, code_cache_check
pid = os.fork()
if pid == 0:
    os.setgid(65534); os.setuid(65534)
    try:
        r1 = script_cache_check(src, cache); r2 = code_cache_check(cache)
        os._exit(0 if r1 == (False, None) and r2 == (False, None) else 3)
    except PermissionError as e:
        print("FATAL:", e); os._exit(1)
_, st = os.waitpid(pid, 0)
print("OK" if st == 0 else "WRONG")
sys.exit(0 if st == 0 else 1)
