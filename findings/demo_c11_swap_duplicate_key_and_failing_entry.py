"""C11 demo: (1) `env.swap({"A": "1"}, A="2")` restores A to what it was before the scope; (2) a swap whose entry fails\nhalf-way (a value that does not convert) leaves nothing behind."""
import os, sys
root = os.environ.get("XV_REPO", "/repo")
sys.path.insert(0, root)
from xonsh.environ import Env
env = Env(A="0", B="b0")
bad = []
with env.swap({"A": "1"}, A="2"):
    pass
if env["A"] != "0":
    bad.append(f"same key positional+keyword: A == {env['A']!r} after the scope, was '0'")
env["A"] = "0"
try:
    with env.swap({"A": "1", "XONSH_HISTORY_SIZE": object()}):
        pass
except Exception as e:
    print("entry raised", type(e).__name__)
if env["A"] != "0":
    bad.append(f"entry failed half-way: A == {env['A']!r} for good, was '0'")
for b in bad: print("WRONG:", b)
sys.exit(1 if bad else 0)
