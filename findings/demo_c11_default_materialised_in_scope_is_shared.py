"""C11 demo: a variable whose default is computed from other variables, read inside a `swap` scope that changes those,
is what it was before once the scope has ended - in this thread and in every other.

Env.__getitem__ stores the computed default in the *shared* mapping (`val = self._d[key] = val(self)`), also when the
computation saw scoped values: `with env.swap(XDG_DATA_HOME=d): env["XONSH_DATA_DIR"]` leaves XONSH_DATA_DIR == d/xonsh
for good."""
import os, sys, tempfile, threading, shutil
root = os.environ.get("XV_REPO", "/repo")
sys.path.insert(0, root)
from xonsh.environ import Env
d0, d1 = tempfile.mkdtemp(), tempfile.mkdtemp()
env = Env(XDG_DATA_HOME=d0)
with env.swap(XDG_DATA_HOME=d1):
    inside = env["XONSH_DATA_DIR"]
after = env["XONSH_DATA_DIR"]
seen = []
t = threading.Thread(target=lambda: seen.append(env["XONSH_DATA_DIR"])); t.start(); t.join()
exported = env.detype().get("XONSH_DATA_DIR")
shutil.rmtree(d0, ignore_errors=True); shutil.rmtree(d1, ignore_errors=True)
ok = after.startswith(d0) and seen[0].startswith(d0) and (exported is None or exported.startswith(d0))
print(f"inside the scope: {inside}\nafter the scope: {after}; another thread: {seen[0]}; exported to children: {exported}")
print("OK" if ok else "WRONG: the value computed inside the scope outlived it (stored in the shared mapping)")
sys.exit(0 if ok else 1)
