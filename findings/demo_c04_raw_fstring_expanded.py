#!/venv/bin/python
"""C04 defect (Python 3.12+ grammar): a raw f-string argument `fr"$ZZVAR"` / `fr'~/x'` was $VAR/~ expanded like a non-raw
string: FStringRules.p_fstring_expr computed `is_raw` but never put it on the node, so p_subproc_atom_str wrapped the
literal in expand_path().  exit 1 = defect shows."""
import sys
sys.path.insert(0, sys.argv[1] if len(sys.argv) > 1 else "/repo")
from xonsh.built_ins import XSH
from xonsh.execer import Execer
XSH.load(execer=Execer(), inherit_env=True)
XSH.env["ZZVAR"] = "EXPANDED"
got = []
results = {}
def _show(args, stdin=None):
    got.append(list(args))
XSH.aliases["showargs"] = _show
for src in ['showargs r"$ZZVAR"', 'showargs fr"$ZZVAR"', 'showargs rf"$ZZVAR {1}"', 'showargs f"$ZZVAR"', 'showargs "$ZZVAR"', "showargs fr'~/x'", "showargs r'~/x'"]:
    got.clear()
    XSH.execer.exec(src + "\n", glbs={}, locs={})
    print(f"{src:32s} -> {got}")
    results[src] = [list(x) for x in got]

bad = results['showargs fr"$ZZVAR"'] != [["$ZZVAR"]] or results["showargs fr'~/x'"] != [["~/x"]]
print("defect shows" if bad else "ok")
sys.exit(1 if bad else 0)
