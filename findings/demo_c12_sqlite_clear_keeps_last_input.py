"""C12 demo: after `history clear` the next command is recorded even if it repeats the last one before the clear.

SqliteHistory.clear() emptied the record but kept `_last_hist_inp`, so with $HISTCONTROL=ignoredups the first command
after the clear was dropped as a repeat of an entry that no longer exists."""
import os, sys, tempfile
sys.path.insert(0, os.environ.get("XV_REPO", "/repo"))
from xonsh.built_ins import XSH
from xonsh.environ import Env
from xonsh.history.sqlite import SqliteHistory

d = tempfile.mkdtemp()
XSH.env = Env(XONSH_DATA_DIR=d, HISTCONTROL={"ignoredups"}, XONSH_STORE_STDOUT=False, XONSH_HISTORY_SAVE_CWD=False, XONSH_HISTORY_SIZE=(100, "commands"))
h = SqliteHistory(filename=os.path.join(d, "h.sqlite"), gc=False, save_cwd=False)
h.append({"inp": "ls", "rtn": 0, "ts": [1.0, 2.0]})
h.clear()
h.append({"inp": "ls", "rtn": 0, "ts": [3.0, 4.0]})
mem = list(h.inps)
disk = [it["inp"] for it in h.items()]
print("after ls, clear, ls: in memory", mem, "on disk", disk)
ok = mem == ["ls"] and disk == ["ls"]
print("OK" if ok else "WRONG: the command after the clear was not recorded")
sys.exit(0 if ok else 1)
