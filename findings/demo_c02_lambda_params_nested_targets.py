"""C02 demo: lambda parameters and names bound by nested tuple targets are bound names.

`f = lambda a: a and a`, `key=lambda p: not p` turned the parameter into a spawned command (`a` was looked up in
the enclosing scopes only), and after `a, (b, c) = 1, (2, 3)` the line `b -c` ran a process (only `b`, the
leftmost name of the nested tuple, was registered)."""
import ast, os, sys
sys.path.insert(0, os.environ.get("XV_REPO", "/repo"))
from xonsh.built_ins import XSH
from xonsh.execer import Execer
XSH.load(execer=None)
ex = Execer()
XSH.execer = ex
bad = []
for src in ("f = lambda a: a and a\n", "f = lambda a: not a\n", "g = lambda *xs, **kw: xs or kw\n", "f = lambda a, /, b=1, *, c: a and b or not c\n",
            "a, (b, c) = 1, (2, 3)\nb -c\n", "[a, [b, *c]] = 1, [2, 3]\nc -b\n", "x, ((y, z), w) = 1, ((2, 3), 4)\nz -w\n"):
    t = ex.parse(src, ctx={"__xonsh__"})
    if "subproc" in ast.unparse(t):
        bad.append(src)
# and the other direction still works: unbound names are commands, also inside a lambda body
t = ex.parse("h = lambda a: a and zzqq_unbound_cmd\n", ctx={"__xonsh__"})
if "subproc" not in ast.unparse(t):
    bad.append("unbound name inside a lambda is no longer a command")
print("WRONG: compiled as a command although every name is bound: %r" % bad if bad else "OK")
sys.exit(1 if bad else 0)
