"""C17 demo (known finding): trailing spaces inside a multi-line string literal are stripped by
_finalize's per-line rstrip of the joined text: the string's value changes.  exit 0 = same value."""
import os, sys, ast
sys.path.insert(0, os.environ.get("XV_REPO", "/repo"))
from xonsh.formatter.core import format_source
src = 'x = """a  \nb\t\nc"""\n'
out = format_source(src)
v0 = ast.literal_eval(ast.parse(src).body[0].value); v1 = ast.literal_eval(ast.parse(out).body[0].value)
print(repr(v0), "->", repr(v1))
sys.exit(0 if v0 == v1 else 1)
