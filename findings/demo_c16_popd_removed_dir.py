"""C16 demo (known finding): popd / pushd onto a directory that no longer exists must change nothing and
report an error.  exit 0 = nothing changed and rc != 0, exit 1 = stack altered and/or rc 0."""
import os, sys, tempfile, shutil
sys.path.insert(0, os.environ.get("XV_REPO", "/repo"))
from xonsh.built_ins import XSH
from xonsh.environ import Env
import xonsh.dirstack as dsk
base = tempfile.mkdtemp(); a = os.path.join(base, "a"); b = os.path.join(base, "b"); os.mkdir(a); os.mkdir(b)
os.chdir(a)
XSH.env = Env(PWD=a, PUSHD_SILENT=True, DIRSTACK_SIZE=20, AUTO_PUSHD=False, CDPATH=[])
bad = 0
for name, fn in (("popd", dsk.popd_fn), ("pushd (swap)", dsk.pushd_fn)):
    os.makedirs(b, exist_ok=True)
    dsk.DIRSTACK[:] = [b]
    shutil.rmtree(b)
    before = (list(dsk.DIRSTACK), XSH.env["PWD"], os.getcwd())
    out = fn()
    after = (list(dsk.DIRSTACK), XSH.env["PWD"], os.getcwd())
    rc = out[2] if isinstance(out, tuple) and len(out) == 3 else None
    print(f"{name}: rc={rc} stack {before[0]} -> {after[0]}  PWD unchanged={before[1]==after[1]}")
    bad += (rc == 0 or before[0] != after[0])
sys.exit(1 if bad else 0)
