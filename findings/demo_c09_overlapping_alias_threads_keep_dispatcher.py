"""C09 demo: after `$(a1 | a2)` with two threaded callable aliases whose lifetimes overlap and end in the order they
started, sys.stdout / sys.stderr are the objects they were before.

Each alias thread redirected the process-wide stream with a context manager that saves what it finds and restores what it
saved: thread 1 saves the original and installs the dispatcher, thread 2 saves the *dispatcher*, thread 1 restores the
original, thread 2 restores the dispatcher - which then stays installed for the rest of the session."""
import os, sys, tempfile
root = os.environ.get("XV_REPO", "/repo")
sys.path.insert(0, root)
from xonsh.main import setup
d = tempfile.mkdtemp()
os.environ.update(XONSH_DATA_DIR=d, HOME=d, XONSH_CONFIG_DIR=d, XONSH_CACHE_DIR=d)
setup(shell_type="none", env={"XONSH_DATA_DIR": d, "THREAD_SUBPROCS": True, "XONSH_SHOW_TRACEBACK": True})
from xonsh.built_ins import XSH
import time
def a1(args, stdin, stdout, stderr):
    time.sleep(0.2)
    print("one", file=stdout)
    return 0
def a2(args, stdin, stdout, stderr):
    time.sleep(0.6)
    data = stdin.read() if stdin is not None else ""
    print("two:" + data.strip(), file=stdout)
    return 0
XSH.aliases["a1"] = a1
XSH.aliases["a2"] = a2
out0, err0 = sys.stdout, sys.stderr
bad = []
for i in range(3):
    XSH.execer.exec("x = $(a1 | a2)\n", glbs={"__xonsh__": XSH}, locs=None)
    if sys.stdout is not out0 or sys.stderr is not err0:
        bad.append((i, type(sys.stdout).__name__, type(sys.stderr).__name__))
        break
sys.stdout, sys.stderr = out0, err0
print("WRONG: after round %d sys.stdout is a %s, sys.stderr a %s" % bad[0] if bad else "OK: sys.stdout/sys.stderr unchanged after 3 overlapping alias pipelines")
sys.exit(1 if bad else 0)
