"""C12 demo: `history show all` lists every command once, also when $XONSH_HISTORY_FILE is set.

With $XONSH_HISTORY_FILE set before start-up the typed environment hands the shell a pathlib.Path; JsonHistory kept
it as is, and the own-file test of all_items() (`f == self.filename`, f a str from the directory listing) was never
true: the session's flushed commands came out twice - once read from the file, once from the session itself."""
import os, sys, tempfile, time, pathlib
sys.path.insert(0, os.environ.get("XV_REPO", "/repo"))
from xonsh.built_ins import XSH
from xonsh.environ import Env
from xonsh.history.json import JsonHistory

d = tempfile.mkdtemp()
hd = os.path.join(d, "history_json")
os.makedirs(hd)
fn = os.path.join(hd, "xonsh-pinned.json")
XSH.env = Env(XONSH_DATA_DIR=d, XONSH_HISTORY_FILE=fn, HISTCONTROL="", XONSH_STORE_STDOUT=False, XONSH_HISTORY_SAVE_CWD=False, XONSH_HISTORY_SIZE=(100, "commands"))
given = XSH.env.get("XONSH_HISTORY_FILE")          # what xonsh/shell.py passes on
h = JsonHistory(filename=given, gc=False, save_cwd=False, ts=[time.time(), None], locked=True)
for i in range(3):
    h.append({"inp": f"echo {i}", "rtn": 0, "ts": [float(i), float(i) + 0.5]})
h.flush()
while h._queue:
    time.sleep(0.01)
got = [it["inp"] for it in h.all_items()]
print("filename handed over as", type(given).__name__, "- all_items():", got)
ok = got == ["echo 0", "echo 1", "echo 2"]
print("OK" if ok else "WRONG: commands listed more than once")
sys.exit(0 if ok else 1)
