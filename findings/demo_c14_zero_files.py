"""C14 demo: with a limit of 0 files every (unlocked) file is over the limit and must be selected."""
import os, sys
sys.path.insert(0, os.environ.get("XV_REPO", "/repo"))
from xonsh.history.json import _xhj_gc_files_to_rmfiles
files = [(1.0, 3, "a", 10), (2.0, 3, "b", 10)]
n, rm = _xhj_gc_files_to_rmfiles(0, files)
print(n, rm)
ok = rm == files and _xhj_gc_files_to_rmfiles(1, files)[1] == files[:1] and _xhj_gc_files_to_rmfiles(2, files)[1] == []
print("OK" if ok else "WRONG")
sys.exit(0 if ok else 1)
