#!/venv/bin/python
"""C10 defect: Env.register()/deregister() change how a variable is turned into a string but keep the memoised mapping.

$X = ['a', 'b'] is exported as "['a', 'b']" while X is unregistered.  After `env.register('X', type='env_path')` the
variable's detyper is seq_to_pathsep ('a:b'), but detype() - and so the next child process - still hands out the old
string until something else happens to drop the memo.  exit 1 = defect shows."""
import sys
sys.path.insert(0, sys.argv[1] if len(sys.argv) > 1 else "/repo")
from xonsh.environ import Env
env = Env()
env["X"] = ["a", "b"]
before = env.detype()["X"]
env.register("X", type="env_path")
after = env.detype()["X"]
env._detyped = None
fresh = env.detype()["X"]
print("before register:", repr(before)); print("after register :", repr(after)); print("recomputed     :", repr(fresh))
bad = after != fresh
env.deregister("X")
after2 = env.detype()["X"]
env._detyped = None
fresh2 = env.detype()["X"]
print("after deregister:", repr(after2), "recomputed:", repr(fresh2))
bad = bad or after2 != fresh2
print("defect shows: the exported value lags behind the registry" if bad else "ok")
sys.exit(1 if bad else 0)
