#!/venv/bin/python
"""C03 defect: a single line chaining 12 or more bare commands with && or ; is rejected with a SyntaxError (the explicit ![...] form is accepted): the recovery loop wraps one segment per retry, but its retry budget is 2 * number of lines + 10.  exit 1 = defect shows."""
import sys, ast
sys.path.insert(0, sys.argv[1] if len(sys.argv) > 1 else "/repo")
from xonsh.built_ins import XSH
from xonsh.execer import Execer
XSH.load(execer=Execer(), inherit_env=False)
ex = XSH.execer
bad = 0
for n in (5, 11, 12, 13, 20, 40, 100):
    src = " && ".join(f"echo {i}" for i in range(n)) + "\n"
    try:
        ex.parse(src, ctx=set(), mode="exec")
        print(n, "ok")
    except SyntaxError as e:
        bad += 1
        print(n, "SyntaxError", str(e)[:70])
    src2 = "; ".join(f"echo {i}" for i in range(n)) + "\n"
    try:
        ex.parse(src2, ctx=set(), mode="exec")
    except SyntaxError as e:
        bad += 1
        print(n, "';' chain SyntaxError", str(e)[:70])
print("defect shows" if bad else "ok")
sys.exit(1 if bad else 0)
