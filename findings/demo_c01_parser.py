"""C01 demos: programs CPython accepts whose xonsh tree differs / does not compile.
Prints one line per case; exit 0 = all equal to CPython, 1 = some differ."""
import ast, os, sys
sys.path.insert(0, os.environ.get("XV_REPO", "/repo"))
from xonsh.parser import Parser
P = Parser(yacc_optimize=False, yacc_table="demo_table", outputdir=os.environ.get("TMPDIR", "/tmp"))
def norm(t):
    for n in ast.walk(t):
        if isinstance(n, ast.Constant):
            n.kind = None  # xonsh tags constants with a kind of its own; not part of the comparison
    return ast.dump(t, include_attributes=False)
cases = {
    "starred-arg-ctx": "f(*not a)\n",
    "annassign-simple": "self.x: int = 1\n",
    "kwargs-annotation": "def f(a, *args: T, **kw: T): pass\n",
    "for-tuple-target": "for i, in xs: pass\n",
}
bad = 0
only = sys.argv[1:] or list(cases)
for name in only:
    src = cases[name]
    want = norm(ast.parse(src))
    try:
        tree = P.parse(src)
        compile(tree, "<demo>", "exec")
        got = norm(tree)
        res = "same tree" if got == want else "DIFFERENT tree"
    except BaseException as e:
        res = f"{type(e).__name__}: {str(e)[:70]}"
    print(f"{name:20s} {src.strip():40s} -> {res}")
    bad += res != "same tree"
sys.exit(1 if bad else 0)
