"""C13 demo: a failure in the middle of the stale-lock rewrite (JsonHistoryGC.files) must
leave the history file loadable with its commands.  Run: /venv/bin/python demo... (cwd anywhere)
exit 0 = file intact, exit 1 = saved history damaged."""
import json, os, sys, tempfile, time
sys.path.insert(0, os.environ.get("XV_REPO", "/repo"))
from xonsh.built_ins import XSH
from xonsh.environ import Env
import xonsh.lib.lazyjson as xlj
import xonsh.history.json as hj

d = tempfile.mkdtemp()
XSH.env = Env(XONSH_DATA_DIR=d, XONSH_DEBUG=0)
hd = os.path.join(d, "history_json"); os.makedirs(hd)
f = os.path.join(hd, "xonsh-abc.json")
hist = {"cmds": [{"inp": "echo saved\n", "rtn": 0, "ts": [1.0, 2.0]}], "sessionid": "abc", "ts": [1.0, None], "locked": True}
with open(f, "w") as fp:
    xlj.ljdump(hist, fp, sort_keys=True)
real = xlj.ljdump
def failing(obj, fp, **kw):
    fp.write('{"locs": [')  # partial write, then the disk fills up / process dies
    fp.flush()
    raise OSError(28, "No space left on device")
xlj.ljdump = failing
gc = hj.JsonHistoryGC.__new__(hj.JsonHistoryGC)
try:
    gc.files(only_unlocked=False)
except Exception as e:
    print("files() raised", type(e).__name__, e)
xlj.ljdump = real
try:
    got = xlj.LazyJSON(f).load()
    ok = [c["inp"] for c in got["cmds"]] == ["echo saved\n"]
except Exception as e:
    print("history file no longer loads:", type(e).__name__, e); ok = False
print("INTACT" if ok else "DAMAGED")
sys.exit(0 if ok else 1)
