"""C09 demo: `producer | missing-command` — a later stage fails to start after the producer was started.
After the pipeline finished the shell must hold no still-running children and no extra fds.
exit 0 = clean, 1 = leaked child / fds."""
import os, sys, tempfile, subprocess
repo = os.environ.get("XV_REPO", "/repo")
d = tempfile.mkdtemp()
script = r'''
import os, time
$XONSH_SHOW_TRACEBACK = False
$RAISE_SUBPROC_ERROR = False
$XONSH_SUBPROC_RAISE_ERROR = False
def kids():
    out = []
    for t in os.listdir(f"/proc/{os.getpid()}/task"):
        try:
            out += open(f"/proc/{os.getpid()}/task/{t}/children").read().split()
        except OSError:
            pass
    alive = []
    for k in out:
        try:
            st = open(f"/proc/{k}/stat").read().split(")")[-1].split()[0]
            if st != "Z":
                alive.append((k, open(f"/proc/{k}/comm").read().strip()))
        except OSError:
            pass
    return alive
fd0 = len(os.listdir("/proc/self/fd"))
for _ in range(3):
    yes | definitely-not-a-command-xyz
time.sleep(0.5)
fd1 = len(os.listdir("/proc/self/fd"))
print("RESULT children:", kids(), "fds:", fd0, "->", fd1)
'''
sp = os.path.join(d, "s.xsh"); open(sp, "w").write(script)
p = subprocess.run([sys.executable, "-m", "xonsh", "--no-rc", sp], cwd=repo, capture_output=True, text=True, timeout=120,
                   env={**os.environ, "PYTHONPATH": repo, "XONSH_DATA_DIR": d, "HOME": d})
line = [l for l in p.stdout.splitlines() if l.startswith("RESULT")]
print(line[0] if line else p.stdout[-500:] + p.stderr[-500:])
ok = bool(line) and "children: []" in line[0]
subprocess.run(["pkill", "-f", "^yes$"])
sys.exit(0 if ok else 1)
