#!/venv/bin/python
"""C10 defect: Env.detype() hands out its memoised mapping itself, and several callers edit what they get
(prompt/gitstatus.py adds GIT_OPTIONAL_LOCKS, prompt/vc.py sets HGRCPATH='', xexec rewrites SHLVL, the Windows
branch of SubprocSpec.prep_env_subproc sets PROMPT).  After the git prompt field has run once, every later child
process receives GIT_OPTIONAL_LOCKS=0 (and after the hg field, HGRCPATH='' - the user's hg configuration is
ignored) although no such variable is set in the xonsh environment.  exit 1 = defect shows."""
import sys, os, subprocess
sys.path.insert(0, sys.argv[1] if len(sys.argv) > 1 else "/repo")
from xonsh.built_ins import XSH
from xonsh.execer import Execer
XSH.load(execer=Execer(), inherit_env=True)
env = XSH.env
env["RAISE_SUBPROC_ERROR"] = False
bad = []
before = dict(env.detype())
from xonsh.prompt import gitstatus
gitstatus._get_sp_output(XSH, "true")          # what the {gitstatus} prompt field does for every git call
if "GIT_OPTIONAL_LOCKS" in env:
    print("unexpected: variable is set in the environment"); sys.exit(2)
after = env.detype()
if "GIT_OPTIONAL_LOCKS" in after and "GIT_OPTIONAL_LOCKS" not in before:
    bad.append("env.detype() now contains GIT_OPTIONAL_LOCKS=%r although $GIT_OPTIONAL_LOCKS is not set" % after["GIT_OPTIONAL_LOCKS"])
from xonsh.prompt import vc
env["PWD"] = os.getcwd()
try:
    vc.hg_dirty_working_directory()                # the {hg_branch}/dirty prompt helper (hg itself need not exist)
except Exception as e:
    print("note: hg helper raised", type(e).__name__)
if env.detype().get("HGRCPATH") == "" and "HGRCPATH" not in env:
    bad.append("env.detype() now contains HGRCPATH='' although $HGRCPATH is not set")
out = XSH.execer.eval("$(/usr/bin/env)", glbs={}, locs={})
got = [l for l in out.splitlines() if l.startswith(("GIT_OPTIONAL_LOCKS=", "HGRCPATH="))]
if got:
    bad.append("a child process launched afterwards received %r" % got)
for b in bad:
    print("DEFECT:", b)
print("defect shows" if bad else "ok")
sys.exit(1 if bad else 0)
