#!/venv/bin/python
"""C11 defect: deleting, inside the scope, a variable that swap() had newly introduced makes the restore loop raise KeyError at exit; the loop is aborted and the remaining captured variables keep their in-scope values.  exit 1 = defect shows."""
import sys
sys.path.insert(0, sys.argv[1] if len(sys.argv) > 1 else "/repo")
from xonsh.environ import Env
env = Env(B="before")
try:
    with env.swap(A_NEW="1", B="inside"):
        del env["A_NEW"]
except Exception as e:
    print("exit raised", type(e).__name__, e)
print("B after scope:", env.get("B"), "| A_NEW present:", "A_NEW" in env)
bad = env.get("B") != "before"
print("defect shows" if bad else "ok")
sys.exit(1 if bad else 0)
