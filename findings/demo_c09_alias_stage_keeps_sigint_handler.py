"""C09 demo: after a pipeline with a threaded callable alias in a position other than the last (`a1 | cat`, `a1 | a2`),
the process's SIGINT handler is what it was before the command.

Each ProcProxyThread swaps its own `_signal_int` in when it is constructed and puts the saved handler back in wait() -
but the pipeline only ever wait()s its last stage; earlier stages are merely join()ed, so the handler of a finished
thread stays installed until the pipeline object is garbage collected.  Once that thread has seen one Ctrl-C
(`_interrupted` is set) the stale handler returns at once: every later Ctrl-C is swallowed."""
import os, sys, tempfile, signal
root = os.environ.get("XV_REPO", "/repo")
sys.path.insert(0, root)
from xonsh.main import setup
d = tempfile.mkdtemp()
os.environ.update(XONSH_DATA_DIR=d, HOME=d, XONSH_CONFIG_DIR=d, XONSH_CACHE_DIR=d)
setup(shell_type="none", env={"XONSH_DATA_DIR": d, "THREAD_SUBPROCS": True, "XONSH_SHOW_TRACEBACK": True})
from xonsh.built_ins import XSH
def a1(args, stdin, stdout, stderr):
    print("one", file=stdout)
    return 0
def a2(args, stdin, stdout, stderr):
    data = stdin.read() if stdin is not None else ""
    print("two:" + data.strip(), file=stdout)
    return 0
XSH.aliases["a1"] = a1
XSH.aliases["a2"] = a2
h0 = signal.getsignal(signal.SIGINT)
bad = []
for form in ("x = $(a1 | cat)\n", "x = $(a1 | a2)\n", "x = $(a1 | a1 | a2)\n"):
    XSH.execer.exec(form, glbs={"__xonsh__": XSH}, locs=None)
    h1 = signal.getsignal(signal.SIGINT)
    if not (h1 is h0 or h1 == h0):
        bad.append((form.strip(), repr(h1)[:90]))
    signal.signal(signal.SIGINT, h0)
for f, h in bad:
    print(f"WRONG: after `{f}` SIGINT is handled by {h}")
print("OK: SIGINT handler unchanged after pipelines with alias stages" if not bad else "")
sys.exit(1 if bad else 0)
