"""C05 demo: with $XONSH_SUBPROC_CMD_RAISE_ERROR=True a failing chain operand must raise at the command
"regardless of chain context" — for operands that are valid Python text (`ls /nope`, phase-2 parse path)
AND for those that are not (`false x`, phase-1 path).  exit 0 = both raise, 1 = they differ."""
import os, sys, tempfile, subprocess
repo = os.environ.get("XV_REPO", "/repo")
d = tempfile.mkdtemp()
def run(code):
    p = subprocess.run([sys.executable, "-m", "xonsh", "--no-rc", "-c", code], cwd=repo, capture_output=True, text=True,
                       env={**os.environ, "PYTHONPATH": repo, "XONSH_DATA_DIR": d, "HOME": d})
    return "fb" in p.stdout, p.returncode
a = run("$XONSH_SUBPROC_CMD_RAISE_ERROR=True\nls /__nope__ || echo fb\n")
b = run("$XONSH_SUBPROC_CMD_RAISE_ERROR=True\nfalse x || echo fb\n")
print("ls /__nope__ || echo fb  -> fallback ran:", a[0], "exit", a[1])
print("false x || echo fb       -> fallback ran:", b[0], "exit", b[1])
ok = (not a[0]) and (not b[0]) and a[1] != 0 and b[1] != 0
print("OK" if ok else "DIVERGES")
sys.exit(0 if ok else 1)
