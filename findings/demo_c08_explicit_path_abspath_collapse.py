#!/venv/bin/python
"""C08 defect: an explicit path with `..` after a symlinked directory can run a different file.

`link/../tool` (link -> ../elsewhere/dir) names elsewhere/tool for the kernel and for sh.  When that file is a
non-executable script, locate_executable() finds nothing and SubprocSpec.resolve_executable_commands falls back to
`os.path.abspath(cmd0)`, which collapses `link/..` lexically to the current directory: an executable `tool` that
happens to sit there is run instead (sh reports "Permission denied").  exit 1 = defect shows."""
import os
import subprocess
import sys
import tempfile

repo = sys.argv[1] if len(sys.argv) > 1 else "/repo"
top = tempfile.mkdtemp(prefix="c08-")
os.makedirs(os.path.join(top, "elsewhere", "dir"))
os.makedirs(os.path.join(top, "work"))
with open(os.path.join(top, "elsewhere", "tool"), "w") as f:
    f.write("#!/bin/sh\necho RIGHT-file\n")
os.chmod(os.path.join(top, "elsewhere", "tool"), 0o644)
with open(os.path.join(top, "work", "tool"), "w") as f:
    f.write('#!/bin/sh\necho WRONG-decoy-in-cwd "$@"\n')
os.chmod(os.path.join(top, "work", "tool"), 0o755)
os.symlink("../elsewhere/dir", os.path.join(top, "work", "link"))
cwd = os.path.join(top, "work")
env = dict(os.environ, PYTHONPATH=repo, HOME=top, XONSH_DATA_DIR=os.path.join(top, "data"))
sh = subprocess.run(["sh", "-c", "link/../tool a b"], cwd=cwd, capture_output=True, text=True)
xo = subprocess.run(["/venv/bin/python", "-m", "xonsh", "--no-rc", "-c", "link/../tool a b"], cwd=cwd, capture_output=True, text=True, env=env)
print("sh   :", sh.returncode, sh.stdout.strip(), sh.stderr.strip()[:80])
print("xonsh:", xo.returncode, xo.stdout.strip(), xo.stderr.strip().splitlines()[-1][:100] if xo.stderr.strip() else "")
bad = "WRONG-decoy" in xo.stdout
print("defect shows: xonsh ran the file in the current directory, not the one the path names" if bad else "ok")
import shutil

shutil.rmtree(top, ignore_errors=True)
sys.exit(1 if bad else 0)
