"""C07 demo: `o>e` and `e>o` on an `@unthreadable` callable alias deliver the merged stream like on every other stage kind.

ProcProxy.wait picks its stream objects with `_pick_buf`, which maps every descriptor below 3 to 'the session's stream of
the same name': the `2` flag of `o>e` sends stdout to sys.stdout (and the pipeline then trips over the raw flag:
AttributeError: 'int' object has no attribute 'readable'), and subprocess.STDOUT of `e>o` sends stderr to sys.stderr."""
import io, os, sys, tempfile
root = os.environ.get("XV_REPO", "/repo")
sys.path.insert(0, root)
from xonsh.main import setup
d = tempfile.mkdtemp()
os.environ.update(XONSH_DATA_DIR=d, HOME=d, XONSH_CONFIG_DIR=d, XONSH_CACHE_DIR=d)
setup(shell_type="none", env={"XONSH_DATA_DIR": d, "XONSH_SHOW_TRACEBACK": False})
from xonsh.built_ins import XSH
from xonsh.tools import unthreadable
@unthreadable
def ua(args, stdin, stdout, stderr):
    print("OUT", file=stdout); print("ERR", file=stderr); return 0
XSH.aliases["ua"] = ua
bad = []
real = sys.stdout, sys.stderr
for form, want_out, want_err in (("$[ua o>e]\n", "", "OUT\nERR\n"), ("$[ua e>o]\n", "OUT\nERR\n", "")):
    o, e = io.StringIO(), io.StringIO()
    sys.stdout, sys.stderr = o, e
    exc = None
    try:
        XSH.execer.exec(form, glbs={"__xonsh__": XSH}, locs=None)
    except BaseException as x:
        exc = x
    finally:
        sys.stdout, sys.stderr = real
    got_o = "".join(l for l in o.getvalue().splitlines(True) if l.strip() in ("OUT", "ERR"))
    got_e = "".join(l for l in e.getvalue().splitlines(True) if l.strip() in ("OUT", "ERR"))
    if exc is not None or sorted(got_o.split()) != sorted(want_out.split()) or sorted(got_e.split()) != sorted(want_err.split()):
        bad.append(f"{form.strip()}: stdout got {got_o!r}, stderr got {got_e!r}" + (f", raised {type(exc).__name__}: {exc}" if exc else ""))
print("WRONG: " + " | ".join(bad) if bad else "OK: both merges delivered")
sys.exit(1 if bad else 0)
