"""C11 demo: after `with env.swap(A="1", XONSH_SHOW_TRACEBACK=True): pass` nothing is left in the thread-private layer.

The exit step wrote the captured value back *thread-locally* also for keys that had no private entry when they were
captured (the value came from the shared mapping or from a default): the copy stayed pinned in the thread's private
layer - a default-valued variable now appears in detype() (the mapping children receive), a later `env["A"] = "new"` by
this thread is invisible to every other thread, and `del env["A"]` only removes the pinned copy."""
import os, sys, threading
root = os.environ.get("XV_REPO", "/repo")
sys.path.insert(0, root)
from xonsh.environ import Env
env = Env(A="0")
had = "XONSH_SHOW_TRACEBACK" in env.detype()
with env.swap(A="1", XONSH_SHOW_TRACEBACK=True):
    pass
bad = []
if dict(env._d._local):
    bad.append(f"private layer after the scope: {dict(env._d._local)}")
if ("XONSH_SHOW_TRACEBACK" in env.detype()) != had:
    bad.append("XONSH_SHOW_TRACEBACK (a default, never set) is now exported to children")
env["A"] = "new"
seen = []
t = threading.Thread(target=lambda: seen.append(env["A"])); t.start(); t.join()
if seen != ["new"]:
    bad.append(f"env['A'] = 'new' after the scope: another thread still reads {seen[0]!r}")
del env["A"]
if "A" in env:
    bad.append(f"del env['A'] after the scope: A is still {env.get('A')!r}")
for b in bad:
    print("WRONG:", b)
print("OK: the scope left nothing behind" if not bad else "")
sys.exit(1 if bad else 0)
