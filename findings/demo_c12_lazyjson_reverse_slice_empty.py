"""C12 demo: a slice of a sequence node of the lazy JSON reader (the on-disk history store) selects what the same slice of
the stored list selects - also with a negative step that runs down to the first element (`[::-1]`, `[3::-1]`)."""
import io, os, sys
root = os.environ.get("XV_REPO", "/repo")
sys.path.insert(0, root)
from xonsh.lib.lazyjson import LazyJSON, ljdump
data = {"cmds": [{"inp": f"echo {i}\n", "rtn": 0} for i in range(6)]}
f = io.StringIO()
ljdump(data, f)
f.seek(0)
lj = LazyJSON(f)
bad = []
for s in (slice(None, None, -1), slice(3, None, -1), slice(-1, -100, -1), slice(1, 4), slice(None, 2, -2)):
    got = [n["inp"] for n in lj["cmds"][s]]
    want = [c["inp"] for c in data["cmds"][s]]
    if got != want:
        bad.append(f"cmds[{s.start}:{s.stop}:{s.step}] has {len(got)} entries, the stored list's slice has {len(want)}")
print("WRONG: " + "; ".join(bad) if bad else "OK: 5 slices read back what the stored list holds")
sys.exit(1 if bad else 0)
