"""C20 demo: `disown 1 99` must report the invalid ID without altering the table."""
import os, sys, collections
sys.path.insert(0, os.environ.get("XV_REPO", "/repo"))
from xonsh.built_ins import XSH
from xonsh.environ import Env
import xonsh.procs.jobs as xj
XSH.env = Env(AUTO_CONTINUE=False)
XSH.all_jobs = {1: {"status": "running", "pids": [11], "obj": None, "bg": True}}
xj._tasks_main.clear(); xj._tasks_main.append(1)
res = xj.disown_fn([1, 99])
print(res, dict(XSH.all_jobs).keys(), list(xj._tasks_main))
ok = isinstance(res, tuple) and "99" in res[1] and list(XSH.all_jobs) == [1] and list(xj._tasks_main) == [1]
print("OK" if ok else "WRONG: table altered although an error was reported")
sys.exit(0 if ok else 1)
