#!/venv/bin/python
"""C17 defect: the formatter applied Python's spacing rules between the words of subprocess commands.

`rsync -av host:/a/b .` became `rsync -av host: /a/b .`, `echo https://x.y/z` became `echo https: //x.y/z`,
`dd if=/dev/zero of=x` became `dd if =/dev/zero of=x`, `echo a,b` became `echo a, b`, `echo x==y` became `echo x == y`,
`echo a , b` became `echo a, b` - on bare command lines and inside $(...) / ![...] alike.  In a command a gap separates
two arguments and no gap joins them, so each of these changes what the command receives.  exit 1 = defect shows."""
import sys
sys.path.insert(0, sys.argv[1] if len(sys.argv) > 1 else "/repo")
from xonsh.formatter.core import format_source
cases = ["rsync -av host:/a/b .\n", "echo https://x.y/z\n", "dd if=/dev/zero of=x bs=1\n", "echo a,b\n", "echo x==y\n", "echo a , b\n",
         "x = $(dd if=/dev/zero count=1)\n", "![echo a:b c!=d]\n", "for i in $(ls a:b):\n    pass\n", "ls -l | grep a:b\n", "echo a->b key:=val\n"]
bad = 0
for src in cases:
    out = format_source(src)
    if out != src:
        bad += 1
        print("CHANGED:", repr(src), "->", repr(out))
print("defect shows" if bad else "ok: every command line came back as written")
sys.exit(1 if bad else 0)
