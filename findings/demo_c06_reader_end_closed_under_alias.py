#!/venv/bin/python
"""C06 defect: `$(seq 1 1000 | slow)` where `slow` is a callable alias that starts reading its stdin only after the
producer has exited: the alias gets `OSError: [Errno 9] Bad file descriptor` and the capture is empty.

PrevProcCloser.run() called CommandPipeline._close_prev_procs() as soon as the earlier stages were done - while the
last stage was still running.  That closes the reader ends of the connecting pipes; an alias stage runs on a thread
of this process and reads through that very descriptor.  exit 1 = defect shows."""
import sys, time
sys.path.insert(0, sys.argv[1] if len(sys.argv) > 1 else "/repo")
from xonsh.built_ins import XSH
from xonsh.execer import Execer
XSH.load(execer=Execer(), inherit_env=True)
XSH.env["XONSH_SUBPROC_CMD_RAISE_ERROR"] = False
XSH.env["XONSH_SUBPROC_RAISE_ERROR"] = False if "XONSH_SUBPROC_RAISE_ERROR" in XSH.env else False
def _slow(args, stdin=None, stdout=None):
    time.sleep(1.0)                 # the producer (seq) is long gone when we start to read
    data = stdin.read()
    print(len(data.splitlines()), file=stdout)
XSH.aliases["slow"] = _slow
try:
    r = XSH.execer.eval("$(seq 1 1000 | slow)", glbs={}, locs={})
except Exception as e:
    r = f"<{type(e).__name__}>"
print("captured:", repr(r))
bad = r.strip() != "1000"
print("defect shows: the alias lost its input" if bad else "ok")
sys.exit(1 if bad else 0)
