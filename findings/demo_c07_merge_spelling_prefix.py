#!/venv/bin/python
"""C07 defect: `cmd 2>out.log` merged stderr into stdout and passed `.log` as an extra argument.

The tokenizer matched the two-sided redirect spellings (`2>out`, `1>err`, `e>o`, `a>p` ...) as prefixes of longer words:
`2>out.log` -> IOREDIRECT2 `2>out` + word `.log`; `a>perf.log` -> `a>p` (all streams to the following pipe) + `erf.log`;
`2>1.log` -> `2>1` + `.log`.  Nothing is written to the named file, stderr goes somewhere else, the command gets a stray
argument - silently.  exit 1 = defect shows."""
import ast, sys
sys.path.insert(0, sys.argv[1] if len(sys.argv) > 1 else "/repo")
from xonsh.built_ins import XSH
from xonsh.execer import Execer
XSH.load(execer=Execer(), inherit_env=False)
bad = 0
for src, want in [("echo hi 2>out.log\n", ("2>", "out.log")), ("echo hi 1>err.txt\n", ("1>", "err.txt")), ("echo hi a>perf.log\n", ("a>", "perf.log")), ("echo hi e>problems.txt\n", ("e>", "problems.txt")), ("echo hi 2>1.log\n", ("2>", "1.log"))]:
    t = XSH.execer.parse(src, ctx={"__xonsh__"}, mode="exec")
    tups = [x for x in ast.walk(t) if isinstance(x, ast.Tuple)]
    got = None
    for tp in tups:
        vals = [e.value if isinstance(e, ast.Constant) else (e.args[0].value if isinstance(e, ast.Call) and e.args and isinstance(e.args[0], ast.Constant) else None) for e in tp.elts]
        got = tuple(vals)
    ok = got == want
    bad += not ok
    print("ok " if ok else "BAD", repr(src), "->", got)
print("defect shows" if bad else "ok")
sys.exit(1 if bad else 0)
