"""C14 demo: with a custom `*.sqlite` history file the SQLite backend's garbage collection keeps the newest N commands of
*that* table.

SqliteHistory hands `filename=self.filename` to every backend helper except the GC thread (`SqliteHistoryGC()` in
__init__ and in run_gc): the collection falls back to the default database, so the session's own table is never trimmed."""
import os, sys, tempfile
root = os.environ.get("XV_REPO", "/repo")
sys.path.insert(0, root)
from xonsh.main import setup
d = tempfile.mkdtemp()
os.environ.update(XONSH_DATA_DIR=d, HOME=d, XONSH_CONFIG_DIR=d, XONSH_CACHE_DIR=d)
setup(shell_type="none", env={"XONSH_DATA_DIR": d, "XONSH_HISTORY_BACKEND": "sqlite"})
from xonsh.built_ins import XSH
from xonsh.history.sqlite import SqliteHistory, xh_sqlite_get_count
own = os.path.join(d, "mine.sqlite")
h = SqliteHistory(gc=False, filename=own, sessionid="s1")
for i in range(6):
    h.append({"inp": f"echo {i}", "rtn": 0, "ts": [float(i), float(i) + 0.5]})
before = xh_sqlite_get_count(filename=own)
h.run_gc(size=(2, "commands"), blocking=True)
after = xh_sqlite_get_count(filename=own)
print(f"own database: {before} commands before the collection with a limit of 2, {after} after")
ok = after == 2
print("OK" if ok else "WRONG: the session's own database was not trimmed (the collection ran on the default database)")
sys.exit(0 if ok else 1)
