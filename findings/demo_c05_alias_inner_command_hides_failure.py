"""C05 demo: `$[aa]` / `$(aa)` raise when the callable alias `aa` fails, whatever commands it ran itself.

The wrapper judges helpers that return no pipeline through XSH.lastcmd, which _run_specs set *before* ending the
pipeline; an alias stage runs its nested commands while it is being ended, and each of them re-points lastcmd. So
`$[aa]` with `aa` = (run `echo ok`; return 1) was judged by `echo ok` and the script carried on."""
import os, subprocess, sys, tempfile
root = os.environ.get("XV_REPO", "/repo")
src = '''
def _aa(args):
    ![echo inner-ok]
    return 3
aliases['aa'] = _aa
%s
print("AFTER")
'''
bad = []
with tempfile.TemporaryDirectory() as d:
    for stmt in ("$[aa]", "$(aa)", "@$(aa)", "aa"):
        f = os.path.join(d, "t.xsh")
        open(f, "w").write(src % stmt)
        p = subprocess.run([sys.executable, "-m", "xonsh", "--no-rc", f], cwd=root, capture_output=True, text=True, env=dict(os.environ, PYTHONPATH=root, XONSH_DATA_DIR=d, HOME=d), timeout=120)
        if "AFTER" in p.stdout or p.returncode == 0:
            bad.append((stmt, p.returncode, "AFTER" in p.stdout))
print("WRONG: the failing alias did not stop the script for %r (statement, exit code, later statement ran)" % bad if bad else "OK: a failing alias stops the script in all four forms")
sys.exit(1 if bad else 0)
