#!/venv/bin/python
"""C18 defect: the completion-context analyser never returns for an unterminated single-quoted f-string followed by a line end (`f'` + Enter): the tolerant tokenizer breaks out of its f-string scan without moving pos or ending the string.  exit 1 = defect shows (some input hangs > 3 s)."""
import sys, signal
sys.path.insert(0, sys.argv[1] if len(sys.argv) > 1 else "/repo")
bad = 0
from xonsh.parsers.completion_context import CompletionContextParser
def handler(*a): raise TimeoutError
signal.signal(signal.SIGALRM, handler)
p = CompletionContextParser()
for text in ["f'\r", "f'\n", "f'a\rb", "echo f'x\r", "f'''\r", "'\r", "f'\r\n"]:
    signal.alarm(3)
    try:
        r = p.parse(text, len(text))
        print(repr(text), "->", "ok")
    except TimeoutError:
        print(repr(text), "-> HANG (>3s)"); bad += 1
    except Exception as e:
        print(repr(text), "->", type(e).__name__, e)
    finally:
        signal.alarm(0)

sys.exit(1 if bad else 0)
