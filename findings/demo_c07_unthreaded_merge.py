"""C07 demo (known finding): for an *unthreadable* callable alias the merge redirects are not honoured.
`unthr > f e>o` must put both streams into f.  exit 0 = routed as documented, 1 = misrouted."""
import os, sys, tempfile, subprocess
repo = os.environ.get("XV_REPO", "/repo")
d = tempfile.mkdtemp()
f = os.path.join(d, "f")
script = f'''
from xonsh.tools import unthreadable
@unthreadable
def _unthr(args, stdin, stdout, stderr):
    print("OUT", file=stdout); print("ERR", file=stderr)
    return 0
aliases["unthr"] = _unthr
unthr > {f} e>o
'''
sp = os.path.join(d, "s.xsh"); open(sp, "w").write(script)
p = subprocess.run([sys.executable, "-m", "xonsh", "--no-rc", sp], cwd=repo, capture_output=True, text=True,
                   env={**os.environ, "PYTHONPATH": repo, "XONSH_DATA_DIR": d, "HOME": d})
content = open(f).read() if os.path.exists(f) else ""
print("file:", repr(content), "| terminal stderr:", repr(p.stderr[-200:]))
ok = "OUT" in content and "ERR" in content and "ERR" not in p.stderr
print("OK" if ok else "MISROUTED")
sys.exit(0 if ok else 1)
