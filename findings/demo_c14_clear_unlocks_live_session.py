"""C14 demo: `history clear` must not turn the live session's file into a GC candidate.

JsonHistory.clear() rewrote the session's file as {"cmds": [], "sessionid": ...} - without `locked` and `ts` -
so every later GC pass (this session's or another's) saw an unlocked file of age 0, the oldest of all, and removed it
first while the session was still appending to it."""
import os, sys, tempfile, time
sys.path.insert(0, os.environ.get("XV_REPO", "/repo"))
from xonsh.built_ins import XSH
from xonsh.environ import Env
from xonsh.history.json import JsonHistory, JsonHistoryGC

d = tempfile.mkdtemp()
XSH.env = Env(XONSH_DATA_DIR=d, XONSH_HISTORY_SIZE=(1, "files"), HISTCONTROL="", XONSH_STORE_STDOUT=False, XONSH_HISTORY_SAVE_CWD=False, XONSH_DEBUG=0)
os.makedirs(os.path.join(d, "history_json"), exist_ok=True)
live = os.path.join(d, "history_json", "xonsh-live.json")
h = JsonHistory(filename=live, gc=False, save_cwd=False, ts=[time.time(), None], locked=True)
h.append({"inp": "first", "rtn": 0, "ts": [1.0, 2.0]})
h.flush()
while h._queue:
    time.sleep(0.01)
gc = JsonHistoryGC.__new__(JsonHistoryGC)
gc.gc_units_to_rmfiles = None
before = [f[2] for f in JsonHistoryGC.files(gc, only_unlocked=True)]
h.clear()
after = [f[2] for f in JsonHistoryGC.files(gc, only_unlocked=True)]
print("GC candidates before clear():", [os.path.basename(f) for f in before], "after:", [os.path.basename(f) for f in after])
ok = live not in before and live not in after
print("OK" if ok else "WRONG: the live session's file became a GC candidate after `history clear`")
sys.exit(0 if ok else 1)
