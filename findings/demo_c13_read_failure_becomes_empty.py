"""C13 demo: one failing open() on the read side of a flush must not cost the commands saved earlier.

JsonHistoryFlusher.dump caught OSError next to the 'corrupt file' errors and started from an empty history,
then os.replace()d the good file with it: an EMFILE / EIO / EACCES at that instant lost everything flushed before."""
import builtins, errno, json, os, sys, tempfile
sys.path.insert(0, os.environ.get("XV_REPO", "/repo"))
from xonsh.built_ins import XSH
from xonsh.environ import Env
from xonsh.history.json import JsonHistory
from xonsh.lib.lazyjson import LazyJSON

d = tempfile.mkdtemp()
XSH.env = Env(XONSH_DATA_DIR=d, XONSH_HISTORY_SIZE=(1000, "commands"), HISTCONTROL="", XONSH_STORE_STDOUT=False, XONSH_HISTORY_SAVE_CWD=False)
fn = os.path.join(d, "h.json")
h = JsonHistory(filename=fn, gc=False, save_cwd=False)
h.append({"inp": "first", "rtn": 0, "ts": [1.0, 2.0]})
h.flush(at_exit=True)
h.append({"inp": "second", "rtn": 0, "ts": [3.0, 4.0]})
real_open = builtins.open
def failing_open(file, mode="r", *a, **k):
    if file == fn and "w" not in mode and "a" not in mode and "+" not in mode:
        raise OSError(errno.EMFILE, "Too many open files", file)
    return real_open(file, mode, *a, **k)
builtins.open = failing_open
try:
    h.flush(at_exit=True)
finally:
    builtins.open = real_open
with real_open(fn) as f:
    cmds = [c["inp"] for c in LazyJSON(f).load()["cmds"]]
print("commands on disk after a flush whose read failed with EMFILE:", cmds)
ok = "first" in cmds
print("OK" if ok else "WRONG: 'first' was saved before the failing flush and is gone")
sys.exit(0 if ok else 1)
