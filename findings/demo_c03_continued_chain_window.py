#!/venv/bin/python
"""C03 defect: a boolean chain of bare commands continued with a backslash compiles to the LAST command twice.

`pwd and \\` + newline + `date` (also with `&&`) becomes `date and date`: `pwd` never runs, `date` runs twice.  The second
phase (CtxAwareTransformer.try_subproc_toks) cuts each operand out of the *joined logical line* using the operand's column
in its own *physical* line, and for a multi-line logical line it takes everything up to the end of the joined line.
The explicit form `![pwd] and \\` + newline + `![date]` is fine.  exit 1 = defect shows."""
import ast, sys
sys.path.insert(0, sys.argv[1] if len(sys.argv) > 1 else "/repo")
from xonsh.built_ins import XSH
from xonsh.execer import Execer
XSH.load(execer=Execer(), inherit_env=False)
bad = 0
for src in ["pwd and \\\ndate\n", "pwd && \\\ndate\n", "echo one or \\\necho two\n"]:
    t = XSH.execer.parse(src, ctx={"__xonsh__"}, mode="exec")
    cmds = [c.args[0].elts[0].args[0].value for c in ast.walk(t) if isinstance(c, ast.Call) and getattr(c.func, "attr", "").startswith("subproc_captured") and c.args]
    first = src.split()[0]
    ok = cmds and cmds[0] == first
    bad += not ok
    print(("ok " if ok else "BAD"), repr(src), "-> commands", cmds)
print("defect shows" if bad else "ok")
sys.exit(1 if bad else 0)
