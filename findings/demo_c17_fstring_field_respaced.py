"""C17 demo: formatting does not change what an f-string evaluates to.

`f"{y = }"` (self-documenting field: the spaces are printed) becomes `f"{y =}"`, and `f"{y:{w}}"` becomes
`f"{y: {w}}"` - a format spec that starts with a space is the 'space for positive numbers' sign flag."""
import os, sys
root = os.environ.get("XV_REPO", "/repo")
sys.path.insert(0, root)
from xonsh.formatter.core import format_source
bad = []
for src in ('s = f"{y = }"\n', 's = f"{y:{w}}"\n'):
    out = format_source(src)
    a, b = {"y": 5, "w": "d"}, {"y": 5, "w": "d"}
    exec(src, a); exec(out, b)
    if a["s"] != b["s"]:
        bad.append(f"{src.strip()} -> {out.strip()}: value {a['s']!r} became {b['s']!r}")
print("WRONG: " + "; ".join(bad) if bad else "OK: both f-strings keep their value")
sys.exit(1 if bad else 0)
