"""Environment demos (known findings).
 C11.R4  thread A inside env.swap(FOO=1) calls detype(); thread B's detype() then returns FOO=1 (shared cache).
 C10.R2  p = env['PATH']; env.detype(); p.append(x)  -> next detype() misses x (stale cache).
 C11.R2  X set; overlay {X: DELETE_VAR} below overlay {X: '1'}: `'X' in env` is True, env['X'] == '1', but iteration omits X.
exit 0 = all fine, 1 = at least one defect shows."""
import os, sys, threading
sys.path.insert(0, os.environ.get("XV_REPO", "/repo"))
from xonsh.environ import Env, DELETE_VAR
from xonsh.built_ins import XSH
XSH.env = Env()
bad = 0
env = Env(PATH=["/bin"])
in_swap = threading.Event(); done = threading.Event(); res = {}
def a():
    with env.swap(FOO="1"):
        env.detype()
        in_swap.set(); done.wait(5)
def b():
    in_swap.wait(5)
    res["b"] = env.detype().get("FOO")
    done.set()
ta, tb = threading.Thread(target=a), threading.Thread(target=b)
ta.start(); tb.start(); ta.join(); tb.join()
print("C11.R4 thread B sees FOO =", res["b"]); bad += res["b"] is not None
env = Env(PATH=["/bin"])
p = env["PATH"]; env.detype(); p.append("/zzz")
d = env.detype()["PATH"]
print("C10.R2 detype after in-place append:", d); bad += "/zzz" not in d
env = Env(X="0")
with env.swap(overlay={"X": DELETE_VAR}):
    with env.swap(overlay={"X": "1"}):
        views = ("X" in env, env.get("X"), "X" in list(env), env.detype().get("X"))
print("C11.R2 (in, get, iter, detype) =", views); bad += not (views[0] == views[2])
sys.exit(1 if bad else 0)
