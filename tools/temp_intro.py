#!/venv/bin/python
"""temp_intro.py <out_root> [hoist|ret|cond|all]  -- copy /repo/xonsh to <out_root>/xonsh with temporaries introduced.

Robustness probe for the rules (never part of a check).  Inside functions only:

  hoist  `f(g(a), b)` as a whole statement value  ->  `_xt1 = g(a); f(_xt1, b)`   (first positional argument only, callee a
         plain dotted name: nothing with an effect is evaluated before the hoisted call, so evaluation order is kept)
  ret    `return <expr>`  ->  `_xr1 = <expr>; return _xr1`                       (expr not a name / constant)
  cond   `if <test>:` (not an elif)  ->  `_xc1 = <test>; if _xc1:`               (test not a name / constant)

Files are written with ast.unparse (comments are lost; verdicts are known not to depend on them).  Behaviour-preserving
by construction; validated by running the unit tests on the transformed tree."""
import ast
import os
import shutil
import sys

SRC = os.environ.get("XV_REPO") or "/repo"


def dotted(e):
    while isinstance(e, ast.Attribute):
        e = e.value
    return isinstance(e, ast.Name)


class Intro(ast.NodeTransformer):
    def __init__(self, modes):
        self.modes = modes
        self.n = 0
        self.depth = 0  # function nesting
        self.k = 0

    def fresh(self, p):
        self.k += 1
        return f"_x{p}{self.k}"

    def visit_FunctionDef(self, node):
        self.depth += 1
        # names declared global/nonlocal are irrelevant: temporaries are fresh
        node.body = self.block(node.body)
        self.depth -= 1
        return node

    visit_AsyncFunctionDef = visit_FunctionDef

    def visit_ClassDef(self, node):
        d, self.depth = self.depth, 0
        self.generic_visit(node)
        self.depth = d
        return node

    def visit_Lambda(self, node):
        return node

    def block(self, stmts, elif_pos=False):
        out = []
        for s in stmts:
            out += self.stmt(s)
        return out

    def stmt(self, s):
        pre = []
        if isinstance(s, (ast.FunctionDef, ast.AsyncFunctionDef, ast.ClassDef)):
            return [self.visit(s)]
        # compound statements: recurse into blocks
        for fld in ("body", "orelse", "finalbody"):
            b = getattr(s, fld, None)
            if isinstance(b, list) and b and isinstance(b[0], ast.stmt):
                if fld == "orelse" and isinstance(s, ast.If) and len(b) == 1 and isinstance(b[0], ast.If):
                    # elif: its test must stay where it is; only recurse into its blocks
                    b[0] = self.elif_(b[0])
                else:
                    setattr(s, fld, self.block(b))
        if isinstance(s, ast.Try) or (hasattr(ast, "TryStar") and isinstance(s, getattr(ast, "TryStar"))):
            for h in s.handlers:
                h.body = self.block(h.body)
        if isinstance(s, ast.Match):
            for c in s.cases:
                c.body = self.block(c.body)
        if self.depth == 0:
            return [s]
        if "hoist" in self.modes and isinstance(s, (ast.Expr, ast.Assign, ast.Return, ast.AugAssign)) and isinstance(getattr(s, "value", None), ast.Call):
            c = s.value
            tgt_ok = not isinstance(s, (ast.Assign, ast.AugAssign)) or all(isinstance(t, ast.Name) for t in (s.targets if isinstance(s, ast.Assign) else [s.target]))
            if tgt_ok and dotted(c.func) and c.args and isinstance(c.args[0], ast.Call) and not any(isinstance(a, ast.Starred) for a in c.args[:1]) and not _has_yield(c.args[0]) and not _walrus(c):
                t = self.fresh("t")
                pre.append(ast.copy_location(ast.Assign(targets=[ast.Name(id=t, ctx=ast.Store())], value=c.args[0]), s))
                c.args[0] = ast.Name(id=t, ctx=ast.Load())
                self.n += 1
        if "ret" in self.modes and isinstance(s, ast.Return) and s.value is not None and not isinstance(s.value, (ast.Name, ast.Constant)) and not _has_yield(s.value):
            t = self.fresh("r")
            pre.append(ast.copy_location(ast.Assign(targets=[ast.Name(id=t, ctx=ast.Store())], value=s.value), s))
            s.value = ast.Name(id=t, ctx=ast.Load())
            self.n += 1
        if "cond" in self.modes and isinstance(s, ast.If) and not isinstance(s.test, (ast.Name, ast.Constant)) and not _has_yield(s.test) and not _walrus(s.test):
            t = self.fresh("c")
            pre.append(ast.copy_location(ast.Assign(targets=[ast.Name(id=t, ctx=ast.Store())], value=s.test), s))
            s.test = ast.Name(id=t, ctx=ast.Load())
            self.n += 1
        return pre + [s]

    def elif_(self, s):
        s.body = self.block(s.body)
        if len(s.orelse) == 1 and isinstance(s.orelse[0], ast.If):
            s.orelse[0] = self.elif_(s.orelse[0])
        else:
            s.orelse = self.block(s.orelse)
        return s


def _has_yield(e):
    return any(isinstance(x, (ast.Yield, ast.YieldFrom, ast.Await)) for x in ast.walk(e))


def _walrus(e):
    return any(isinstance(x, ast.NamedExpr) for x in ast.walk(e))


def transform(src, modes):
    tree = ast.parse(src)
    tr = Intro(modes)
    tree.body = [x for s in tree.body for x in tr.stmt(s)]
    return ast.unparse(ast.fix_missing_locations(tree)) + "\n", tr.n


def main():
    out_root = sys.argv[1]
    mode = sys.argv[2] if len(sys.argv) > 2 else "all"
    modes = {"hoist", "ret", "cond"} if mode == "all" else set(mode.split(","))
    total = 0
    for dp, dns, fns in os.walk(os.path.join(SRC, "xonsh")):
        dns[:] = [d for d in dns if d != "__pycache__"]
        rel = os.path.relpath(dp, SRC)
        os.makedirs(os.path.join(out_root, rel), exist_ok=True)
        for fn in fns:
            sp, dpth = os.path.join(dp, fn), os.path.join(out_root, rel, fn)
            if fn.endswith(".py") and not fn.endswith("parser_table.py"):
                src = open(sp, encoding="utf8").read()
                try:
                    new, n = transform(src, modes)
                    compile(new, fn, "exec")
                    total += n
                except Exception as e:
                    print("skip", rel, fn, e, file=sys.stderr)
                    new = src
                open(dpth, "w", encoding="utf8").write(new)
            else:
                shutil.copy(sp, dpth)
    for entry in os.listdir(SRC):
        if entry in (".git", "xonsh", "__pycache__", ".pytest_cache"):
            continue
        os.symlink(os.path.join(SRC, entry), os.path.join(out_root, entry))
    print(f"introduced {total} temporaries ({'+'.join(sorted(modes))})")


if __name__ == "__main__":
    main()
