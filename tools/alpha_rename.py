#!/venv/bin/python
"""alpha_rename.py <out_root> [suffix]  -- copy /repo/xonsh to <out_root>/xonsh with every function-local variable renamed.

Robustness probe for the rules (never part of a check): a local is renamed when it is assigned in the function, is not a
parameter, not declared global/nonlocal, not used by a nested function/lambda/comprehension-with-own-scope conflict, and the
function does not call locals()/vars()/eval/exec.  The result is behaviour-preserving by construction."""
import ast
import os
import shutil
import symtable
import sys

SRC = os.environ.get("XV_REPO") or "/repo"


def rename_module(src, suffix):
    tree = ast.parse(src)
    st = symtable.symtable(src, "m", "exec")

    def tables(t, out):
        for c in t.get_children():
            out.setdefault((c.get_name(), c.get_lineno()), []).append(c)
            tables(c, out)
        return out

    tabs = tables(st, {})
    edits = []  # (lineno, col, old, new)

    class V(ast.NodeVisitor):
        def visit_FunctionDef(self, fn):
            self.generic_visit(fn)
            cands = tabs.get((fn.name, fn.lineno)) or []
            cands = [c for c in cands if c.get_type() == "function"]
            if len(cands) != 1:
                return
            t = cands[0]
            txt = ast.unparse(fn)
            if any(k in txt for k in ("locals()", "vars()", "eval(", "exec(")):
                return
            params = set(t.get_parameters())
            locs = set()
            for s in t.get_symbols():
                n = s.get_name()
                if s.is_local() and s.is_assigned() and n not in params and not s.is_global() and not s.is_nonlocal() and not s.is_imported() and not n.startswith("__"):
                    locs.add(n)
            # names used free in nested scopes stay
            def nested_free(tt):
                out = set()
                for c in tt.get_children():
                    for s in c.get_symbols():
                        if s.is_free():
                            out.add(s.get_name())
                    out |= nested_free(c)
                return out

            locs -= nested_free(t)
            # nested defs/classes named like a local stay
            for n in ast.walk(fn):
                if n is not fn and isinstance(n, (ast.FunctionDef, ast.AsyncFunctionDef, ast.ClassDef)):
                    locs.discard(n.name)
            if not locs:
                return

            order = sorted(locs)

            def newname(old_):
                if suffix == "OPAQUE":
                    return f"zq{order.index(old_)}" if old_ in order else old_ + "_x"
                return old_ + suffix

            def walk(n, top=True):
                if not top and isinstance(n, (ast.FunctionDef, ast.AsyncFunctionDef, ast.Lambda, ast.ClassDef)):
                    # evaluated in the enclosing scope: decorators, defaults, bases
                    outer = []
                    if not isinstance(n, ast.Lambda):
                        outer += n.decorator_list
                    if isinstance(n, ast.ClassDef):
                        outer += n.bases + [k.value for k in n.keywords]
                    else:
                        outer += n.args.defaults + [d for d in n.args.kw_defaults if d is not None]
                    for o in outer:
                        walk(o, False)
                    return
                if isinstance(n, ast.Name) and n.id in locs:
                    edits.append((n.lineno, n.col_offset, n.id, newname(n.id)))
                for c in ast.iter_child_nodes(n):
                    walk(c, False)

            # except-handler names and match captures / import aliases have no Name node: exclude them first
            for n in ast.walk(fn):
                if isinstance(n, ast.ExceptHandler) and n.name:
                    locs.discard(n.name)
                if isinstance(n, (ast.MatchAs, ast.MatchStar)) and n.name:
                    locs.discard(n.name)
                if isinstance(n, ast.MatchMapping) and n.rest:
                    locs.discard(n.rest)
                if isinstance(n, ast.alias):
                    locs.discard((n.asname or n.name).split(".")[0])
                if isinstance(n, ast.comprehension):
                    for t in ast.walk(n.target):
                        if isinstance(t, ast.Name):
                            locs.discard(t.id)  # comprehension variable with the name of a local: leave both alone
                if isinstance(n, ast.NamedExpr) and any(isinstance(a, (ast.ListComp, ast.SetComp, ast.DictComp, ast.GeneratorExp)) for a in ast.walk(fn) if n in ast.walk(a)):
                    locs.discard(n.target.id)
            # a comprehension inside uses its own scope but reads enclosing locals: those are 'free' in the child table (handled)
            walk(fn)

        visit_AsyncFunctionDef = visit_FunctionDef

    V().visit(tree)
    if not edits:
        return src, 0
    lines = src.split("\n")
    # ast col offsets are in utf8 bytes
    for ln, col, old, new in sorted(set(edits), reverse=True):
        b = lines[ln - 1].encode("utf8")
        if b[col : col + len(old.encode())] != old.encode():
            raise RuntimeError(f"offset mismatch at {ln}:{col} {old}")
        b = b[:col] + new.encode() + b[col + len(old.encode()) :]
        lines[ln - 1] = b.decode("utf8")
    out = "\n".join(lines)
    compile(out, "m", "exec")
    return out, len(set(edits))


def main():
    out_root = sys.argv[1]
    suffix = sys.argv[2] if len(sys.argv) > 2 else "_r"
    only = sys.argv[3:]  # optional list of rel paths
    n_files = n_edits = 0
    for dp, dns, fns in os.walk(os.path.join(SRC, "xonsh")):
        dns[:] = [d for d in dns if d != "__pycache__"]
        rel = os.path.relpath(dp, SRC)
        os.makedirs(os.path.join(out_root, rel), exist_ok=True)
        for fn in fns:
            sp = os.path.join(dp, fn)
            dpth = os.path.join(out_root, rel, fn)
            r = os.path.join(rel, fn)
            if fn.endswith(".py") and not fn.endswith("parser_table.py") and (not only or r in only):
                with open(sp, encoding="utf8") as f:
                    src = f.read()
                try:
                    new, k = rename_module(src, suffix)
                except Exception as e:  # leave the file as is
                    print(f"skip {r}: {type(e).__name__}: {e}", file=sys.stderr)
                    new, k = src, 0
                with open(dpth, "w", encoding="utf8") as f:
                    f.write(new)
                n_files += k > 0
                n_edits += k
            else:
                shutil.copy(sp, dpth)
    for entry in os.listdir(SRC):
        if entry in (".git", "xonsh", "__pycache__", ".pytest_cache"):
            continue
        os.symlink(os.path.join(SRC, entry), os.path.join(out_root, entry))
    print(f"renamed {n_edits} name occurrences in {n_files} files")


if __name__ == "__main__":
    main()
