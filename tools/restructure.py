#!/venv/bin/python
"""restructure.py <out_root> <mode>  -- copy /repo/xonsh to <out_root>/xonsh with control structure rewritten.

Robustness probes for the rules (never part of a check); each mode is behaviour-preserving by construction:

  unelse   `if c: ...; return X` + `else: B`        ->  `if c: ...; return X` followed by B        (body ends in return/raise/continue/break)
  guard    trailing `if c: BODY` (no else) of a function / loop body  ->  `if not c: return|continue` followed by BODY
  toexp    `if c: x = A` / `else: x = B`            ->  `x = A if c else B`                        (same plain-name target; also return/return)
  tostmt   `x = A if c else B` / `return A if c else B`  ->  the if/else statement                  (conditional expression at the top of the value)

Files are written with ast.unparse (comments are lost; verdicts are known not to depend on them)."""
import ast
import os
import shutil
import sys

SRC = os.environ.get("XV_REPO") or "/repo"
JUMPS = (ast.Return, ast.Raise, ast.Continue, ast.Break)
NEG = {ast.Is: ast.IsNot, ast.IsNot: ast.Is, ast.Eq: ast.NotEq, ast.NotEq: ast.Eq, ast.In: ast.NotIn, ast.NotIn: ast.In}


def negate(t):
    if isinstance(t, ast.UnaryOp) and isinstance(t.op, ast.Not):
        return t.operand
    if isinstance(t, ast.Compare) and len(t.ops) == 1 and type(t.ops[0]) in NEG:
        return ast.Compare(left=t.left, ops=[NEG[type(t.ops[0])]()], comparators=t.comparators)
    return ast.UnaryOp(op=ast.Not(), operand=t)


class R:
    def __init__(self, mode):
        self.mode, self.n = mode, 0

    def blocks(self, node, in_loop, in_func):
        for fld in ("body", "orelse", "finalbody"):
            b = getattr(node, fld, None)
            if isinstance(b, list) and b and isinstance(b[0], ast.stmt):
                is_loop_body = isinstance(node, (ast.For, ast.While, ast.AsyncFor)) and fld == "body"
                is_func_body = isinstance(node, (ast.FunctionDef, ast.AsyncFunctionDef)) and fld == "body"
                kind = "loop" if is_loop_body else ("func" if is_func_body else None)
                setattr(node, fld, self.block(b, kind, in_func or is_func_body))
        for h in getattr(node, "handlers", []) or []:
            h.body = self.block(h.body, None, in_func)
        for c in getattr(node, "cases", []) or []:
            c.body = self.block(c.body, None, in_func)

    def block(self, stmts, kind, in_func):
        out = []
        for i, s in enumerate(stmts):
            last = i == len(stmts) - 1
            if isinstance(s, ast.ClassDef):
                self.blocks(s, False, False)
                out.append(s)
                continue
            if isinstance(s, (ast.FunctionDef, ast.AsyncFunctionDef)):
                self.blocks(s, False, True)
                out.append(s)
                continue
            self.blocks(s, False, in_func)
            if self.mode == "unelse" and isinstance(s, ast.If) and s.orelse and isinstance(s.body[-1], JUMPS):
                tail, s.orelse = s.orelse, []
                self.n += 1
                out.append(s)
                out += tail
                continue
            if self.mode == "guard" and isinstance(s, ast.If) and not s.orelse and last and kind in ("loop", "func") and len(s.body) >= 2 and not _is_gen_sensitive(s):
                jump = ast.Continue() if kind == "loop" else ast.Return(value=None)
                g = ast.copy_location(ast.If(test=negate(s.test), body=[ast.copy_location(jump, s)], orelse=[]), s)
                self.n += 1
                out.append(g)
                out += s.body
                continue
            if self.mode == "toexp" and isinstance(s, ast.If) and len(s.body) == 1 and len(s.orelse) == 1:
                a, b = s.body[0], s.orelse[0]
                if isinstance(a, ast.Assign) and isinstance(b, ast.Assign) and len(a.targets) == 1 and len(b.targets) == 1 and isinstance(a.targets[0], ast.Name) and isinstance(b.targets[0], ast.Name) and a.targets[0].id == b.targets[0].id and not _walrus(s.test):
                    self.n += 1
                    out.append(ast.copy_location(ast.Assign(targets=a.targets, value=ast.IfExp(test=s.test, body=a.value, orelse=b.value)), s))
                    continue
                if isinstance(a, ast.Return) and isinstance(b, ast.Return) and a.value is not None and b.value is not None:
                    self.n += 1
                    out.append(ast.copy_location(ast.Return(value=ast.IfExp(test=s.test, body=a.value, orelse=b.value)), s))
                    continue
            if self.mode == "tostmt" and in_func and isinstance(s, (ast.Assign, ast.Return)) and isinstance(s.value, ast.IfExp):
                e = s.value
                if isinstance(s, ast.Return):
                    a, b = ast.Return(value=e.body), ast.Return(value=e.orelse)
                    ok = True
                else:
                    ok = len(s.targets) == 1 and isinstance(s.targets[0], ast.Name)
                    a, b = ast.Assign(targets=s.targets, value=e.body), ast.Assign(targets=s.targets, value=e.orelse)
                if ok:
                    self.n += 1
                    out.append(ast.copy_location(ast.If(test=e.test, body=[ast.copy_location(a, s)], orelse=[ast.copy_location(b, s)]), s))
                    continue
            out.append(s)
        return out


def _walrus(e):
    return any(isinstance(x, ast.NamedExpr) for x in ast.walk(e))


def _is_gen_sensitive(s):
    return False


def transform(src, mode):
    tree = ast.parse(src)
    r = R(mode)
    tree.body = r.block(tree.body, None, False)
    return ast.unparse(ast.fix_missing_locations(tree)) + "\n", r.n


def main():
    out_root, mode = sys.argv[1], sys.argv[2]
    total = 0
    for dp, dns, fns in os.walk(os.path.join(SRC, "xonsh")):
        dns[:] = [d for d in dns if d != "__pycache__"]
        rel = os.path.relpath(dp, SRC)
        os.makedirs(os.path.join(out_root, rel), exist_ok=True)
        for fn in fns:
            sp, dpth = os.path.join(dp, fn), os.path.join(out_root, rel, fn)
            if fn.endswith(".py") and not fn.endswith("parser_table.py"):
                src = open(sp, encoding="utf8").read()
                try:
                    new, n = transform(src, mode)
                    compile(new, fn, "exec")
                    total += n
                except Exception as e:
                    print("skip", rel, fn, e, file=sys.stderr)
                    new = src
                open(dpth, "w", encoding="utf8").write(new)
            else:
                shutil.copy(sp, dpth)
    for entry in os.listdir(SRC):
        if entry in (".git", "xonsh", "__pycache__", ".pytest_cache"):
            continue
        os.symlink(os.path.join(SRC, entry), os.path.join(out_root, entry))
    print(f"{mode}: {total} rewrites")


if __name__ == "__main__":
    main()
