#!/venv/bin/python
"""Evaluate a seeded change without touching /repo.

usage: tools/eval_seed.py <dir with seed.diff, demo.py, meta.json> [--checks C13,C12] [--keep]

1. exports /repo HEAD into two scratch trees under /dev/shm (clean, patched = clean + seed.diff);
2. runs demo.py in both (expects exit 0 on clean, non-zero on patched);
3. runs the property's check (and any extra ones) on both trees and prints the violations
   that the patch adds (rule + construct key).
Scratch trees are removed afterwards.
"""
import json, os, shutil, subprocess, sys, tempfile

VERIF = os.path.dirname(os.path.dirname(os.path.abspath(__file__)))


def sh(cmd, **kw):
    return subprocess.run(cmd, capture_output=True, text=True, **kw)


def export(dst):
    os.makedirs(dst)
    p1 = subprocess.Popen(["git", "-C", "/repo", "archive", "HEAD"], stdout=subprocess.PIPE)
    subprocess.run(["tar", "-x", "-C", dst], stdin=p1.stdout, check=True)
    p1.wait()
    for f in ("xonsh/parser_table.py", "xonsh/completion_parser_table.py"):
        if os.path.exists(os.path.join("/repo", f)):
            shutil.copy(os.path.join("/repo", f), os.path.join(dst, f))


def check(prop, root, base):
    evd = tempfile.mkdtemp(prefix="ev-", dir=base)
    p = sh(["/venv/bin/python", "-B", "-m", "xv", "check", prop, "--repo", root, "--evidence-dir", evd], cwd=VERIF)
    keys = {}
    try:
        ev = json.load(open(os.path.join(evd, f"{prop}.json")))
        for v in ev["coverage"].get("violations_found", []):
            keys[(v["rule"], v.get("key"))] = v
    except Exception:
        pass
    return p.returncode, p.stdout + p.stderr, keys


def main():
    d = os.path.abspath(sys.argv[1])
    meta = json.load(open(os.path.join(d, "meta.json")))
    prop = meta.get("property") or meta.get("breaks_property") or meta.get("breaks")
    checks = [prop]
    for a in sys.argv[2:]:
        if a.startswith("--checks"):
            checks = a.split("=", 1)[1].split(",") if "=" in a else sys.argv[sys.argv.index(a) + 1].split(",")
    base = tempfile.mkdtemp(prefix="seed-eval-", dir="/dev/shm")
    clean, patched = os.path.join(base, "clean"), os.path.join(base, "patched")
    try:
        export(clean)
        export(patched)
        diff = os.path.join(d, "seed.diff") if os.path.exists(os.path.join(d, "seed.diff")) else os.path.join(d, "patch.diff")
        r = sh(["git", "apply", "--unsafe-paths", "--directory", patched, diff], cwd="/")
        if r.returncode != 0:
            r = sh(["patch", "-p1", "-d", patched, "-i", diff])
        print("apply:", "ok" if r.returncode == 0 else "FAILED " + r.stderr[-300:])
        # compile check
        c = sh(["/venv/bin/python", "-m", "compileall", "-q", os.path.join(patched, "xonsh")])
        print("compile:", "ok" if c.returncode == 0 else "FAILED")
        res = {}
        for name, root in (("clean", clean), ("patched", patched)):
            shutil.copy(os.path.join(d, "demo.py"), os.path.join(root, "demo.py"))
            env = dict(os.environ, PYTHONPATH=root, PYTHONDONTWRITEBYTECODE="1")
            try:
                p = sh(["/venv/bin/python", "demo.py"], cwd=root, env=env, timeout=600)
                res[name] = p.returncode
                print(f"demo on {name}: exit {p.returncode}  | {(p.stdout + p.stderr).strip().splitlines()[-1][:160] if (p.stdout + p.stderr).strip() else ''}")
            except subprocess.TimeoutExpired:
                res[name] = "timeout"
                print(f"demo on {name}: TIMEOUT")
        print("demo verdict:", "CONFIRMED (passes clean, fails patched)" if res.get("clean") == 0 and res.get("patched") not in (0,) else "NOT CONFIRMED")
        for pr in checks:
            rc0, out0, k0 = check(pr, clean, base)
            rc1, out1, k1 = check(pr, patched, base)
            new = {k: v for k, v in k1.items() if k not in k0}
            verdict = "CAUGHT" if new and rc1 == 1 else ("ANALYSIS-ERROR" if rc1 == 2 else "missed")
            print(f"check {pr}: clean rc={rc0} patched rc={rc1} -> {verdict}")
            for (rule, key), v in new.items():
                print(f"    + {rule} [{v.get('site')}] {v.get('what')[:200]}")
            if rc1 == 2:
                print("    " + [l for l in out1.splitlines() if "ANALYSIS-ERROR" in l][0][:300])
    finally:
        if "--keep" not in sys.argv:
            shutil.rmtree(base, ignore_errors=True)
        else:
            print("kept", base)


if __name__ == "__main__":
    main()
