#!/venv/bin/python
"""arm_swap.py <out_root>  -- copy /repo/xonsh to <out_root>/xonsh with the arms of every if/else swapped.

Robustness probe for the rules (never part of a check): `if T: A else: B` becomes `if not T: B else: A` (the
negation is simplified for single comparisons and `not X`).  elif chains are left alone.  Files are written with
ast.unparse (comments are lost; verdicts are known not to depend on them).  Behaviour-preserving by construction."""
import ast
import os
import shutil
import sys

SRC = os.environ.get("XV_REPO") or "/repo"
NEG = {ast.Is: ast.IsNot, ast.IsNot: ast.Is, ast.Eq: ast.NotEq, ast.NotEq: ast.Eq, ast.In: ast.NotIn, ast.NotIn: ast.In, ast.Lt: ast.GtE, ast.GtE: ast.Lt, ast.Gt: ast.LtE, ast.LtE: ast.Gt}


def negate(t):
    if isinstance(t, ast.UnaryOp) and isinstance(t.op, ast.Not):
        return t.operand
    if isinstance(t, ast.Compare) and len(t.ops) == 1 and type(t.ops[0]) in NEG and not isinstance(t.ops[0], (ast.Lt, ast.GtE, ast.Gt, ast.LtE)):
        return ast.Compare(left=t.left, ops=[NEG[type(t.ops[0])]()], comparators=t.comparators)
    return ast.UnaryOp(op=ast.Not(), operand=t)


class Swap(ast.NodeTransformer):
    n = 0

    def visit_If(self, node):
        self.generic_visit(node)
        if node.orelse and not (len(node.orelse) == 1 and isinstance(node.orelse[0], ast.If)):
            Swap.n += 1
            return ast.copy_location(ast.If(test=negate(node.test), body=node.orelse, orelse=node.body), node)
        return node

    def visit_IfExp(self, node):
        self.generic_visit(node)
        Swap.n += 1
        return ast.copy_location(ast.IfExp(test=negate(node.test), body=node.orelse, orelse=node.body), node)


def main():
    out_root = sys.argv[1]
    for dp, dns, fns in os.walk(os.path.join(SRC, "xonsh")):
        dns[:] = [d for d in dns if d != "__pycache__"]
        rel = os.path.relpath(dp, SRC)
        os.makedirs(os.path.join(out_root, rel), exist_ok=True)
        for fn in fns:
            sp, dpth = os.path.join(dp, fn), os.path.join(out_root, rel, fn)
            if fn.endswith(".py") and not fn.endswith("parser_table.py"):
                src = open(sp, encoding="utf8").read()
                try:
                    tree = Swap().visit(ast.parse(src))
                    new = ast.unparse(ast.fix_missing_locations(tree)) + "\n"
                    compile(new, fn, "exec")
                except Exception as e:
                    print("skip", rel, fn, e, file=sys.stderr)
                    new = src
                open(dpth, "w", encoding="utf8").write(new)
            else:
                shutil.copy(sp, dpth)
    for entry in os.listdir(SRC):
        if entry in (".git", "xonsh", "__pycache__", ".pytest_cache"):
            continue
        os.symlink(os.path.join(SRC, entry), os.path.join(out_root, entry))
    print(f"swapped {Swap.n} if/else and conditional expressions")


if __name__ == "__main__":
    main()
