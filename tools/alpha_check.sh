#!/bin/sh
# alpha_check.sh Cnn...  -- run checks against an alpha-renamed scratch tree (build with tools/alpha_rename.py <dir> [_r|OPAQUE])
# ALPHA=/dev/shm/alpha2 tools/alpha_check.sh C07
A=${ALPHA:-/dev/shm/alpha}
cd /verif
mkdir -p /dev/shm/ev-alpha
for p in "$@"; do
  /venv/bin/python -B -m xv check $p --repo $A --evidence-dir /dev/shm/ev-alpha > /dev/shm/ev-alpha/out-$p.txt 2>&1
  echo "$p rc=$?"
  grep -h "VIOLATED\|ANALYSIS-ERROR" /dev/shm/ev-alpha/out-$p.txt | cut -c1-${W:-330}
done
