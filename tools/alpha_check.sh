#!/bin/sh
# alpha_check.sh Cnn...  -- run checks against the alpha-renamed scratch tree (/dev/shm/alpha; build with tools/alpha_rename.py)
cd /verif
for p in "$@"; do
  /venv/bin/python -B -m xv check $p --repo /dev/shm/alpha --evidence-dir /dev/shm/ev-alpha > /dev/shm/ev-alpha/out-$p.txt 2>&1
  echo "$p rc=$?"
  grep -h "VIOLATED\|ANALYSIS-ERROR" /dev/shm/ev-alpha/out-$p.txt | cut -c1-${W:-330}
done
