#!/venv/bin/python
"""keep_seed.py <src dir> <seed id> <caught_by or 'missed: reason'>  -- store a confirmed seeded change"""
import json, os, shutil, subprocess, sys
src, sid, caught = sys.argv[1], sys.argv[2], sys.argv[3]
dst = os.path.join("/verif/seeded", sid)
os.makedirs(dst, exist_ok=True)
shutil.copy(os.path.join(src, "seed.diff"), os.path.join(dst, "patch.diff"))
shutil.copy(os.path.join(src, "demo.py"), os.path.join(dst, "demo.py"))
meta = json.load(open(os.path.join(src, "meta.json")))
out = subprocess.run(["/venv/bin/python", "/verif/tools/eval_seed.py", src], capture_output=True, text=True).stdout
meta_out = {
    "breaks_property": meta.get("property"),
    "summary": meta.get("summary"),
    "needs_to_manifest": meta.get("needs_to_manifest"),
    "author": "independent sub-agent (saw only the property text and a scratch worktree)",
    "author_tests_run": meta.get("tests_run"),
    "confirmed": {
        "how": "tools/eval_seed.py: /repo HEAD exported twice under /dev/shm, patch applied to one copy, demo.py run in both, property check run on both",
        "base_commit": subprocess.run(["git", "-C", "/repo", "rev-parse", "--short", "HEAD"], capture_output=True, text=True).stdout.strip(),
        "result": [l for l in out.splitlines() if l.startswith(("apply", "compile", "demo", "check", "    +"))],
    },
    "caught_by": caught,
}
json.dump(meta_out, open(os.path.join(dst, "meta.json"), "w"), indent=1)
print("\n".join(meta_out["confirmed"]["result"]))
