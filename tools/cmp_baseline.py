#!/usr/bin/env python3
"""Compare a junit xml with BASELINE.json stable_pass: prints stable tests that did not pass."""
import json, sys
import xml.etree.ElementTree as ET
base = json.load(open("/root/.vp/BASELINE.json"))
stable = set(base["stable_pass"])
root = ET.parse(sys.argv[1]).getroot()
status = {}
for tc in root.iter("testcase"):
    tid = f"{tc.get('classname')}::{tc.get('name')}"
    st = "pass"
    for ch in tc:
        if ch.tag in ("failure", "error"):
            st = "fail"
        elif ch.tag == "skipped":
            st = "skip"
    if status.get(tid) != "fail":
        status[tid] = st
bad = sorted(t for t in stable if status.get(t) != "pass")
print(f"stable={len(stable)} seen={len(status)} stable_not_passing={len(bad)}")
for t in bad[:40]:
    print("  ", t, status.get(t))
sys.exit(1 if bad else 0)
