#!/venv/bin/python
"""Regenerate MANIFEST.json from the rule modules' META blocks (run in /verif)."""
import importlib
import json
import os
import sys

HERE = os.path.dirname(os.path.dirname(os.path.abspath(__file__)))
sys.path.insert(0, HERE)

NOT_APPLICABLE = {}  # property -> reason (filled when a property is declined for good)

checks = []
na = []
props = [json.loads(l) for l in open(os.path.join(HERE, "properties.jsonl"))]
for p in props:
    pid = p["id"]
    try:
        mod = importlib.import_module(f"xv.rules.{pid.lower()}")
        meta = getattr(mod, "META")
    except (ModuleNotFoundError, AttributeError):
        na.append(
            {
                "property_id": pid,
                "reason": NOT_APPLICABLE.get(pid, "static rules for this property are not built yet (see DESIGN.md section 3)"),
            }
        )
        continue
    checks.append(
        {
            "property_id": pid,
            "quick_cmd": f"./check {pid} quick",
            "thorough_cmd": f"./check {pid} thorough",
            "evidence_file": f"/verif/evidence/{pid}.json",
            "replay_cmd_template": "cat {path}",
            "engine": "xv",
            "level_claimed": {
                "category": "other",
                "text": meta["text"] + ((" " + meta["more"]) if meta.get("more") else ""),
                "design_ref": f"DESIGN.md section 3, {pid}",
            },
            "level_note": meta["note"],
            "technique": meta["technique"],
        }
    )

manifest = {
    "version": 1,
    "setup_cmd": "/venv/bin/python -B -c \"import sys; sys.path.insert(0, '/verif'); import xv.engine.cfg, xv.engine.loader, xv.engine.report\"",
    "hooks": {
        "guard": "XONSH_XONSH_VERIF",
        "enable": "none: static analysis reads /repo's working tree; no instrumentation of xonsh is needed",
        "baseline_off_cmd": "cd /repo && /venv/bin/python -m pytest -ra -q -p no:cacheprovider --timeout=900 --continue-on-collection-errors",
        "source_commits": [],
        "add_only": True,
    },
    "engines": [
        {
            "name": "xv",
            "path": "/verif/xv",
            "serves_properties": [c["property_id"] for c in checks],
            "kind_free_text": "repository-specific static analysis: ast + statement CFG (dominance, must-pass-through, exception edges) + def-use + PLY grammar/table extraction; pure stdlib on /venv/bin/python",
        }
    ],
    "checks": checks,
    "not_applicable": na,
    "notes": "All checks are static (source of /repo's working tree only). exit 0 held / 1 VIOLATION / 2 ANALYSIS-ERROR (fail closed). Known findings: /verif/known_findings.json.",
}
with open(os.path.join(HERE, "MANIFEST.json"), "w") as f:
    json.dump(manifest, f, indent=1)
print(f"checks={len(checks)} not_applicable={len(na)}")
