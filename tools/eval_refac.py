#!/venv/bin/python
"""eval_refac.py <dir with refac-*.diff> [props...]  -- run the checks on behaviour-preserving refactorings.

Every diff is applied to a symlink-farm copy of /repo (never to /repo itself); all (or the named) property checks run on
it; anything that differs from the verdict on the unchanged tree (new (rule,key) violation, or exit 2) is a false alarm
of the machinery and is printed."""
import concurrent.futures as cf
import glob
import os
import shutil
import sys
import tempfile

sys.path.insert(0, os.path.dirname(os.path.dirname(os.path.abspath(__file__))))
from xv.selftest import run as st  # noqa: E402

ALL = [f"C{i:02d}" for i in range(1, 21)]


def main():
    d = sys.argv[1]
    props = [p.upper() for p in sys.argv[2:]] or ALL
    diffs = sorted(glob.glob(os.path.join(d, "refac-*.diff")))
    base = tempfile.mkdtemp(prefix="xv-refac-", dir="/dev/shm")
    bad = 0
    try:
        with cf.ThreadPoolExecutor(16) as ex:
            basev = dict(zip(props, ex.map(lambda p: st._check(p, st.REPO, base), props)))
            for df_ in diffs:
                edits = st.apply_patch({"patch": df_})
                if edits is None:
                    print(f"{os.path.basename(df_)}: does not apply / compile")
                    bad += 1
                    continue
                root = st.make_scratch(base, edits)
                try:
                    res = dict(zip(props, ex.map(lambda p: st._check(p, root, base), props)))
                finally:
                    shutil.rmtree(root, ignore_errors=True)
                probs = []
                for p in props:
                    rc, out, keys = res[p]
                    brc, _, bkeys = basev[p]
                    new = keys - bkeys
                    gone = bkeys - keys
                    if rc == 2 or new:
                        probs.append((p, rc, sorted(new, key=str), [l for l in out.splitlines() if "ANALYSIS-ERROR" in l or l.lstrip().startswith("VIOLATED")][:6]))
                    elif gone:
                        probs.append((p, rc, [("vanished", k) for k in sorted(gone, key=str)], []))
                print(f"{os.path.basename(df_)} files={sorted(edits)}: " + ("silent" if not probs else "ALARM"))
                for p, rc, new, lines in probs:
                    bad += 1
                    print(f"   {p} rc={rc} new={new}")
                    for l in lines:
                        print("      " + l.strip()[:400])
    finally:
        shutil.rmtree(base, ignore_errors=True)
    sys.exit(1 if bad else 0)


main()
