"""C04 — arguments reach the command exactly as written, no hidden re-splitting.

Decided over the *effective grammar* and the run-time helper family: every production
of ``subproc_atom`` has an action that assigns the delivery mode on every path, and the
(helper, mode) pair of each source form is the documented one; the argument assembler
applies exactly one wrapper per mode; the helper applied to values that contain an
``@()``/``$()`` part has no glob/expand/split effect on them (today it has: known
finding); ``@$()`` splits with the shell lexer only; the argv hand-off in
``SubprocSpec`` only copies.  Not decided: that tokenizer regexes and
``ast.literal_eval`` give each literal its Python value for every Unicode string.
"""

from __future__ import annotations

import ast

from .common import *
from ..engine import dtable, grammar
from ..engine.loader import class_methods

BP = "xonsh/parsers/base.py"
BI = "xonsh/built_ins.py"
SP = "xonsh/procs/specs.py"
AL = "xonsh/aliases.py"
PX = "xonsh/procs/proxies.py"

SPLIT = {"split", "rsplit", "shlex.split", "re.split"}
GLOB = {"glob", "globpath", "iglobpath", "reglob", "globsearch", "regexsearch", "pathsearch", "glob.glob", "glob.iglob"}
EXPAND = {"expand_path", "expandvars", "expanduser", "_expandpath", "os.path.expanduser", "os.path.expandvars"}

# action -> list of (path condition substring or None, helper set, delivery mode)
EXPECTED = {
    "p_subproc_atom_uncaptured": [(None, {"subproc_uncaptured"}, "splitlines")],
    "p_subproc_atom_captured_stdout": [(None, {"subproc_captured_stdout"}, "append")],
    "p_subproc_atom_pyenv_lookup": [(None, set(), "append")],
    "p_subproc_atom_pyeval_macro": [(None, set(), "append")],
    "p_subproc_atom_pyeval": [(None, {"list_of_strs_or_callables"}, "extend")],
    "p_subproc_atom_subproc_inject": [(None, {"subproc_captured_inject"}, "extend")],
    "p_subproc_atom_redirect": [(None, set(), "append")],
    "p_subproc_atom_re": [(None, set(), "extend")],
    "p_subproc_atom_str": [("+p[1].is_raw", set(), "append"), ("-p[1].is_raw", {"expand_path"}, "append")],
    "p_subproc_atom_arg": [("+isinstance(p[1], list)", {"list_of_list_of_strs_outer_product"}, "extend"), ("+hasglobstar(p[1])", {"glob"}, "extend"), ("-hasglobstar(p[1])", {"expand_path"}, "append")],
}
ASSEMBLER = {"append": "list-element", "extend": "concat", "splitlines": "call_split_lines", "ensure_list": "ensure_list_from_str_or_list"}
CMD_WRITERS = {"__init__", "resolve_decorators", "resolve_args_list", "resolve_redirects", "resolve_alias", "resolve_auto_cd", "resolve_executable_commands", "_fix_null_cmd_bytes"}


def _helpers_in(expr):
    out = set()
    for n in ast.walk(expr):
        if isinstance(n, ast.Call) and call_name(n) == "xonsh_call" and n.args and isinstance(const_value(n.args[0]), str):
            out.add(const_value(n.args[0]).replace("__xonsh__.", ""))
    return out


def effect_summary(mod, name, depth=4, _seen=None):
    """may-split / may-glob / may-expand effects of a module-level helper, following
    module-level callees (and XSH.<name> bound helpers) to the given depth."""
    _seen = _seen or set()
    if name in _seen or depth < 0 or not mod.has(name):
        return set()
    _seen.add(name)
    fn = mod.func(name)
    eff = set()
    for c in calls_in(fn, local=False):
        nm = call_name(c) or ""
        base = nm.split(".")[-1]
        if nm in SPLIT or (base in ("split", "rsplit") and not nm.endswith("lexer.split")):
            eff.add(f"split:{nm}")
        if base in GLOB or nm in GLOB:
            eff.add(f"glob:{nm}")
        if base in EXPAND or nm in EXPAND:
            eff.add(f"expand:{nm}")
        if mod.has(base) and base != name and "." not in nm:
            eff |= effect_summary(mod, base, depth - 1, _seen)
    return eff


def check(ctx):
    ctx.not_decided += [
        "that the tokenizer regexes and ast.literal_eval give each string literal its Python value for every Unicode text",
        "surrogate handling in os.fsdecode; NUL bytes",
        "which of two conflicting productions the LALR table selects for `@(x)` alone (checked as delivered: list_of_strs_or_callables)",
    ]
    ctx.rule("R1", "every production of subproc_atom has an action that assigns the delivery mode on every path, and each source form has the documented (helper, mode) pair; the assembler applies exactly one wrapper per mode", floor=25)
    ctx.rule("R7", "values are delivered as computed: the @() helper yields one argument per element (a scalar becomes a one-element list, an iterable is mapped element by element with nothing filtered, merged or reordered); the literal chunks of an f-string argument get their value from the host parser", floor=4)
    ctx.rule("R8", "sibling string-literal actions agree on rawness: every grammar action that reads `'r' in prefix` of a string token hands that flag on to the node it builds (`is_raw`), which is what keeps `$VAR`/`~` in raw strings unexpanded", floor=3)
    ctx.rule("R2", "values containing an @()/$() part are not globbed, expanded or split again on their way to the argument list", floor=2)
    ctx.rule("R3", "@$() output is split with the shell lexer only", floor=2)
    ctx.rule("R6", "the `$VAR` expansion of non-raw literals is one positional pass over the references of the original text", floor=2)
    ctx.rule("R5", "alias resolution only copies the user's arguments: no call other than a copy, the alias invocation or the recursion receives them; every list result carries them, behind the alias's own words", floor=10)
    ctx.rule("R9", "the argument list of every launch is built from fresh lists: nothing on the launch path edits in place (+=, append, extend, insert, item store ...) an object that outlives the call - the result of a memoised function or a module-level list - so one command's arguments cannot show up in the next command's argv", floor=1)
    ctx.rule("R10", "decorator words are consumed from the front of the command only: what resolve_decorators stores back into self.cmd is a suffix of the old list (`self.cmd[k:]`), and where k is a loop counter the loop leaves at the first word that is not a decorator - a pass that filters decorator names out of the whole list makes an *argument* that happens to equal a decorator-alias name (`echo a @json b`, `grep '@thread' f`) vanish from argv and changes how the command runs", floor=1)
    ctx.rule("R4", "the argv hand-off in SubprocSpec only copies: the command list is written by the known resolvers and none of them (nor the stage constructors) splits, globs or expands an element", floor=8)

    g = grammar.load(ctx.repo, lalr=False)
    bp = ctx.repo.module(BP)
    prods = grammar.productions_of(g, "subproc_atom")
    if len(prods) < 20:
        raise AnalysisError(f"only {len(prods)} subproc_atom productions in the effective grammar")
    ctx.extra["grammar"] = {"selected": g["selected"], "productions": len(g["productions"]), "subproc_atom_productions": len(prods)}
    actions = sorted({p["func"] for p in prods})
    sets_mode = {}

    def mode_assigned_everywhere(fname, depth=0):
        """Does every normal path of the action assign <x>._cliarg_action (directly or by
        delegating to another action / helper method of the class)?"""
        if fname in sets_mode:
            return sets_mode[fname]
        sets_mode[fname] = False  # recursion guard
        try:
            mod, fn, templ = grammar.action_ast(ctx.repo, g, fname) if fname.startswith("p_") else (bp, bp.func(f"BaseParser.{fname}"), False)
        except AnchorMissing:
            return False
        cfg = CFG(fn)

        def assigns(m):
            if m.kind != "stmt":
                return False
            a = m.ast
            if isinstance(a, ast.Assign) and any(isinstance(t, ast.Attribute) and t.attr == "_cliarg_action" for t in a.targets):
                return True
            for c in calls_in(a):
                nm = call_name(c) or ""
                if nm.startswith("self.") and nm.count(".") == 1 and depth < 3:
                    callee = nm[5:]
                    if callee.startswith("p_subproc") or callee.startswith("_subproc"):
                        if mode_assigned_everywhere(callee, depth + 1):
                            return True
            return False

        ok, _ = cfg.must_pass(cfg.entry, assigns, exits=("exit",))
        sets_mode[fname] = ok
        return ok

    for a in actions:
        n_p = sum(1 for p in prods if p["func"] == a)
        ok = mode_assigned_everywhere(a)
        ctx.ob("R1", f"{BP}:{a}", f"the action of {n_p} subproc_atom production(s) assigns _cliarg_action on every path (the assembler reads it unconditionally)", ok, key=f"{a}|mode-not-assigned")
    # (helper, mode) pairs
    for a, rows in EXPECTED.items():
        if a not in g["pfuncs"]:
            ctx.ob("R1", f"{BP}:{a}", "source form is part of the effective grammar", False, key=f"{a}|missing-action")
            continue
        mod, fn, _ = grammar.action_ast(ctx.repo, g, a)
        ps = [p for p in dtable.paths(fn, stores=True) if p.outcome in ("fall", "return")]
        seen_rows = set()
        for p in ps:
            conds = p.cond_texts()
            # what ends up in p[0]:  the last assignment to p[0] refers to a name; collect helpers and the mode
            helpers = set()
            mode = None
            # walk the function body statements on this path is not available; use env: p0 expression
            p0 = None
            for e_ in p.effects:
                if isinstance(e_, ast.Assign) and unparse(e_.targets[0]) == "p[0]":
                    p0 = e_.value  # the last store into p[0] on this path (locals substituted)
            if p0 is not None:
                helpers = _helpers_in(p0)
            # mode: constants assigned to *._cliarg_action that are consistent with the path: take from the
            # statements lexically guarded by the path's conditions
            mode = None
            for e_ in p.effects:
                if isinstance(e_, ast.Assign) and isinstance(e_.targets[0], ast.Attribute) and e_.targets[0].attr == "_cliarg_action" and isinstance(const_value(e_.value), str):
                    mode = const_value(e_.value)  # the last store on the path decides
            if mode is None:
                mode = _mode_on_path(fn, p)
            row = None
            for i, (cond, hs, md) in enumerate(rows):
                if cond is None or (cond[0] == "+" and cond[1:] in conds) or (cond[0] == "-" and cond[1:] not in conds):
                    row = (i, hs, md)
                    break
            if row is None:
                ctx.ob("R1", f"{BP}:{a}", f"path [{'; '.join(conds)}] is one of the documented cases", False, key=f"{a}|undocumented-path|{'; '.join(conds)[:60]}", where=loc(fn))
                continue
            seen_rows.add(row[0])
            ctx.ob("R1", f"{BP}:{a}", f"case [{'; '.join(conds) or 'always'}]: wrapped by {sorted(row[1]) or 'no helper'} and delivered with `{row[2]}`", helpers == row[1] and mode == row[2], key=f"{a}|pair|{rows[row[0]][0]}", where=loc(fn), detail=f"found helpers={sorted(helpers)} mode={mode}")
        ctx.ob("R1", f"{BP}:{a}", "every documented case of the action exists", seen_rows == set(range(len(rows))), key=f"{a}|case-missing", detail=f"seen {sorted(seen_rows)} of {len(rows)}")
    # assembler: decided by path enumeration over the per-argument loop body of the helper-transparent view
    # (an if/elif chain, early returns in a helper, != with swapped arms ... all give the same paths)
    sc = flat(ctx, bp.func("BaseParser._subproc_cliargs"), depth=2, skip=("binop", "call_split_lines", "ensure_list_from_str_or_list", "empty_list"))
    aloops = [l for l in walk_local(sc) if isinstance(l, ast.For) and any(isinstance(x, ast.Attribute) and x.attr == "_cliarg_action" for x in ast.walk(l))]
    if len(aloops) != 1:
        raise AnalysisError(f"{BP}:_subproc_cliargs: per-argument loop not found ({len(aloops)})")
    found = {}
    unknown_raises = False
    for pth in dtable.simplified(dtable.paths(aloops[0].body, stores=True, loops="skip")):
        modes_pos = []
        modes_neg = set()
        for e, pol in pth.conds:
            for e2, p2 in dtable.branches(e, pol)[0] if len(dtable.branches(e, pol)) == 1 else [dtable.normalise(e, pol)]:
                if isinstance(e2, ast.Compare) and isinstance(e2.ops[0], ast.Eq) and isinstance(const_value(e2.comparators[0]), str) and "_cliarg_action" in unparse(e2.left):
                    (modes_pos.append if p2 else modes_neg.add)(const_value(e2.comparators[0]))
        text = " ".join(unparse(e) for e in pth.effects) + " " + " ".join(unparse(v) for k_, v in pth.env.items() if isinstance(v, ast.AST) and not k_.startswith("<"))
        if pth.outcome == "raise":
            if not modes_pos:
                unknown_raises = True
            continue
        if len(modes_pos) != 1:
            continue
        kind = "call_split_lines" if "call_split_lines(" in text else "ensure_list_from_str_or_list" if "ensure_list_from_str_or_list(" in text else "list-element" if ".elts.append(" in text else "concat" if "binop(" in text else "?"
        found.setdefault(modes_pos[0], set()).add(kind)
    for mode, want in ASSEMBLER.items():
        ctx.ob("R1", f"{BP}:BaseParser._subproc_cliargs", f"mode `{mode}` is assembled as {want}", found.get(mode) == {want}, key=f"assembler|{mode}", detail=f"found {sorted(found.get(mode, []))}")
    ok = unknown_raises and set(found) == set(ASSEMBLER)
    ctx.ob("R1", f"{BP}:BaseParser._subproc_cliargs", "an unknown mode is an error, and no further mode exists", ok, key="assembler|modes", detail=str(sorted(found)))
    # macro tail: one constant built from the source slice
    ab = bp.func("BaseParser._append_subproc_bang")
    adefs = df.all_defs(ab)
    src_names = names_defined_by(ab, lambda v: "self._source_slice" in unparse(v), adefs)
    consts = [c for c in calls_in(ab) if call_name(c) == "ast.const_str"]
    # the constant's text is the slice: named first (`s = self._source_slice(..)`, the one definition of that name) or written in place
    ok = len(consts) == 1 and any((unparse(k.value) in src_names and len(adefs[unparse(k.value)]) == 1) or (not isinstance(k.value, ast.Name) and "self._source_slice" in unparse(k.value)) for k in consts[0].keywords if k.arg == "s")
    ctx.ob("R1", f"{BP}:BaseParser._append_subproc_bang", "text after a macro `!` becomes one constant taken from the source slice", ok, key="macro-tail")

    # ------------------------------------------------------------------ R8
    n8 = 0
    for rel8 in ("xonsh/parsers/base.py", "xonsh/parsers/v313.py", "xonsh/parsers/fstring_rules_llm.py"):
        try:
            m8 = ctx.repo.module(rel8)
        except Exception:
            continue
        for q8, f8 in m8.functions():
            if not q8.split(".")[-1].startswith("p_"):
                continue
            reads = [c for c in ast.walk(f8) if isinstance(c, ast.Compare) and len(c.ops) == 1 and isinstance(c.ops[0], ast.In) and const_value(c.left, None) == "r"]  # (in a grammar action: the raw-prefix test, whatever the local is called)
            if not reads:
                continue
            n8 += 1
            d8 = df.all_defs(f8)
            rnames = {n_ for n_, ds_ in d8.items() if any(d_.value is not None and any(c is x for c in reads for x in ast.walk(d_.value)) for d_ in ds_)}
            handed = False
            for n in ast.walk(f8):
                # `<node>.is_raw = <flag>` / `is_raw=<flag>` / `<node>.is_raw = True` under `if 'r' in prefix`
                val = None
                if isinstance(n, ast.Assign) and any(isinstance(t, ast.Attribute) and t.attr == "is_raw" for t in n.targets):
                    val = n.value
                elif isinstance(n, ast.keyword) and n.arg == "is_raw":
                    val = n.value
                if val is None:
                    continue
                if (isinstance(val, ast.Name) and val.id in rnames) or any(val is c or any(c is x for x in ast.walk(val)) for c in reads):
                    handed = True
                elif const_value(val, None) is True and any(isinstance(a_, ast.If) and (any(c is x for c in reads for x in ast.walk(a_.test)) or any(isinstance(x, ast.Name) and x.id in rnames for x in ast.walk(a_.test))) and any(n is b_ or lexically_inside(n, b_) for b_ in a_.body) for a_ in ancestors(n)):
                    handed = True
            ctx.ob("R8", f"{rel8}:{q8}", "the raw flag read from the prefix is handed on to the node (`is_raw`)", handed, key=f"{q8.split('.')[-1]}|raw-flag-not-handed-on", where=loc(reads[0]), detail=None if handed else "the flag is computed but the node never gets it: p_subproc_atom_str then wraps the literal in expand_path() like a non-raw string")
    if n8 < 3:
        raise AnalysisError(f"only {n8} string-literal actions that read the raw prefix found")
    # (an f-string argument: the chunks' values are the host parser's - shared with C01.R12)
    from .c01 import fstring_chunk_values as _fcv

    _fcv(ctx, "R7")
    # ------------------------------------------------------------------ R7
    from ..engine import dtable as _dt

    bi = ctx.repo.module(BI)
    lo = bi.func("list_of_strs_or_callables")
    xpar = param_name(lo, 0, skip_self=False)
    n7 = 0
    for p_ in _dt.paths(lo, loops="skip"):
        if p_.outcome != "return" or not _dt.feasible(p_):
            continue
        n7 += 1
        v = p_.value
        why = None

        def from_x(e):
            return any(isinstance(n_, ast.Name) and n_.id == xpar for n_ in ast.walk(e))

        if isinstance(v, ast.List) and len(v.elts) == 1 and not isinstance(v.elts[0], ast.Starred) and from_x(v.elts[0]):
            shape = "one-element list of the value"
        elif isinstance(v, ast.Call) and call_name(v) == "list" and len(v.args) == 1 and isinstance(v.args[0], ast.Call) and call_name(v.args[0]) == "map" and len(v.args[0].args) == 2 and isinstance(v.args[0].args[1], ast.Name) and v.args[0].args[1].id == xpar:
            shape = "element-wise map over the value"
        elif isinstance(v, ast.ListComp) and len(v.generators) == 1 and not v.generators[0].ifs and isinstance(v.generators[0].iter, ast.Name) and v.generators[0].iter.id == xpar and isinstance(v.generators[0].target, ast.Name) and any(isinstance(n_, ast.Name) and n_.id == v.generators[0].target.id for n_ in ast.walk(v.elt)):
            shape = "element-wise comprehension over the value"
        else:
            shape, why = None, f"`{short(v, 70)}` is neither `[f(x)]` nor an unfiltered element-wise map of `{xpar}`"
        ctx.ob("R7", f"{BI}:list_of_strs_or_callables", f"under [{'; '.join(p_.cond_texts())[:90]}] the result is a {shape or 'list with one entry per element'}", why is None, key=f"inject-helper|not-elementwise|{short(v, 40)}", where=loc(p_.node) if p_.node is not None else loc(lo), detail=why)
    if n7 < 3:
        raise AnalysisError(f"{BI}:list_of_strs_or_callables: only {n7} return paths enumerated")
    es = bi.func("ensure_str_or_callable")
    for p_ in _dt.paths(es, loops="skip"):
        if p_.outcome != "return" or not _dt.feasible(p_):
            continue
        xp_ = param_name(es, 0, skip_self=False)
        v = p_.value
        ok = (isinstance(v, ast.Name) and v.id == xp_) or (isinstance(v, ast.Call) and len(v.args) >= 1 and isinstance(v.args[0], ast.Name) and v.args[0].id == xp_ and not v.keywords[1:]) or (isinstance(v, ast.Call) and isinstance(v.func, ast.Attribute) and isinstance(v.func.value, ast.Name) and v.func.value.id == xp_)
        ctx.ob("R7", f"{BI}:ensure_str_or_callable", f"`{short(v, 50)}`: an element is delivered as itself or as one conversion of itself", ok, key=f"inject-elem|{short(v, 30)}", where=loc(p_.node) if p_.node is not None else loc(es))

    # ------------------------------------------------------------------ R2
    bi = ctx.repo.module(BI)
    inj = effect_summary(bi, "list_of_strs_or_callables")
    ctx.ob("R2", f"{BI}:list_of_strs_or_callables", "the @() helper neither splits, globs nor expands the injected strings", not inj, key="inject-helper|effects", detail=str(sorted(inj)))
    outer = effect_summary(bi, "list_of_list_of_strs_outer_product")
    ctx.ob(
        "R2",
        f"{BP}:p_subproc_atom_arg -> {BI}:list_of_list_of_strs_outer_product",
        "the helper applied to glued arguments that contain an @()/$() part does not glob/expand the injected value",
        not outer,
        key="glued-inject|reinterpreted",
        detail=f"effects on the joined string: {sorted(outer)}",
    )

    # ------------------------------------------------------------------ R3
    si = bi.func("subproc_captured_inject")
    calls = {call_name(c) or "" for c in calls_in(si)}
    lex = any(n.endswith("lexer.split") for n in calls)
    bad = sorted(n for n in calls if (n.split(".")[-1] in ("split", "rsplit") and not n.endswith("lexer.split")) or n == "shlex.split")
    ctx.ob("R3", f"{BI}:subproc_captured_inject", "the captured text is split into words by the shell lexer", lex, key="inject|no-lexer-split")
    ctx.ob("R3", f"{BI}:subproc_captured_inject", "no other word splitter (str.split / shlex.split) is applied", not bad, key="inject|other-splitter", detail=str(bad))
    # ... and the lexer's own split() is the token stream on every path: the tokenizer's notion of a blank (space, tab, form
    # feed) is narrower than str.split()'s (NBSP, U+3000, 0x1c-0x1f ...), so a shortcut that splits the text itself delivers
    # other words for exactly the inputs it was meant to speed up
    lx = ctx.repo.module("xonsh/parsers/lexer.py")
    lsp = flat(ctx, lx.func("Lexer.split"), 2, skip=("input",))
    sparam = param_name(lsp, 0)
    lcfg = CFG(lsp)
    feeds = [n for n in lcfg.nodes if n.kind == "stmt" and any(isinstance(c.func, ast.Attribute) and c.func.attr == "input" and unparse(c.func.value) == "self" and c.args and unparse(c.args[0]) == sparam for c in calls_in(n.ast))]
    rets = [n for n in lcfg.nodes if n.kind == "stmt" and isinstance(n.ast, ast.Return)]
    if not feeds or not rets:
        raise AnalysisError("xonsh/parsers/lexer.py:Lexer.split: the tokenizer feed / the returns were not found")
    for r_ in rets:
        ok = lcfg.dominated(r_, lambda m: m in feeds)
        ctx.ob("R3", "xonsh/parsers/lexer.py:Lexer.split", f"`{short(r_.ast, 40)}` is reached only after the text was handed to the tokenizer (no answer computed from the text itself)", ok, key="Lexer.split|answer-without-token-stream", where=loc(r_.ast))
    own = [c for c in calls_in(lsp) if isinstance(c.func, ast.Attribute) and c.func.attr in ("split", "rsplit", "splitlines", "partition") and sparam in df.names_read(c.func.value)] + [c for c in calls_in(lsp) if (call_name(c) or "") in ("shlex.split", "re.split") and any(sparam in df.names_read(a) for a in c.args)]
    ctx.ob("R3", "xonsh/parsers/lexer.py:Lexer.split", "the text is never split by a string method / shlex / re (words are made of tokens only)", not own, key="Lexer.split|text-split-directly", where=loc(own[0]) if own else loc(lsp), detail=short(own[0], 60) if own else None)

    # ------------------------------------------------------------------ R4
    sp = ctx.repo.module(SP)
    cls = sp.cls("SubprocSpec")
    ms = class_methods(cls)
    n_w = 0
    for name, fn in ms.items():
        for n in walk_local(fn):
            if isinstance(n, (ast.Assign, ast.AugAssign)):
                tg = n.targets if isinstance(n, ast.Assign) else [n.target]
                for t in tg:
                    base = t.value if isinstance(t, ast.Subscript) else t
                    if unparse(base) in ("self.cmd", "self.args"):
                        n_w += 1
                        ctx.ob("R4", f"{SP}:SubprocSpec.{name}", f"`{short(n, 60)}`: the command list is written by a known resolver", name in CMD_WRITERS or only_called_from(ctx.repo, sp, f"SubprocSpec.{name}", {f"SubprocSpec.{w_}" for w_ in CMD_WRITERS}), key=f"{name}|unknown-cmd-writer", where=loc(n))
            if isinstance(n, ast.Call) and isinstance(n.func, ast.Attribute) and unparse(n.func.value) in ("self.cmd", "self.args") and n.func.attr in ("insert", "append", "extend", "pop", "remove"):
                n_w += 1
                ctx.ob("R4", f"{SP}:SubprocSpec.{name}", f"`{short(n, 60)}`: the command list is written by a known resolver", name in CMD_WRITERS or only_called_from(ctx.repo, sp, f"SubprocSpec.{name}", {f"SubprocSpec.{w_}" for w_ in CMD_WRITERS}), key=f"{name}|unknown-cmd-writer", where=loc(n))
    if n_w < 6:
        raise AnalysisError(f"only {n_w} writers of SubprocSpec.cmd found")
    scan = [(SP, f"SubprocSpec.{n}", fn) for n, fn in ms.items() if n in CMD_WRITERS | {"run", "_run_binary", "build", "prep_env_subproc"}]
    px = ctx.repo.module(PX)
    scan += [(PX, "ProcProxyThread.__init__", px.func("ProcProxyThread.__init__")), (PX, "ProcProxy.__init__", px.func("ProcProxy.__init__"))]
    for rel, q, fn in scan:
        bad = []
        for c in calls_in(fn):
            nm = call_name(c) or ""
            base = nm.split(".")[-1]
            touches_cmd = any("cmd" in unparse(a) or "args" in unparse(a) for a in c.args) or (isinstance(c.func, ast.Attribute) and ("cmd" in unparse(c.func.value) or unparse(c.func.value) in ("c", "arg")))
            if not touches_cmd:
                continue
            if nm in SPLIT or base in ("split", "rsplit") or base in GLOB or base in EXPAND:
                bad.append(short(c, 60))
        ctx.ob("R4", f"{rel}:{q}", "no element of the command is split, globbed or expanded during the hand-off", not bad, key=f"{q}|reinterprets-argv", where=loc(fn), detail=str(bad) if bad else None)
    run = ms["run"]
    cls_calls = [c for c in calls_in(run) if call_name(c) == "self.cls"]
    ok = len(cls_calls) == 1 and len(cls_calls[0].args) >= 2 and unparse(cls_calls[0].args[1]) == "self.cmd"
    ctx.ob("R4", f"{SP}:SubprocSpec.run", "a callable alias receives self.cmd itself (the same list a binary would get)", ok, key="run|alias-argv")
    rb = ms["_run_binary"]
    argv_names = names_bound_to_text(rb, "self.cmd") | {"self.cmd"}
    ok = any(call_name(c) == "self.cls" and c.args and unparse(c.args[0]) in argv_names for c in calls_in(rb))
    ctx.ob("R4", f"{SP}:SubprocSpec._run_binary", "a binary is started with self.cmd as argv", ok, key="_run_binary|argv")
    ra = ms["resolve_args_list"]
    # flattening only: every element is appended as is (lists are concatenated), no transformation of strings
    def shape_only(nm_):
        """a module helper that only looks at shapes (isinstance/len), e.g. an extracted predicate"""
        if not (nm_ and sp.has(nm_) and isinstance(sp.quals[nm_], FuncTypes)):
            return False
        return all(call_name(c_) in ("isinstance", "len") for c_ in calls_in(sp.quals[nm_]))

    ok = all(
        call_name(c) in ("isinstance", "len")
        or shape_only(call_name(c))
        or (isinstance(c.func, ast.Attribute) and c.func.attr in ("append", "extend") and isinstance(c.func.value, ast.Name))
        for c in calls_in(ra)
    )
    ctx.ob("R4", f"{SP}:SubprocSpec.resolve_args_list", "weaving the argument lists only flattens (isinstance/len/append/extend and shape predicates)", ok, key="resolve_args_list|shape")

    # ------------------------------------------------------------------ R5
    # the user's arguments cross alias resolution by copying only.  Tracked: `args = key[1:]` in
    # Aliases.get, parameter `acc_args` in Aliases.eval_alias.  A tracked value may be copied
    # (list(), +, [*a, *b], slices, .extend/.append onto a local list), handed to the alias being
    # invoked, or passed on as the acc_args of the recursion; any other call that receives it
    # (map(expand_path, ..), a comprehension calling a function on its elements ...) re-interprets
    # what the user wrote.
    al = ctx.repo.module(AL)
    for q, seeds_ in (("Aliases.get", None), ("Aliases.eval_alias", {"acc_args"})):
        fn = flat(ctx, al.func(q), depth=2, skip=("eval_alias", "_normalize_return_command_result", "print_exception", "get", "swap"))
        site = f"{AL}:{q}"
        tracked = set(seeds_ or ())
        if seeds_ is None:
            keyp = param_name(fn, 0)
            tracked |= names_defined_by(fn, lambda v: isinstance(v, ast.Subscript) and isinstance(v.slice, ast.Slice) and unparse(v.value) == keyp and const_value(v.slice.lower) == 1 and v.slice.upper is None)
            if not tracked:
                raise AnchorMissing(f"{site}: `args = key[1:]` not found")
        elif not any(a_.arg in tracked for a_ in fn.args.args):
            raise AnchorMissing(f"{site}: parameter acc_args not found")

        def mentions(e, names):
            return any(isinstance(x, ast.Name) and x.id in names and isinstance(x.ctx, ast.Load) for x in ast.walk(e))

        def copy_shape(e, names):
            """e is built from tracked names by copying only"""
            if isinstance(e, ast.Name):
                return True
            if isinstance(e, ast.Constant):
                return True
            if isinstance(e, ast.Call) and call_name(e) in ("list", "tuple") and len(e.args) <= 1 and not e.keywords:
                return all(copy_shape(x, names) for x in e.args)
            if isinstance(e, ast.BinOp) and isinstance(e.op, ast.Add):
                return copy_shape(e.left, names) and copy_shape(e.right, names)
            if isinstance(e, (ast.List, ast.Tuple)):
                return all(copy_shape(x.value if isinstance(x, ast.Starred) else x, names) for x in e.elts)
            if isinstance(e, ast.Subscript) and isinstance(e.slice, ast.Slice):
                return copy_shape(e.value, names)
            return not mentions(e, names)

        # propagate through copying assignments and .extend/.append onto local lists
        changed = True
        while changed:
            changed = False
            for n in walk_local(fn):
                if isinstance(n, ast.Assign) and mentions(n.value, tracked) and copy_shape(n.value, tracked):
                    for t in n.targets:
                        for x in ast.walk(t):
                            if isinstance(x, ast.Name) and x.id not in tracked:
                                tracked.add(x.id)
                                changed = True
                if isinstance(n, ast.Call) and isinstance(n.func, ast.Attribute) and n.func.attr in ("extend", "append") and isinstance(n.func.value, ast.Name) and any(mentions(a_, tracked) for a_ in n.args) and n.func.value.id not in tracked:
                    tracked.add(n.func.value.id)
                    changed = True
        # the alias being resolved: the value parameter (eval_alias) / what was looked up in the table (get)
        alias_vars = {param_name(fn, 0)} | names_defined_by(fn, lambda v: isinstance(v, ast.Call) and (call_name(v) or "").startswith("self._raw.")) | {"value", "val"}
        _fd = df.all_defs(fn)
        alias_vars = {c_ for a_ in list(alias_vars) for c_ in alias_class(_fd, a_)}
        result_vars = names_bound_to_call(fn, lambda nm_: nm_ == "self.eval_alias")
        n_flow = 0
        for n in walk_local(fn):
            if isinstance(n, ast.Call):
                if getattr(stmt_of(n), "_xv_call_marker", False):
                    continue  # the call of an expanded helper: its body is judged instead
                targs = [a_ for a_ in list(n.args) + [k.value for k in n.keywords] if mentions(a_, tracked)]
                if not targs:
                    continue
                nm = call_name(n) or unparse(n.func)
                n_flow += 1
                if nm in ("list", "tuple", "len", "isinstance", "bool"):
                    ok = True
                elif isinstance(n.func, ast.Attribute) and n.func.attr in ("extend", "append") and isinstance(n.func.value, ast.Name):
                    ok = all(copy_shape(a_, tracked) for a_ in n.args)
                elif nm == "self.eval_alias":
                    pos = n.args[2:3]
                    kw = [k.value for k in n.keywords if k.arg == "acc_args"]
                    ok = all(any(a_ is x for x in pos + kw) and copy_shape(a_, tracked) for a_ in targs)
                elif isinstance(n.func, ast.Name) and n.func.id in alias_vars:
                    ok = len(targs) == 1 and n.args and targs[0] is n.args[0] and isinstance(targs[0], ast.Name)
                elif nm == "AliasReturnCommandResult":
                    ok = True
                else:
                    ok = False
                ctx.ob("R5", site, f"`{short(n, 70)}` only copies the user's arguments (or is the alias invocation / the recursion's acc_args)", ok, key=f"{q}|args-reinterpreted|{nm}", where=loc(n))
            elif isinstance(n, (ast.ListComp, ast.GeneratorExp, ast.SetComp, ast.For)) :
                it = n.generators[0].iter if not isinstance(n, ast.For) else n.iter
                if mentions(it, tracked):
                    n_flow += 1
                    ctx.ob("R5", site, f"`{short(n, 60)}` does not process the user's arguments element by element", False, key=f"{q}|args-iterated", where=loc(n))
            elif isinstance(n, ast.Assign) and mentions(n.value, tracked) and not isinstance(n.value, ast.Call):
                n_flow += 1
                ctx.ob("R5", site, f"`{short(n, 70)}` copies the user's arguments unchanged", copy_shape(n.value, tracked), key=f"{q}|args-assign-shape", where=loc(n))
                # user arguments stay behind the alias's own words
                v = n.value
                if isinstance(v, ast.BinOp) and isinstance(v.op, ast.Add):
                    ctx.ob("R5", site, f"`{short(v, 60)}`: the user's arguments follow the alias's own words", not (mentions(v.left, seeds_ or tracked) and not mentions(v.right, tracked)), key=f"{q}|args-order", where=loc(v))
        # every list-valued return carries the arguments
        for r in (x for x in walk_local(fn) if isinstance(x, ast.Return)):
            if r.value is None or (isinstance(r.value, ast.Constant) and r.value.value is None) or unparse(r.value) == "default":
                continue
            n_flow += 1
            ctx.ob("R5", site, f"`{short(r, 70)}` carries the user's arguments", mentions(r.value, tracked | result_vars), key=f"{q}|args-dropped-at-return", where=loc(r))
        if n_flow < 3:
            raise AnalysisError(f"{site}: only {n_flow} flows of the user's arguments found")

    # ------------------------------------------------------------------ R6
    # the documented `$VAR` expansion of non-raw literals is ONE pass over the references of the original
    # text: every reference is replaced at its own position.  A substitution that *searches* for the
    # reference text in the partly expanded string (`str.replace`, `re.sub` per match) re-interprets values
    # that happen to contain reference-looking text, and misses references behind a longer unknown name.
    tl = ctx.repo.module("xonsh/tools.py")
    ev = tl.func("expandvars")
    n6 = 0
    for loop in [n for n in walk_local(ev) if isinstance(n, ast.For)]:
        it = loop.iter
        rev = False
        while isinstance(it, ast.Call) and call_name(it) in ("reversed", "list", "tuple") and it.args:
            rev = rev or call_name(it) == "reversed"
            it = it.args[0]
        if not (isinstance(it, ast.Call) and last_attr(it) == "finditer" and it.args and isinstance(it.args[0], ast.Name)):
            continue
        S = it.args[0].id
        m = loop.target.id if isinstance(loop.target, ast.Name) else None
        ldefs = df.all_defs(ev)
        n6 += 1
        # (1) no content search on the scanned string inside the loop
        searches = [c for c in calls_in(loop, local=False) if isinstance(c.func, ast.Attribute) and c.func.attr in ("replace", "sub", "subn", "split", "partition", "find", "index") and (unparse(c.func.value) == S or any(unparse(a_) == S for a_ in c.args))]
        ctx.ob("R6", "xonsh/tools.py:expandvars", f"inside the loop over the references of `{S}` the text is not searched again (str.replace / re.sub of the matched text substitutes the first look-alike, not this reference)", not searches, key="expandvars|search-based-substitution", where=loc(searches[0]) if searches else loc(loop), detail=short(searches[0], 60) if searches else None)
        # (2) every rebuild of the string is a positional splice S[:a] + value + S[b:], a/b from the match span
        span_names = set()
        for n_, ds_ in ldefs.items():
            for d_ in ds_:
                v_ = d_.value
                if v_ is not None and isinstance(v_, ast.Call) and isinstance(v_.func, ast.Attribute) and unparse(v_.func.value) == m and v_.func.attr in ("span", "start", "end"):
                    span_names.add(n_)
        rebuilds = [n for n in walk_local(loop) if isinstance(n, ast.Assign) and any(is_name(t, S) for t in n.targets)]
        shift_vars = set()
        for rb in rebuilds:
            v = rb.value
            parts = []

            def flat_add(e):
                if isinstance(e, ast.BinOp) and isinstance(e.op, ast.Add):
                    flat_add(e.left)
                    flat_add(e.right)
                else:
                    parts.append(e)

            flat_add(v)
            ok = len(parts) == 3 and all(isinstance(x, ast.Subscript) and is_name(x.value, S) and isinstance(x.slice, ast.Slice) for x in (parts[0], parts[2])) and parts[0].slice.lower is None and parts[2].slice.upper is None and parts[0].slice.upper is not None and parts[2].slice.lower is not None
            extra = []
            if ok:
                for bound in (parts[0].slice.upper, parts[2].slice.lower):
                    names = df.names_read(bound)
                    if not (names & span_names) and not any(isinstance(x, ast.Call) and unparse(x.func.value if isinstance(x.func, ast.Attribute) else x.func) == m for x in ast.walk(bound)):
                        ok = False
                    extra.append(names - span_names - {m})
                if ok and not rev:
                    # forward iteration: both bounds carry the same running offset correction
                    ok = bool(extra[0]) and extra[0] == extra[1] and len(extra[0]) == 1
                    shift_vars |= extra[0] if ok else set()
                elif ok and rev:
                    ok = not extra[0] and not extra[1]
            ctx.ob("R6", "xonsh/tools.py:expandvars", f"`{short(rb, 70)}` rebuilds the text by splicing at the reference's own span" + ("" if rev else ", both bounds corrected by the same running offset"), ok, key="expandvars|non-positional-rebuild", where=loc(rb))
        # (3) the running offset is advanced by the change of length after every splice
        for sv in sorted(shift_vars):
            ups = [n for n in walk_local(loop) if (isinstance(n, ast.Assign) and any(is_name(t, sv) for t in n.targets)) or (isinstance(n, ast.AugAssign) and is_name(n.target, sv))]
            lcfg = CFG(loop.body)
            okk = bool(ups)
            for rb in rebuilds:
                for rn in lcfg.nodes_of(rb):
                    o_, _p = lcfg.must_pass([rn], lambda m_: any(m_.ast is u for u in ups), exits=("exit",))
                    okk = okk and o_
            # shape: new = old + len(S) - <len before>   |   old += len(value) - (end - start)
            for u in ups:
                val = u.value
                txt = unparse(val)
                lens_before = names_defined_by(ev, lambda v_: unparse(v_) == f"len({S})", ldefs)
                shape = (isinstance(u, ast.Assign) and any(txt == f"{sv} + len({S}) - {lb}" for lb in lens_before)) or (isinstance(u, ast.AugAssign) and isinstance(u.op, ast.Add) and any(txt == f"len({S}) - {lb}" for lb in lens_before))
                okk = okk and shape
            ctx.ob("R6", "xonsh/tools.py:expandvars", f"after every splice the running offset `{sv}` grows by the change of the text's length", okk, key="expandvars|offset-not-advanced", where=loc(loop))
        if not rebuilds:
            raise AnalysisError("xonsh/tools.py:expandvars: the reference loop never rebuilds the text")
    if n6 == 0:
        # no match loop at all: accepted only if the whole substitution is one re.sub with a callback (positional by construction)
        subs = [c for c in calls_in(ev) if isinstance(c.func, ast.Attribute) and c.func.attr == "sub" and len(c.args) >= 2 and not isinstance(c.args[0], ast.Constant)]
        ctx.ob("R6", "xonsh/tools.py:expandvars", "references are substituted in one positional pass (match loop with span splicing, or a single regex.sub with a callback)", bool(subs), key="expandvars|no-positional-pass", where=loc(ev))
    _fresh_argv(ctx)
    _decorators_from_the_front(ctx)


def _mode_on_path(fn, path):
    """The constant assigned to *._cliarg_action on this path: the assignment whose
    enclosing if-conditions agree with the path's literals."""
    conds = set(path.cond_texts())
    best = None
    for n in walk_local(fn):
        if isinstance(n, ast.Assign) and any(isinstance(t, ast.Attribute) and t.attr == "_cliarg_action" for t in n.targets) and isinstance(const_value(n.value), str):
            ok = True
            child = n
            for a in ancestors(n):
                if a is fn:
                    break
                if isinstance(a, ast.If):
                    in_body = any(child is s or lexically_inside(child, s) or child is s for s in a.body) or child in a.body
                    t = unparse(dtable.subst(a.test, path.env))
                    lit_true = t in conds
                    lit_false = ("not " + t) in conds
                    if in_body and not lit_true:
                        ok = False
                    if (not in_body) and not lit_false:
                        ok = False
                child = a
            if ok:
                best = const_value(n.value)
    return best



MUTATORS = {"append", "extend", "insert", "pop", "remove", "sort", "reverse", "clear", "update", "setdefault", "popitem", "add", "discard"}


def _shared_object_mutations(fn, shared_calls, shared_names):
    """in-place edits, inside fn, of a local bound to a call of one of `shared_calls` (or to one of the module-level
    `shared_names`), aliases included"""
    defs = df.all_defs(fn)
    roots = set()
    for nm, ds in defs.items():
        for d in ds:
            v = d.value
            if v is None:
                continue
            if isinstance(v, ast.Call) and (call_name(v) or "").split(".")[-1] in shared_calls:
                roots.add(nm)
            if isinstance(v, ast.Name) and v.id in shared_names and d.kind == "assign":
                roots.add(nm)
    names = set()
    for r in roots:
        names |= alias_class(defs, r)
    local = set(defs)
    names |= {g for g in shared_names if g not in local}
    out = []
    for n in walk_local(fn):
        if isinstance(n, ast.AugAssign) and isinstance(n.target, ast.Name) and n.target.id in names:
            out.append(n)
        elif isinstance(n, ast.AugAssign) and isinstance(n.target, ast.Subscript) and isinstance(n.target.value, ast.Name) and n.target.value.id in names:
            out.append(n)
        elif isinstance(n, ast.Call) and isinstance(n.func, ast.Attribute) and n.func.attr in MUTATORS and isinstance(n.func.value, ast.Name) and n.func.value.id in names:
            out.append(n)
        elif isinstance(n, (ast.Assign, ast.Delete)):
            for t in n.targets:
                if isinstance(t, ast.Subscript) and isinstance(t.value, ast.Name) and t.value.id in names:
                    out.append(n)
    return out


def _decorators_from_the_front(ctx):
    """R10: resolve_decorators stores back a suffix of the command list."""
    SPF = "xonsh/procs/specs.py"
    sp = ctx.repo.module(SPF)
    fn = sp.func("SubprocSpec.resolve_decorators")
    st = f"{SPF}:SubprocSpec.resolve_decorators"
    stores = [a for a in walk_local(fn) if isinstance(a, (ast.Assign, ast.AugAssign)) and any(unparse(t) == "self.cmd" for t in (a.targets if isinstance(a, ast.Assign) else [a.target]))]
    inplace = [c for c in calls_in(fn) if isinstance(c.func, ast.Attribute) and unparse(c.func.value) == "self.cmd" and c.func.attr in ("remove", "pop", "clear", "__delitem__")] + [d for d in walk_local(fn) if isinstance(d, ast.Delete) and any("self.cmd" in unparse(t) for t in d.targets)]
    if not stores and not inplace:
        raise AnalysisError(f"{st}: the command list is not written here any more")
    for a in stores:
        v = a.value
        suffix = isinstance(v, ast.Subscript) and unparse(v.value) == "self.cmd" and isinstance(v.slice, ast.Slice) and v.slice.upper is None and v.slice.step is None and v.slice.lower is not None
        why = None
        if not suffix:
            why = f"`{short(v, 50)}` is not a suffix `self.cmd[k:]` of the list"
        elif isinstance(v.slice.lower, ast.Name):
            k = v.slice.lower.id
            loops = [l for l in walk_local(fn) if isinstance(l, ast.For) and k in {x.id for x in ast.walk(l.target) if isinstance(x, ast.Name)}]
            if loops:
                lp = loops[0]
                leaves = any(isinstance(b, ast.Break) for i_ in walk_local(lp) if isinstance(i_, ast.If) for b in [y for br in (i_.orelse, i_.body) for x_ in br for y in ast.walk(x_)])
                if not leaves:
                    suffix, why = False, f"the loop over `{k}` never leaves at the first word that is not a decorator"
        ctx.ob("R10", st, f"`{short(a, 50)}` keeps every word behind the leading decorators", suffix, key="resolve_decorators|not-a-suffix", where=loc(a), detail=why and why + ": a word in argument position that equals a decorator-alias name is taken out of argv")
    for c in inplace:
        front = isinstance(c, ast.Call) and c.func.attr == "pop" and c.args and const_value(c.args[0], None) == 0
        ctx.ob("R10", st, f"`{short(c, 50)}` removes from the front only", front, key="resolve_decorators|removes-inside", where=loc(c))


def _fresh_argv(ctx):
    n = 0
    src = "import functools\n@functools.lru_cache(maxsize=8)\ndef interp(f):\n    return ['sh']\ndef build(f, args):\n    cmd = interp(f)\n    cmd += [f, *args]\n    return cmd\n"

    def finder(tree):
        fns = {f.name: f for f in tree.body if isinstance(f, ast.FunctionDef)}
        return bool(_shared_object_mutations(fns["build"], {"interp"}, set()))

    positive_example(src, finder, "in-place edit of a memoised result")
    for rel in (SP, "xonsh/procs/executables.py", "xonsh/aliases.py", "xonsh/built_ins.py"):
        mod = ctx.repo.module(rel)
        memo = set()
        for q, fn in mod.functions():
            for d in fn.decorator_list:
                t = unparse(d)
                if "lru_cache" in t or t.split("(")[0].split(".")[-1] in ("cache", "cached_property", "memoize", "lazyobject"):
                    memo.add(q.split(".")[-1])
        # module-level mutable displays (lists / dicts / sets bound once at module level)
        shared = {nm for nm, asg in mod.assigns.items() if "." not in nm and isinstance(asg[-1].value, (ast.List, ast.Dict, ast.Set, ast.ListComp, ast.DictComp))}
        for q, fn in mod.functions():
            hits = _shared_object_mutations(fn, memo, set())
            n += 1
            for h in hits:
                ctx.ob("R9", f"{rel}:{q}", f"`{short(h, 60)}` does not edit in place an object handed out by a memoised function ({sorted(memo)})", False, key=f"{q}|memoised-result-edited-in-place", where=loc(h))
        ctx.ob("R9", rel, f"{len(list(mod.functions()))} functions scanned: no in-place edit of a memoised function's result (memoised here: {sorted(memo) or 'none'})", True, key=f"{rel}|scanned")

META = {
    "technique": "static analysis: effective PLY grammar (dumped from the working tree) x decision-table extraction of the subprocess atom actions, effect summaries of the run-time helpers over the built_ins call graph, who-may-write the argv list",
    "text": "Decides the delivery-mode machinery for all argument strings: each of the ~30 subproc_atom productions of "
    "the effective grammar has an action assigning _cliarg_action on every path; for every source form the "
    "(helper, mode) pair extracted per path equals the documented one (quoted literal -> expand_path/append, raw "
    "literal -> no helper, @() -> list_of_strs_or_callables/extend, $() -> append, $[] -> splitlines, @$() -> extend, "
    "bare word -> expand_path or glob iff it has a glob star); the assembler maps each mode to exactly one wrapper; "
    "the @() helper has an empty split/glob/expand effect summary, while the helper applied to glued arguments "
    "containing an injected part does not (known finding); @$() splits with the shell lexer only; SubprocSpec's "
    "command list is written only by the known resolvers and neither they nor the stage constructors apply a "
    "splitting/globbing/expanding callee to it; alias and binary receive the same self.cmd; through Aliases.get/eval_alias the user's arguments flow by "
    "copying only (list/+/display/slice/extend, the alias invocation, the recursion's acc_args), every list result "
    "carries them, behind the alias's own words; tools.expandvars is one positional pass over the references of the original "
    "text (no content search of the partly expanded string, span splice, running offset advanced by the length "
    "change, or back-to-front iteration). Literal values "
    "themselves (tokenizer regexes, literal_eval) are not decided.",
    "note": "Decides the listed structural clauses, not the behaviour. The grammar is read by importing "
    "xonsh.parsers from the analysed tree in a helper subprocess (static initialisers only; nothing is parsed).",
    "more": 'Also decided: every return path of the @() helper is a one-element list of the value or an unfiltered element-wise map over it. Every grammar action that reads the raw prefix hands `is_raw` on to the node it builds (raw f-strings on 3.12 included); f-string chunk values come from the host parser. Nothing on the launch path edits in place the result of a memoised function (a cached interpreter list extended with one run\'s arguments would prefix the next run\'s argv). Lexer.split (what @$() output is split with) answers from the token stream on every path; the text is never split by a string method.',
}
