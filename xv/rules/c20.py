"""C20 — the job table is always consistent with the processes it tracks.

The table is two structures (MRU deque of numbers, dict number -> job).  Decided:
who may mutate them; every function that adds/removes a member of one does the same
to the other on the same paths (or only permutes); the job-control commands cannot
reach an error return after having mutated either structure; the number allocator
purges first and scans upward from 1; the commands run against the main thread's
table (use_main_jobs restores in ``finally``).  Not decided: interleavings with
process exits.
"""

from __future__ import annotations

import ast

from .common import *
from ..engine.loader import class_methods

JB = "xonsh/procs/jobs.py"
T_ADD = {"append", "appendleft", "insert", "extend", "extendleft"}
T_DEL = {"remove", "pop", "popleft", "clear"}
J_ADD = {"update", "setdefault"}
J_DEL = {"pop", "popitem", "clear"}


class Mut:
    def __init__(self, struct, kind, arg, node, method):
        self.struct, self.kind, self.arg, self.node, self.method = struct, kind, arg, node, method

    def __repr__(self):
        return f"{self.struct}.{self.method}({self.arg})"


def _struct_of(expr, tnames, jnames):
    if isinstance(expr, ast.Call):
        nm = call_name(expr) or ""
        if nm.split(".")[-1] == "get_tasks":
            return "T"
        if nm.split(".")[-1] == "get_jobs":
            return "J"
    d = dotted(expr)
    if d in ("_tasks_main", "_jobs_thread_local.tasks") or d in tnames:
        return "T"
    if d in ("XSH.all_jobs", "_jobs_thread_local.jobs") or d in jnames or (d or "").endswith(".all_jobs"):
        return "J"
    return None


ACCESSORS = ("get_tasks", "get_jobs")


def holders(fn, pt=(), pj=()):
    """(names that may hold the task deque, names that may hold the job dict) inside fn: locals bound from an accessor
    or from a global spelling of the structure, plain copies of such a local (`q = tasks`, also the `param = arg`
    bindings of the helper-transparent view), and the parameters ``pt`` / ``pj`` that receive the structure at a
    call site (param_roles)."""
    defs = df.all_defs(fn)
    tnames, jnames = set(pt), set(pj)
    for _ in range(8):
        grew = False
        for n_, ds in defs.items():
            for d in ds:
                if d.kind in ("assign", "walrus") and d.value is not None:
                    s = _struct_of(d.value, tnames, jnames)
                    if s == "T" and n_ not in tnames:
                        tnames.add(n_)
                        grew = True
                    elif s == "J" and n_ not in jnames:
                        jnames.add(n_)
                        grew = True
        if not grew:
            break
    return tnames, jnames


def mutations(fn, pt=(), pj=()):
    tnames, jnames = holders(fn, pt, pj)
    out = []
    for n in walk_local(fn):
        if isinstance(n, ast.Call) and isinstance(n.func, ast.Attribute):
            s = _struct_of(n.func.value, tnames, jnames)
            m = n.func.attr
            arg = unparse(n.args[0]) if n.args else ""
            if s == "T" and m in T_ADD:
                out.append(Mut("T", "add", arg, n, m))
            elif s == "T" and m in T_DEL:
                out.append(Mut("T", "del", arg, n, m))
            elif s == "J" and m in J_ADD:
                out.append(Mut("J", "add", arg, n, m))
            elif s == "J" and m in J_DEL:
                out.append(Mut("J", "del", arg, n, m))
        elif isinstance(n, (ast.Assign, ast.AugAssign)):
            tgts = n.targets if isinstance(n, ast.Assign) else [n.target]
            for t in tgts:
                if isinstance(t, ast.Subscript):
                    s = _struct_of(t.value, tnames, jnames)
                    if s == "J":
                        out.append(Mut("J", "add", unparse(t.slice), n, "[]="))
                    elif s == "T":
                        out.append(Mut("T", "set", unparse(t.slice), n, "[]="))
        elif isinstance(n, ast.Delete):
            for t in n.targets:
                if isinstance(t, ast.Subscript):
                    s = _struct_of(t.value, tnames, jnames)
                    if s:
                        out.append(Mut(s, "del", unparse(t.slice), n, "del[]"))
    return out


def _params(fn):
    a = fn.args
    return [x.arg for x in a.posonlyargs + a.args + a.kwonlyargs]


def _bound_args(fn, call):
    """parameter name -> argument expression of one call site (None when the site cannot be mapped: *args / **kw)"""
    a = fn.args
    pos = [x.arg for x in a.posonlyargs + a.args]
    if any(isinstance(x, ast.Starred) for x in call.args) or any(k.arg is None for k in call.keywords) or len(call.args) > len(pos):
        return None
    out = dict(zip(pos, call.args))
    for k in call.keywords:
        out[k.arg] = k.value
    return out


def param_roles(ctx, mod):
    """qualname -> (parameters that receive the task deque, parameters that receive the job dict) for the module-level
    functions of jobs.py.  A helper that is handed the structure (`_drop(tasks, dead)`) mutates the job table exactly
    as a function that fetched it itself: the role of the parameter is what the call sites pass (resolved in the
    caller's own view, to a fixpoint so that a structure passed down two levels is still known), not how it is spelt.
    One site passing the structure is enough for the parameter to count as holding it (may-hold, as for locals)."""
    funcs = {q: fn for q, fn in mod.functions() if "." not in q and q not in ACCESSORS + ("use_main_jobs",)}
    # cheap pre-filter: only parameters through which the function would mutate *if* they held a structure
    cand = {}
    for q, fn in funcs.items():
        ps = set(_params(fn))
        if not ps:
            continue
        base = len(mutations(fn))
        hot = {p_ for p_ in ps if len(mutations(fn, pt={p_})) > base or len(mutations(fn, pj={p_})) > base}
        if hot:
            cand[q] = hot
    roles = {q: (set(), set()) for q in funcs}
    if not cand:
        return roles
    sites = {q: [] for q in cand}  # (calling function or None, call)
    for q in cand:
        for m in ctx.repo.modules("xonsh", "xontrib", exclude=("xonsh/pytest/",), containing=q):
            for c in ast.walk(m.tree):
                if isinstance(c, ast.Call) and (call_name(c) or "").split(".")[-1] == q:
                    sites[q].append((enclosing_func(c), c))
    for _ in range(4):
        grew = False
        for q, hot in cand.items():
            for caller, c in sites[q]:
                bound = _bound_args(funcs[q], c)
                if bound is None:
                    raise AnalysisError(f"{JB}:{q}: call at {loc(c)} passes its arguments by */**: cannot tell which parameter receives a job structure")
                cq = qual_of(caller) if caller is not None and getattr(caller, "_xv_mod", None) is mod else None
                cpt, cpj = roles.get(cq, ((), ()))
                tn, jn = holders(caller, cpt, cpj) if caller is not None else (set(), set())
                for p_ in hot:
                    v = bound.get(p_)
                    s_ = _struct_of(v, tn, jn) if v is not None else None
                    if s_ == "T" and p_ not in roles[q][0]:
                        roles[q][0].add(p_)
                        grew = True
                    elif s_ == "J" and p_ not in roles[q][1]:
                        roles[q][1].add(p_)
                        grew = True
        if not grew:
            break
    for q, (pt, pj) in roles.items():
        if pt & pj:
            raise AnalysisError(f"{JB}:{q}: parameter(s) {sorted(pt & pj)} receive the task deque at one call site and the job dict at another")
    return roles


def _is_error_return(n):
    """``return <stdout>, <non-empty stderr message>`` — the alias convention for an error."""
    if not isinstance(n, ast.Return) or not isinstance(n.value, ast.Tuple) or len(n.value.elts) != 2:
        return False
    e = n.value.elts[1]
    if isinstance(e, ast.Constant):
        return isinstance(e.value, str) and e.value != ""
    return isinstance(e, (ast.JoinedStr, ast.BinOp, ast.Call, ast.Name))


def check(ctx):
    ctx.not_decided += ["interleavings of job exits with the commands", "which job `+`/`-` select (index values)"]
    ctx.rule("R1", "only jobs.py mutates the job dict / task deque, and every function that adds or removes a member of one does the same to the other on the same paths (or only permutes the deque)", floor=6)
    ctx.rule("R2", "fg/bg/disown cannot reach an error return after mutating either structure", floor=2)
    ctx.rule("R3", "the number allocator purges dead jobs first and scans upward from 1; add_job registers that number in both structures", floor=4)
    ctx.rule("R6", "the purge keeps a task only on the evidence of a poll() that says the process is still running", floor=1)
    ctx.rule("R5", "inside one function every access to the job structures happens under one view of the tables", floor=12)
    ctx.rule("R7", "resume_job reports success only after it made the selected job the current one (front of the order): bg acts on the current job afterwards", floor=2)
    ctx.rule("R8", "every job command looks at live jobs only: jobs, fg / bg (resume_job) and disown purge finished jobs before they read the table - a command that selects 'the current job' from an unpurged order acts on a job that has already finished (`disown` after the most recent job exited reports 'Removed job N (running)' and leaves the live current job alone)", floor=3)
    ctx.rule("R9", "every pipeline with at least one real process is registered: the only conditions on the way to add_job in the runner of a command pipeline are 'there is a process object at all' and a test quantified over the whole list of stages (not every stage is a proxy) - a guard that judges the pipeline by one stage, by part of the list or by another attribute of the command leaves real children out of the job table (`sleep 100 | alias &` would run untracked)", floor=2)
    ctx.rule("R4", "jobs/bg/disown run against the main thread's table; use_main_jobs restores the thread-local view on every exit; fg is unthreadable", floor=5)

    mod = ctx.repo.module(JB)
    # ---- who may write (whole repo, cheap prefilter)
    for m in ctx.repo.modules("xonsh", "xontrib", exclude=("xonsh/pytest/",), containing=("all_jobs", "get_jobs", "get_tasks", "_tasks_main")):
        if m.rel == JB:
            continue
        for q, fn in m.functions():
            for mu in mutations(fn):
                ctx.ob("R1", f"{m.rel}:{q}", f"`{short(stmt_of(mu.node), 60)}`: the job table is mutated only inside procs/jobs.py", False, key=f"{m.rel}:{q}|foreign-mutation|{mu!r}", where=loc(mu.node))
    # ---- paired updates
    proles = param_roles(ctx, mod)
    n_funcs = 0
    for q, fn in mod.functions():
        if q in ("use_main_jobs", "get_tasks", "get_jobs"):
            continue
        # a helper that is handed the structure (`_drop(tasks, dead)`) is a mutator in its own right: its parameter holds
        # what the call sites pass
        pt, pj = proles.get(q, ((), ()))
        ms = mutations(fn, pt, pj)
        if not ms:
            # the mutation may sit in a private helper that takes the structure as a parameter (`_move_to_front(tasks, x)`):
            # judge the caller on its helper-transparent view as well (the accessors stay calls: they *are* the structures)
            ffn = flat(ctx, fn, 1, skip=ACCESSORS)
            if ffn is not fn and mutations(ffn, pt, pj):
                fn = ffn
                ms = mutations(fn, pt, pj)
        if not ms:
            continue
        tnames_, _jn = holders(fn, pt, pj)
        n_funcs += 1
        st = f"{JB}:{q}"
        cfg = CFG(fn)
        T = [m for m in ms if m.struct == "T"]
        J = [m for m in ms if m.struct == "J"]
        # permutation: T.remove(x) followed by T.appendleft(x)/append(x) of the same x
        perm = []
        for d in [m for m in T if m.kind == "del" and m.method == "remove"]:
            for a in [m for m in T if m.kind == "add" and m.arg == d.arg and m not in [p[1] for p in perm]]:
                dn = node_in(cfg, stmt_of(d.node))
                an = node_in(cfg, stmt_of(a.node))
                okp, _ = cfg.must_pass(dn, lambda m_: m_ in an, exits=("exit",))
                if okp and all(cfg.dominated(x, lambda m_: m_ in dn) for x in an):
                    perm.append((d, a))
                    break
        for d, a in perm:
            ctx.ob("R1", st, f"`{d!r}` + `{a!r}` re-insert the same member (permutation of the deque)", True, where=loc(d.node))
        rest_T = [m for m in T if not any(m is p[0] or m is p[1] for p in perm)]
        # bulk rebuild:  T.clear(); T.extend(alive)  counts as one removal of the filtered-out members
        clear = [m for m in rest_T if m.method == "clear"]
        ext = [m for m in rest_T if m.method in ("extend", "extendleft")]
        bulk = []
        if clear and ext:
            bulk = clear + ext
            rest_T = [m for m in rest_T if m not in bulk]
        t_add = [m for m in rest_T if m.kind == "add"]
        t_del = [m for m in rest_T if m.kind == "del"]
        j_add = [m for m in J if m.kind == "add"]
        j_del = [m for m in J if m.kind == "del"]
        for m in [x for x in rest_T if x.kind == "set"]:
            ctx.ob("R1", st, f"`{m!r}` overwrites a deque slot (not an add/remove/permutation)", False, key=f"{q}|deque-slot-write", where=loc(m.node))

        def paired(a, bs, what):
            """a has a partner in bs with the same member expression, on the same normal paths."""
            an = node_in(cfg, stmt_of(a.node))
            for b in bs:
                if b.arg != a.arg:
                    continue
                bn = node_in(cfg, stmt_of(b.node))
                fwd, _ = cfg.must_pass(an, lambda m_: m_ in bn, exits=("exit",))
                bwd, _ = cfg.must_pass(bn, lambda m_: m_ in an, exits=("exit",))
                dom_ab = all(cfg.dominated(x, lambda m_: m_ in an) for x in bn)
                dom_ba = all(cfg.dominated(x, lambda m_: m_ in bn) for x in an)
                if (fwd and dom_ab) or (bwd and dom_ba):
                    return b
            return None

        for a in t_add:
            b = paired(a, j_add, "add")
            ctx.ob("R1", st, f"`{a!r}` is paired with a dict insertion of the same number on the same paths", b is not None, key=f"{q}|deque-add-unpaired", where=loc(a.node))
        for a in j_add:
            b = paired(a, t_add, "add")
            ctx.ob("R1", st, f"`{a!r}` is paired with a deque insertion of the same number on the same paths", b is not None, key=f"{q}|dict-add-unpaired", where=loc(a.node))
        for a in t_del:
            b = paired(a, j_del, "del")
            ctx.ob("R1", st, f"`{a!r}` is paired with a dict removal of the same number on the same paths", b is not None, key=f"{q}|deque-del-unpaired", where=loc(a.node))
        for a in j_del:
            b = paired(a, t_del, "del") if not bulk else True
            ctx.ob("R1", st, f"`{a!r}` is paired with a deque removal of the same member on the same paths", b is not None, key=f"{q}|dict-del-unpaired", where=loc(a.node))
        if bulk:
            # the rebuilt deque must be a filter of the old one, and the dict loses exactly the filtered-out set
            e = ext[0]
            defs = df.all_defs(fn)
            src = df.resolve_copy(defs, e.node.args[0]) if e.node.args else None
            txt = unparse(src) if src is not None else ""
            gen = None
            for n in ast.walk(src) if src is not None else []:
                if isinstance(n, (ast.GeneratorExp, ast.ListComp)):
                    gen = n
            ok = False
            removed_set = None
            if gen is not None and len(gen.generators) == 1:
                g = gen.generators[0]
                it_ok = _struct_of(g.iter, tnames_, set()) == "T"
                elt_ok = unparse(gen.elt) == unparse(g.target)
                cond_ok = len(g.ifs) == 1 and isinstance(g.ifs[0], ast.Compare) and isinstance(g.ifs[0].ops[0], ast.NotIn) and unparse(g.ifs[0].left) == unparse(g.target)
                if it_ok and elt_ok and cond_ok:
                    removed_set = unparse(g.ifs[0].comparators[0])
                    ok = True
            ctx.ob("R1", st, f"the deque is rebuilt as a filter of itself (`{short(src, 70) if src is not None else None}`)", ok, key=f"{q}|bulk-rebuild-not-filter", where=loc(e.node))
            # dict removals iterate the same removed set
            okj = False
            for jd in j_del:
                loop = next((a for a in ancestors(jd.node) if isinstance(a, ast.For)), None)
                if loop is not None and removed_set is not None and unparse(loop.iter) == removed_set and jd.arg == unparse(loop.target):
                    okj = True
            ctx.ob("R1", st, f"the dict loses exactly the members filtered out of the deque (`{removed_set}`)", okj, key=f"{q}|bulk-dict-removal-mismatch", where=loc(e.node))
            # both happen under the same condition
            cn = node_in(cfg, stmt_of(clear[0].node))
            jn = [x for jd in j_del for x in node_in(cfg, stmt_of(jd.node))]
            if jn:
                loop = next((a for a in ancestors(j_del[0].node) if isinstance(a, ast.For)), None)
                ln = node_in(cfg, loop) if loop is not None else jn
                fwd, _ = cfg.must_pass(cn, lambda m_: m_ in ln, exits=("exit",))
                ctx.ob("R1", st, "the dict purge follows the deque rebuild on every normal path", fwd, key=f"{q}|bulk-not-same-path", where=loc(clear[0].node))
    if n_funcs < 4:
        raise AnalysisError(f"only {n_funcs} mutating functions found in {JB}; expected add_job, _clear_dead_jobs, get_next_task, resume_job, disown_fn")

    # ---- R2 error-before-mutation
    for q in ("resume_job", "disown_fn"):
        fn = mod.func(q)
        st = f"{JB}:{q}"
        ms = mutations(fn)
        if not ms:
            # (the purge of dead jobs at the top is the documented first step, not the operation's own mutation)
            fn = flat(ctx, fn, 1, skip=("_clear_dead_jobs", "get_tasks", "get_jobs", "get_task", "print_one_job"))
            ms = mutations(fn)
        cfg = CFG(fn)
        if not ms:
            raise AnalysisError(f"{st}: no table mutation found")
        errs = [n for n in cfg.nodes if n.kind == "stmt" and _is_error_return(n.ast)]
        if not errs:
            raise AnalysisError(f"{st}: no error return found")
        starts = [x for m in ms for x in node_in(cfg, stmt_of(m.node))]
        seen = cfg.reach(starts)
        hit = [e for e in errs if e in seen]
        ctx.ob(
            "R2",
            st,
            "no error return is reachable after the table was mutated (validate all arguments first)",
            not hit,
            key=f"{q}|error-after-mutation",
            where=loc(hit[0].ast) if hit else loc(fn),
            path=cfg.fmt_path(cfg.path_to(seen, hit[0])) if hit else None,
            detail=f"error return `{short(hit[0].ast, 70)}`" if hit else None,
        )
        # every member used for mutation was validated: is a deque element or tested `in get_jobs()` / get_task() in try
    # ---- R3 allocator
    gn = mod.func("get_next_job_number")
    st = f"{JB}:get_next_job_number"
    cfg = CFG(gn)
    loops = [n for n in cfg.nodes if n.kind == "while"]
    purge = [n for n in cfg.nodes if n.kind == "stmt" and any(call_name(c) == "_clear_dead_jobs" for c in calls_in(n.ast))]
    defs = df.all_defs(gn)
    rets = [n for n in walk_local(gn) if isinstance(n, ast.Return)]

    def is_jobs(e):
        return _struct_of(df.resolve_copy(defs, e), set(), set()) == "J" or _struct_of(e, set(), set()) == "J"

    gens = [r.value.args[0] for r in rets if isinstance(r.value, ast.Call) and call_name(r.value) == "next" and r.value.args and isinstance(r.value.args[0], ast.GeneratorExp)]
    if len(loops) == 1:
        # idiom A: i = 1; while i in jobs: i += 1; return i
        w = loops[0]
        test = w.ast.test
        var = unparse(test.left) if isinstance(test, ast.Compare) and isinstance(test.ops[0], ast.In) else None
        ok = var is not None and is_jobs(test.comparators[0])
        ctx.ob("R3", st, f"the scan loops while the candidate number is in the job dict (`{short(test)}`)", ok, key="alloc|loop-test", where=loc(w.ast))
        ctx.ob("R3", st, "dead jobs are purged before the scan", bool(purge) and cfg.dominated(w, lambda m_: m_ in purge), key="alloc|no-purge", where=loc(gn))
        ds = defs.get(var or "", [])
        init = [d for d in ds if d.kind == "assign"]
        step = [d for d in ds if d.kind == "aug"]
        ok = len(init) == 1 and const_value(init[0].value) == 1 and len(step) == 1 and isinstance(step[0].stmt.op, ast.Add) and const_value(step[0].value) == 1 and len(ds) == 2
        ctx.ob("R3", st, "the scan starts at 1 and advances by 1 (lowest free number)", ok, key="alloc|start-step", where=loc(gn))
        ctx.ob("R3", st, "the scanned number is returned", len(rets) == 1 and unparse(rets[0].value) == var, key="alloc|return", where=loc(gn))
    elif not loops and len(gens) == 1 and len(rets) == 1:
        # idiom B: return next(n for n in itertools.count(1) if n not in jobs)
        g = gens[0]
        gen = g.generators[0] if len(g.generators) == 1 else None
        tgt = gen.target.id if gen is not None and isinstance(gen.target, ast.Name) else None
        cond = gen.ifs[0] if gen is not None and len(gen.ifs) == 1 else None
        ok = tgt is not None and isinstance(cond, ast.Compare) and isinstance(cond.ops[0], ast.NotIn) and unparse(cond.left) == tgt and is_jobs(cond.comparators[0])
        ctx.ob("R3", st, f"the scan skips exactly the numbers that are in the job dict (`{short(cond) if cond is not None else None}`)", ok, key="alloc|loop-test", where=loc(g))
        rn = cfg.nodes_of(rets[0])
        ctx.ob("R3", st, "dead jobs are purged before the scan", bool(purge) and all(cfg.dominated(x, lambda m_: m_ in purge) for x in rn), key="alloc|no-purge", where=loc(gn))
        it = gen.iter if gen is not None else None
        ok = isinstance(it, ast.Call) and call_name(it) in ("itertools.count", "count") and [const_value(a_) for a_ in it.args] in ([1], [1, 1]) and not it.keywords
        ctx.ob("R3", st, "the scan starts at 1 and advances by 1 (lowest free number)", ok, key="alloc|start-step", where=loc(gn))
        ctx.ob("R3", st, "the scanned number is returned", tgt is not None and unparse(g.elt) == tgt, key="alloc|return", where=loc(gn))
    else:
        # an allocator of another shape: at least the number it hands out must be *known* not to be a key of the job
        # dict at the point of return (a dominating `n in jobs` false, or a filter of a generator it is drawn from)
        established = bool(rets)
        worst = None
        for r in rets:
            okr = False
            for rn in cfg.nodes_of(r):
                for e_, pol_ in facts_at(cfg, rn):
                    if isinstance(e_, ast.Compare) and len(e_.ops) == 1 and isinstance(e_.ops[0], (ast.In, ast.NotIn)) and is_jobs(e_.comparators[0]) and unparse(e_.left) in {x.id for x in ast.walk(r.value) if isinstance(x, ast.Name)}:
                        if pol_ == isinstance(e_.ops[0], ast.NotIn):
                            okr = True
            if not okr:
                established, worst = False, r
        ctx.ob("R3", st, "the number handed out is established not to be in the job dict (membership test on the path to the return)", established, key="alloc|number-not-established-free", where=loc(worst) if worst is not None else loc(gn), detail=None if established else f"`{short(worst, 50)}`: nothing on the way compares this number with the keys of the job dict - positions, lengths or insertion order say nothing about which numbers are taken once a freed number was reused")
        if established:
            raise AnalysisError(f"{st}: neither `while n in jobs: n += 1` nor `next(n for n in count(1) if n not in jobs)`: cannot decide that the free number found is the lowest")
    aj = mod.func("add_job")
    adefs = df.all_defs(aj)
    ms = mutations(aj)
    for m in ms:
        d = adefs.get(m.arg, [])
        ok = len(d) == 1 and isinstance(d[0].value, ast.Call) and call_name(d[0].value) == "get_next_job_number"
        ctx.ob("R3", f"{JB}:add_job", f"`{m!r}` registers the freshly allocated number", ok, key=f"add_job|number-source|{m.struct}", where=loc(m.node))

    # ---- R4 threads
    def decos(fn):
        out = []
        for d in fn.decorator_list:
            out.append(call_name(d) if isinstance(d, ast.Call) else dotted(d))
        return out

    for q in ("jobs", "bg", "disown_fn"):
        fn = mod.func(q)
        # as a decorator, or as one `with use_main_jobs():` around the whole body
        body = [s_ for s_ in fn.body if not (isinstance(s_, ast.Expr) and isinstance(s_.value, ast.Constant))]
        whole_with = len(body) == 1 and isinstance(body[0], ast.With) and any(isinstance(it.context_expr, ast.Call) and call_name(it.context_expr) == "use_main_jobs" for it in body[0].items)
        ctx.ob("R4", f"{JB}:{q}", "runs inside use_main_jobs()", "use_main_jobs" in decos(fn) or whole_with, key=f"{q}|no-use_main_jobs", where=loc(fn))
    ctx.ob("R4", f"{JB}:fg", "fg is @unthreadable (runs on the main thread)", "unthreadable" in decos(mod.func("fg")), key="fg|threadable", where=loc(mod.func("fg")))
    if isinstance(mod.get("use_main_jobs"), ast.ClassDef):
        _use_main_jobs_class(ctx, mod)
    else:
        _use_main_jobs_generator(ctx, mod)
    _commands_purge_first(ctx, mod)
    _registration_total(ctx)


    # ---- R5 one view per function
    # a number allocated against one table must be registered in the same table: inside one
    # function every access to the job structures happens under the same view.  A
    # `with use_main_jobs()` (also a conditional one) that covers only part of them splits it.
    direct = {"get_tasks", "get_jobs"}
    funcs = {q: fn for q, fn in mod.functions() if "." not in q}
    acc = set()
    changed = True
    while changed:
        changed = False
        for q, fn in funcs.items():
            if q in acc or q in direct or q == "use_main_jobs":
                continue
            for c in calls_in(fn):
                nm = (call_name(c) or "").split(".")[-1]
                if nm in direct or nm in acc:
                    acc.add(q)
                    changed = True
                    break
            else:
                if any(_struct_of(x, set(), set()) for x in ast.walk(fn) if isinstance(x, (ast.Attribute, ast.Name))):
                    acc.add(q)
                    changed = True
    n5 = 0
    for q in sorted(acc):
        fn = funcs[q]
        sites = [c for c in calls_in(fn) if (call_name(c) or "").split(".")[-1] in direct | acc]
        sites += [x for x in walk_local(fn) if isinstance(x, (ast.Attribute, ast.Name)) and _struct_of(x, set(), set()) and not isinstance(parent(x), ast.Attribute)]
        withs = [w for w in walk_local(fn) if isinstance(w, (ast.With, ast.AsyncWith)) and any("use_main_jobs" in unparse(it.context_expr) for it in w.items)]
        n5 += 1
        bad = None
        for w in withs:
            inside = [s_ for s_ in sites if any(lexically_inside(s_, b) or s_ is b for b in w.body)]
            outside = [s_ for s_ in sites if s_ not in inside and not any(s_ is x for it in w.items for x in ast.walk(it.context_expr))]
            if inside and outside:
                bad = (w, outside[0])
        ctx.ob(
            "R5",
            f"{JB}:{q}",
            "every access to the job structures in this function happens under one view (no `with use_main_jobs()` around only part of them: a number allocated in one table would be registered in another)",
            bad is None,
            key=f"{q}|split-view",
            where=loc(bad[0]) if bad else loc(fn),
            detail=(f"`{short(bad[1], 50)}` at line {bad[1].lineno} runs outside the `with` at line {bad[0].lineno}" if bad else None),
        )
    if n5 < 12:
        raise AnalysisError(f"{JB}: only {n5} functions accessing the job structures found")


    # ---- R6 liveness evidence in the purge
    # "finished jobs disappear": the purge keeps a task only on the evidence that its process is still there -
    # `<proc>.poll() is None`.  A path that keeps a task without having polled it (by status, by age ...) lets a
    # job that died some other way stay in both structures for ever, and its number is never reused.
    from ..engine import dtable as _dt

    cdj = mod.func("_clear_dead_jobs")

    def lits_of(conds):
        out = set()
        for e, pol in conds:
            alts = _dt.branches(e, pol)
            for e2, p2 in alts[0] if len(alts) == 1 else [_dt.normalise(e, pol)]:
                out.add((unparse(e2), p2))
        return out

    def polled_alive(lits):
        return any(t.endswith(".poll() is None") and pol for t, pol in lits)

    n_keep = 0

    def scan_of(f_):
        loops_ = [l for l in walk_local(f_) if isinstance(l, ast.For) and any(isinstance(c.func, ast.Attribute) and c.func.attr == "add" for c in calls_in(l, local=False)) and any(last_attr(c) == "poll" for c in ast.walk(l) if isinstance(c, ast.Call))]
        preds = [c for n_ in walk_local(f_) if isinstance(n_, (ast.SetComp, ast.ListComp, ast.GeneratorExp)) for g in n_.generators for i_ in g.ifs for c in ast.walk(i_) if isinstance(c, ast.Call) and isinstance(c.func, ast.Name) and mod.has(c.func.id)]
        return loops_, preds

    loops_, preds = scan_of(cdj)
    if not loops_ and not preds:
        # the purge split in phases: the scan sits in a helper whose result (the dead set) the purge then drops -
        # look at the helper-transparent view, where the scan is in place again
        loops_, preds = scan_of(flat(ctx, cdj, 2, skip=ACCESSORS + ("get_task",)))
    if loops_:
        for pth in _dt.simplified(_dt.paths(loops_[0].body, stores=True, loops="skip")):
            removed = any(isinstance(e, ast.Call) and isinstance(e.func, ast.Attribute) and e.func.attr == "add" for e in pth.effects)
            if removed or pth.outcome == "raise":
                continue
            n_keep += 1
            lits = lits_of(pth.conds)
            ctx.ob("R6", f"{JB}:_clear_dead_jobs", "a task is kept by the purge only if its process was polled and is still running (`.poll() is None`)", polled_alive(lits), key="purge|kept-without-poll", where=loc(loops_[0]), detail="path: " + "; ".join(("" if p_ else "not ") + t for t, p_ in sorted(lits)))
    elif preds:
        pf = mod.func(preds[0].func.id)
        for pth in _dt.simplified(_dt.paths(pf, loops="skip")):
            if pth.outcome != "return" or pth.value is None:
                continue
            # the ways this return can answer "not dead"
            for alt in _dt.branches(pth.value, False):
                if any(isinstance(e, ast.Constant) and bool(e.value) != (not pol) for e, pol in alt if isinstance(e, ast.Constant)):
                    continue
                if any(isinstance(e, ast.Constant) and bool(e.value) is True and pol is False for e, pol in alt):
                    continue
                lits = lits_of(pth.conds) | {(unparse(e2), p2) for e, pol in alt for e2, p2 in [_dt.normalise(e, pol)]}
                if any(t in ("True",) and not pol for t, pol in lits):
                    continue
                n_keep += 1
                ctx.ob("R6", f"{JB}:{pf.name}", "a task counts as alive only if its process was polled and is still running (`.poll() is None`)", polled_alive(lits), key="purge|kept-without-poll", where=loc(pf), detail="path: " + "; ".join(("" if p_ else "not ") + t for t, p_ in sorted(lits)))
    else:
        raise AnalysisError(f"{JB}:_clear_dead_jobs: neither a collecting loop nor a liveness predicate found")
    if n_keep < 1:
        raise AnalysisError(f"{JB}:_clear_dead_jobs: no keep-path enumerated")

    _resume_contract(ctx, mod)


def _resume_contract(ctx, mod):
    """`bg N`: bg() calls resume_job() and, when that reports success (None), continues "the current job" - the front of
    the order.  So every success path of resume_job must have moved the job it selected to the front."""
    from ..engine import dtable

    fn = mod.func("resume_job")
    st = f"{JB}:resume_job"
    if not any(isinstance(c.func, ast.Attribute) and c.func.attr == "appendleft" for c in calls_in(fn)):
        # the promotion may be a private helper (`_move_to_front(tasks, tid)`)
        fn = flat(ctx, fn, 1, skip=("_clear_dead_jobs", "get_tasks", "get_jobs", "get_task", "print_one_job"))
    ps = dtable.paths(fn, stores=True, loops="skip")
    ok_paths = [p_ for p_ in ps if dtable.feasible(p_) and (p_.outcome == "fall" or (p_.outcome == "return" and (p_.value is None or const_value(p_.value, 0) is None)))]
    if not ok_paths:
        raise AnalysisError(f"{st}: no success path (return None) enumerated")
    bad = None
    n_ok = 0
    for p_ in ok_paths:
        calls = [e.value if isinstance(e, ast.Expr) else e for e in p_.effects]
        calls = [c for c in calls if isinstance(c, ast.Call) and isinstance(c.func, ast.Attribute)]
        front = [unparse(c.args[0]) for c in calls if c.func.attr == "appendleft" and c.args]
        resumed = [unparse(g.args[0]) for c in calls if c.func.attr == "resume" for g in ast.walk(c.func.value) if isinstance(g, ast.Call) and (call_name(g) or "").endswith("get_task") and g.args]
        if front and (not resumed or set(resumed) <= set(front)):
            n_ok += 1
        elif bad is None:
            bad = p_
    ctx.ob("R7", st, f"every path that reports success has put the selected job at the front of the order ({len(ok_paths)} success paths enumerated)", bad is None, key="resume_job|success-without-promotion", where=loc(bad.node) if bad is not None and bad.node is not None else loc(fn), detail=("path: " + "; ".join(bad.cond_texts())[:300]) if bad is not None else None)
    # the caller's side of the contract: after success bg() takes the front of the order
    bgf = mod.func("bg")
    bps = [p_ for p_ in dtable.paths(bgf, stores=True, loops="skip") if any("is None" in t and not t.startswith("not ") and "resume_job" in t for t in p_.cond_texts())]
    ok = bool(bps) and all(any("[0]" in unparse(e) and ("_continue" in unparse(e) or "bg" in unparse(e)) for e in p_.effects) for p_ in bps)
    ctx.ob("R7", f"{JB}:bg", "after a successful resume bg() marks and continues the job at the front of the order", ok, key="bg|acts-on-other-than-front", where=loc(bgf))



def _use_main_jobs_generator(ctx, mod):
    um = mod.func("use_main_jobs")
    cfg = CFG(um)
    swaps = {}
    for n in cfg.nodes:
        if n.kind == "stmt" and isinstance(n.ast, ast.Assign):
            t = dotted(n.ast.targets[0])
            if t in ("_jobs_thread_local.tasks", "_jobs_thread_local.jobs"):
                swaps.setdefault(t, []).append(n)
    udefs = df.all_defs(um)
    for t, nodes in sorted(swaps.items()):
        # a restore writes back a local that captured the view (get_tasks()/get_jobs()) before the swap
        saved = names_bound_to_call(um, lambda nm_: nm_ in ("get_tasks", "get_jobs"), udefs)
        installs = [n for n in nodes if not isinstance(n.ast.value, ast.Name) or n.ast.value.id not in saved]
        restores = [n for n in nodes if n not in installs]
        for n in installs:
            okr = bool(restores)
            path = None
            if okr:
                okr, p = cfg.must_pass(n, lambda m_: m_ in restores)
                path = cfg.fmt_path(p) if p else None
            ctx.ob("R4", f"{JB}:use_main_jobs", f"`{short(n.ast)}` is undone on every exit (normal or exceptional)", okr, key=f"use_main_jobs|{t}|not-restored", where=loc(n.ast), path=path)
        for n in restores:
            src = unparse(n.ast.value)
            d = udefs.get(src, [])
            want = "get_tasks" if t.endswith("tasks") else "get_jobs"
            ok = len(d) == 1 and isinstance(d[0].value, ast.Call) and call_name(d[0].value) == want and all(cfg.dominated(i, lambda m_, d=d: m_.ast is d[0].stmt) for i in installs)
            ctx.ob("R4", f"{JB}:use_main_jobs", f"`{short(n.ast)}` restores the view captured before the swap", ok, key=f"use_main_jobs|{t}|restore-source", where=loc(n.ast))
    if len(swaps) != 2:
        raise AnalysisError(f"{JB}:use_main_jobs: expected swaps of both thread-local fields")


def _use_main_jobs_class(ctx, mod):
    """use_main_jobs written as a class with __enter__/__exit__ (possibly a ContextDecorator).

    Same obligations as for the generator form - both thread-local fields are swapped, __exit__ restores on
    every path what __enter__ captured before the swap - plus the one the class form adds: what is captured
    must belong to *this activation*.  State saved on the instance is per activation only if every entry
    creates its own instance (`with use_main_jobs():`); an instance used as a decorator (`@use_main_jobs()`)
    is created once, at definition time, and - unless _recreate_cm hands out a fresh one - shared by every
    call and every thread, so overlapping activations restore each other's view."""
    cls = mod.cls("use_main_jobs")
    ms = class_methods(cls)
    ent, ext = ms.get("__enter__"), ms.get("__exit__")
    st = f"{JB}:use_main_jobs"
    if ent is None or ext is None:
        raise AnalysisError(f"{st}: a class without __enter__/__exit__")
    fields = ("_jobs_thread_local.tasks", "_jobs_thread_local.jobs")
    ecfg, xcfg = CFG(ent), CFG(ext)
    installs = {t: [n for n in ecfg.nodes if n.kind == "stmt" and isinstance(n.ast, ast.Assign) and dotted(n.ast.targets[0]) == t] for t in fields}
    restores = {t: [n for n in xcfg.nodes if n.kind == "stmt" and isinstance(n.ast, ast.Assign) and dotted(n.ast.targets[0]) == t] for t in fields}
    if not all(installs.values()):
        raise AnalysisError(f"{st}: expected swaps of both thread-local fields in __enter__")
    selfn = param_name(ent, 0, skip_self=False)
    xself = param_name(ext, 0, skip_self=False)
    on_instance = False
    for t in fields:
        want = "get_tasks" if t.endswith("tasks") else "get_jobs"
        rs = restores[t]
        okr = bool(rs)
        path = None
        if okr:
            okr, p_ = xcfg.must_pass(xcfg.entry, lambda m_, rs=rs: m_ in rs, exits=("exit", "raise"))
            path = xcfg.fmt_path(p_) if p_ else None
        for n in installs[t]:
            ctx.ob("R4", st, f"`{short(n.ast)}` is undone on every exit (normal or exceptional)", okr, key=f"use_main_jobs|{t}|not-restored", where=loc(n.ast), path=path)
        for n in rs:
            v = n.ast.value
            ok = False
            if isinstance(v, ast.Attribute) and isinstance(v.value, ast.Name) and v.value.id == xself:
                on_instance = True
                caps = [m for m in ecfg.nodes if m.kind == "stmt" and isinstance(m.ast, ast.Assign) and isinstance(m.ast.targets[0], ast.Attribute) and m.ast.targets[0].attr == v.attr and unparse(m.ast.targets[0].value) == selfn]
                ok = len(caps) == 1 and isinstance(caps[0].ast.value, ast.Call) and call_name(caps[0].ast.value) == want and all(ecfg.dominated(i, lambda m_, c=caps[0]: m_ is c) for i in installs[t])
                # nobody else writes the saved slot
                others = [a for q_, f_ in mod.functions() if f_ is not ent for a in walk_local(f_) if isinstance(a, ast.Attribute) and a.attr == v.attr and isinstance(a.ctx, (ast.Store, ast.Del))]
                ok = ok and not others
            ctx.ob("R4", st, f"`{short(n.ast)}` restores the view captured before the swap", ok, key=f"use_main_jobs|{t}|restore-source", where=loc(n.ast))
    # per-activation state
    if on_instance:
        shared = []
        for q, fn in mod.functions():
            for d in fn.decorator_list:
                if isinstance(d, ast.Call) and call_name(d) == "use_main_jobs":
                    shared.append(q)
        # module-level instances (`_main = use_main_jobs()`) are shared as well
        for a in mod.tree.body:
            if isinstance(a, ast.Assign) and isinstance(a.value, ast.Call) and call_name(a.value) == "use_main_jobs":
                shared.append("<module>")
        fresh = False
        rc = ms.get("_recreate_cm")
        if rc is not None:
            rets = [r for r in walk_local(rc) if isinstance(r, ast.Return) and r.value is not None]
            fresh = bool(rets) and all(isinstance(r.value, ast.Call) and unparse(r.value.func) in ("use_main_jobs", f"type({param_name(rc, 0, skip_self=False)})", f"{param_name(rc, 0, skip_self=False)}.__class__") for r in rets)
        ok = not shared or fresh
        ctx.ob("R4", st, "the view captured at entry is kept per activation: the class saves it on the instance, so no instance may be shared between activations (a decorator instance is created once and serves every call and thread; overlapping activations would restore each other's view)", ok, key="use_main_jobs|saved-view-shared-between-activations", where=loc(cls), detail=f"one instance decorates {sorted(set(shared))}" if not ok else None)


def _commands_purge_first(ctx, mod):
    for q in ("jobs", "resume_job", "disown_fn"):
        fn = flat(ctx, mod.func(q), 1, skip=("_clear_dead_jobs", "get_tasks", "get_jobs", "get_task"))
        cfg = CFG(fn)
        purge = [n for n in cfg.nodes if n.kind == "stmt" and any(call_name(c) == "_clear_dead_jobs" for c in calls_in(n.ast))]
        reads = [n for n in cfg.nodes if n.kind in ("stmt", "if", "for", "while") and any(call_name(c) in ("get_tasks", "get_jobs", "get_task") for c in (calls_in(n.ast) if n.kind == "stmt" else [x for x in ast.walk(n.ast.test if n.kind in ("if", "while") else n.ast.iter) if isinstance(x, ast.Call)]))]
        if not reads:
            raise AnalysisError(f"{JB}:{q}: no read of the job structures found")
        ok = bool(purge) and all(cfg.dominated(r, lambda m: m in purge) for r in reads)
        ctx.ob("R8", f"{JB}:{q}", "finished jobs are purged (_clear_dead_jobs) before the first read of the job structures", ok, key=f"{q}|reads-unpurged-table", where=loc(reads[0].ast))

def _registration_total(ctx):
    """R9: the guard of the add_job call is quantified over every stage."""
    from ..engine import dataflow as _df

    SP = "xonsh/procs/specs.py"
    sp = ctx.repo.module(SP)
    sites = []
    for q, f in sp.functions():
        if any((call_name(c) or "").split(".")[-1] == "add_job" for c in calls_in(f)):
            sites.append((q, f))
    if not sites:
        raise AnalysisError(f"{SP}: no call of add_job found")
    for q, raw in sites:
        fn = flat(ctx, raw, 1, skip=("add_job",))
        st = f"{SP}:{q}"
        defs = _df.all_defs(fn)
        params = [a.arg for a in fn.args.posonlyargs + fn.args.args]
        # names standing for the pipeline object built from the stage list, and for the stage list itself
        # by role: the object built from a parameter (the stage list) that the runner hands back
        returned = {r.value.id for r in walk_local(fn) if isinstance(r, ast.Return) and isinstance(r.value, ast.Name)}
        pipes, lists = set(), set()
        for n, ds in defs.items():
            for d in ds:
                if d.kind == "assign" and d.index is None and isinstance(d.value, ast.Call) and d.value.args and isinstance(d.value.args[0], ast.Name) and d.value.args[0].id in params and n in returned:
                    pipes.add(n)
                    lists.add(d.value.args[0].id)
        if not pipes:
            raise AnalysisError(f"{st}: the pipeline object is not built here")
        whole = lists | {f"{p_}.specs" for p_ in pipes} | {f"{p_}.procs" for p_ in pipes}

        def expand(e, depth=4):
            while depth and isinstance(e, ast.Name):
                d = _df.single_def(defs, e.id)
                if d is None or d.kind != "assign" or d.value is None or d.index is not None:
                    break
                e = d.value
                depth -= 1
            return e

        def is_whole(it):
            it = expand(it)
            return unparse(it) in whole

        cfg = CFG(fn)
        calls = [n for n in cfg.nodes if n.kind == "stmt" and any((call_name(c) or "").split(".")[-1] == "add_job" for c in calls_in(n.ast))]
        if not calls:
            raise AnalysisError(f"{st}: add_job is not called from a plain statement")
        for cn in calls:
            facts = facts_at(cfg, cn)
            quantified = False
            for e, pol in facts:
                e = expand(e)
                if isinstance(e, ast.UnaryOp) and isinstance(e.op, ast.Not):
                    e, pol = e.operand, not pol
                txt = ("" if pol else "not ") + short(e, 60)
                reads_proxy = any(isinstance(x, ast.Attribute) and x.attr == "is_proxy" for x in ast.walk(e))
                if reads_proxy:
                    ok = False
                    why = "judges the pipeline by one stage (or part of the list), not by all of them"
                    if isinstance(e, ast.Call) and call_name(e) in ("all", "any") and e.args and isinstance(e.args[0], (ast.GeneratorExp, ast.ListComp)):
                        g = e.args[0]
                        gen = g.generators[0]
                        tn = {x.id for x in ast.walk(gen.target) if isinstance(x, ast.Name)}
                        elt = g.elt
                        neg = False
                        if isinstance(elt, ast.UnaryOp) and isinstance(elt.op, ast.Not):
                            elt, neg = elt.operand, True
                        plain = isinstance(elt, ast.Attribute) and elt.attr == "is_proxy" and isinstance(elt.value, ast.Name) and elt.value.id in tn
                        form = (call_name(e) == "all" and not neg and not pol) or (call_name(e) == "any" and neg and pol)
                        ok = plain and form and len(g.generators) == 1 and not gen.ifs and is_whole(gen.iter)
                        if plain and form and not is_whole(gen.iter):
                            why = f"quantifies over `{short(gen.iter, 40)}`, not over every stage"
                    elif isinstance(e, ast.Attribute) and e.attr == "is_proxy" and isinstance(e.value, ast.Name) and not pol:
                        # `for s in specs: if not s.is_proxy: add_job(..)` - existential by iteration
                        ds = defs.get(e.value.id, [])
                        ok = bool(ds) and all(d.kind == "for" and d.index is None and is_whole(d.value) for d in ds)
                    quantified = quantified or ok
                    ctx.ob("R9", st, f"the registration guard `{txt}` asks every stage", ok, key=f"{q}|guard-not-over-all-stages|{unparse(e)[:50]}", where=loc(e), detail=None if ok else why + ": a pipeline whose other stages are real processes is never entered in the job table")
                    continue
                # 'there is a process object at all'
                roots = {x.id for x in ast.walk(e) if isinstance(x, ast.Name)}
                nothing = isinstance(e, ast.Compare) and len(e.ops) == 1 and isinstance(e.ops[0], (ast.Is, ast.IsNot)) and const_value(e.comparators[0], 0) is None
                if nothing:
                    continue
                about_cmd = any(isinstance(x, ast.Attribute) and isinstance(expand(x.value) if isinstance(x.value, ast.Name) else x.value, (ast.Name, ast.Attribute, ast.Subscript)) and ({y.id for y in ast.walk(x) if isinstance(y, ast.Name)} & (pipes | lists | set(params))) for x in ast.walk(e)) or bool(roots & {n for n in defs if any(d.kind == "assign" and d.value is not None and ({y.id for y in ast.walk(d.value) if isinstance(y, ast.Name)} & (pipes | lists)) for d in defs[n])})
                if about_cmd:
                    ctx.ob("R9", st, f"no other attribute of the command decides whether it is registered (`{txt}`)", False, key=f"{q}|registration-narrowed|{unparse(e)[:50]}", where=loc(e), detail="pipelines for which this test fails run without a job-table entry")
            ctx.ob("R9", st, "the way to add_job passes a test quantified over every stage (or is unconditional)", quantified or not any(any(isinstance(x, ast.Attribute) and x.attr == "is_proxy" for x in ast.walk(expand(e))) for e, _ in facts), key=f"{q}|guard-shape", where=loc(cn.ast))


META = {
    "technique": "static analysis: who-may-write + effect summaries of every mutator of the two job structures, CFG pairing (must-pass-through/dominance) and reachability of error returns after mutation",
    "text": "Decides, over all paths rather than sampled histories, that the two structures forming the job table "
    "cannot diverge through xonsh's own code: mutations happen only in procs/jobs.py; each function that adds or "
    "removes a member of the deque does the same to the dict with the same number on the same normal paths, or is "
    "a remove+appendleft permutation, or the purge that filters the deque and pops exactly the filtered-out set; "
    "fg/bg/disown cannot reach an error return once either structure was mutated; the allocator purges first and "
    "scans from 1 upward, and add_job registers that number in both; jobs/bg/disown are wrapped in use_main_jobs "
    "whose swap is undone on every exit, fg is unthreadable; inside one function every access to the structures "
    "happens under one view (a number allocated against one table is never registered in another). Interleavings with process exits are not decided.",
    "note": "Decides the listed structural clauses, not the behaviour. Error returns are recognised by the alias "
    "convention `return <out>, <non-empty err>`.",
    "more": 'Also decided: resume_job reports success only after moving the selected job to the front of the order, which is the job bg then continues. An allocator of any shape must establish that the number it returns is not a key of the job dict. use_main_jobs may be a generator-based or a class-based context manager; in the class form the view saved at entry must be per activation (a decorator instance shared by every call and thread is reported).',
}

META["more"] += " Every job command purges finished jobs before its first read of the table (defect repaired in disown). The guard of the add_job call is 'there is a process object' plus a test quantified over every stage of the pipeline."
