"""C15 — alias expansion always terminates and preserves the user's arguments.

Decided: the recursion of ``Aliases.eval_alias`` has a variant (every recursive call
is guarded by "token unseen and token is an alias" and passes a strictly larger seen
set; ``get`` seeds the set with the looked-up key); in every sequence that combines
the alias's own words with the accumulated user arguments the alias's come first and
nothing drops the user's; decorators are collected by a forward scan that stops at the
first non-decorator; the alias table is only accessed by key (definition-order
independence); spec-level resolution tests the alias stack before resolving.
Not decided: user callables' own behaviour.
"""

from __future__ import annotations

import ast

from .common import *

AL = "xonsh/aliases.py"
SP = "xonsh/procs/specs.py"
PX = "xonsh/procs/proxies.py"


def _flatten_seq(defs, expr, cfg_order, depth=0):
    """Flatten a list-building expression into an ordered list of part texts.

    Understands ``a + b``, list literals (with starred parts), ``list(x)``/``tuple(x)``,
    and names bound to a list literal that is then grown by ``.extend/.append`` in
    statement order."""
    if depth > 5:
        return [unparse(expr)]
    if isinstance(expr, ast.BinOp) and isinstance(expr.op, ast.Add):
        return _flatten_seq(defs, expr.left, cfg_order, depth + 1) + _flatten_seq(defs, expr.right, cfg_order, depth + 1)
    if isinstance(expr, (ast.List, ast.Tuple)):
        out = []
        for e in expr.elts:
            if isinstance(e, ast.Starred):
                out += _flatten_seq(defs, e.value, cfg_order, depth + 1)
            else:
                out.append("elt:" + unparse(e))
        return out
    if isinstance(expr, ast.Call) and call_name(expr) in ("list", "tuple") and len(expr.args) == 1:
        return _flatten_seq(defs, expr.args[0], cfg_order, depth + 1)
    return [unparse(expr)]


def _list_builder(fn, name, upto_stmt):
    """Parts of local list ``name`` built by ``name = [..]`` then ``name.extend(x)`` /
    ``name.append(x)`` statements that are siblings preceding ``upto_stmt``."""
    par = parent(upto_stmt)
    body = None
    for fld in ("body", "orelse", "finalbody"):
        b = getattr(par, fld, None)
        if isinstance(b, list) and upto_stmt in b:
            body = b
    if body is None:
        return None
    parts = None
    for s in body:
        if s is upto_stmt:
            break
        if isinstance(s, ast.Assign) and len(s.targets) == 1 and is_name(s.targets[0], name):
            parts = _flatten_seq({}, s.value, None)
        elif isinstance(s, ast.Expr) and isinstance(s.value, ast.Call) and isinstance(s.value.func, ast.Attribute) and is_name(s.value.func.value, name):
            if parts is None:
                return None
            m = s.value.func.attr
            if m == "extend" and s.value.args:
                parts += _flatten_seq({}, s.value.args[0], None)
            elif m == "append" and s.value.args:
                parts.append("elt:" + unparse(s.value.args[0]))
            else:
                return None
        elif isinstance(s, ast.AugAssign) and is_name(s.target, name) and isinstance(s.op, ast.Add):
            if parts is None:
                return None
            parts += _flatten_seq({}, s.value, None)
    return parts


def check(ctx):
    ctx.not_decided += ["behaviour of user-supplied callable aliases", "string alias classification (ExecAlias regex) for all strings"]
    ctx.rule("R1", "every recursive eval_alias call is guarded by `token not in seen and token in table` and passes seen | {token}; get() seeds {key}", floor=4)
    ctx.rule("R2", "alias words precede the accumulated user arguments in every combination, and no return drops the user's arguments", floor=4)
    ctx.rule("R3", "decorator aliases are collected by a forward scan of the value that stops at the first non-decorator", floor=2)
    ctx.rule("R4", "the alias table is accessed only by key in eval_alias/get (no iteration: definition order cannot matter)", floor=3)
    ctx.rule("R6", "the second alias walker (threadability prediction) terminates too: its loop has a budget or a seen-set, and it hands on to the predictor lookup - which can call it again - only a name established not to be an alias", floor=2)
    ctx.rule("R7", "the token list a return-command alias hands back reaches the caller token for token: the normaliser validates it and unwraps the dict form, every value it returns for the command is the list it was given (or `<dict>.get('cmd')`, or a plain copy) - never a filtered, mapped or re-ordered list (the user's arguments travel inside it: an explicit '' is an argument)", floor=2)
    ctx.rule("R5", "spec-level resolution tests the running-alias stack before resolving; the proxy thread pushes the alias name inside the swap", floor=3)

    mod = ctx.repo.module(AL)
    _skip = ("eval_alias", "_normalize_return_command_result", "print_exception", "get", "swap")
    ev = flat(ctx, mod.func("Aliases.eval_alias"), depth=2, skip=_skip)
    get = flat(ctx, mod.func("Aliases.get"), depth=2, skip=_skip)
    st = f"{AL}:Aliases.eval_alias"
    cfg = CFG(ev)
    defs = df.all_defs(ev)
    # the alias's own remaining words: the starred target of the unpacking of the (expanded) alias value
    value_p = param_name(ev, 0)
    rest_names = set()
    for n_ in walk_local(ev):
        if isinstance(n_, ast.Assign) and isinstance(n_.targets[0], ast.Tuple) and value_p in df.names_read(n_.value):
            rest_names |= {t.value.id for t in n_.targets[0].elts if isinstance(t, ast.Starred) and isinstance(t.value, ast.Name)}
    if len(rest_names) != 1:
        raise AnalysisError(f"{AL}:Aliases.eval_alias: the unpacking `token, *rest = <expanded value>` was not found ({sorted(rest_names)})")
    REST = next(iter(rest_names))
    params = [a.arg for a in ev.args.args]
    if not {"seen_tokens", "acc_args"} <= set(params):
        raise AnchorMissing(f"{st}: parameters seen_tokens/acc_args missing")
    seen_p, acc_p = "seen_tokens", "acc_args"
    seen_idx = params.index(seen_p) - 1  # minus self
    acc_idx = params.index(acc_p) - 1

    rec_calls = [c for c in calls_in(ev) if call_name(c) == "self.eval_alias"]
    if not rec_calls:
        raise AnchorMissing(f"{st}: no recursive call")

    def arg_of(c, idx, name):
        for k in c.keywords:
            if k.arg == name:
                return k.value
        return c.args[idx] if idx < len(c.args) else None

    for c in rec_calls:
        node = node_in(cfg, stmt_of(c))[0]
        facts = facts_at(cfg, node)
        # the value looked up:  self._raw[TOKEN]
        v = arg_of(c, 0, "value")
        tok = None
        if isinstance(v, ast.Subscript) and dotted(v.value) == "self._raw":
            tok = unparse(v.slice)
        ctx.ob("R1", st, f"recursive call expands `self._raw[<token>]` ({short(v)})", tok is not None, key="rec|value-not-table-lookup", where=loc(c))
        if tok is None:
            continue
        unseen = any((not pol) and isinstance(e, ast.Compare) and unparse(e.left) == tok and isinstance(e.ops[0], ast.In) and unparse(e.comparators[0]) == seen_p for e, pol in facts) or any(
            pol and isinstance(e, ast.Compare) and unparse(e.left) == tok and isinstance(e.ops[0], ast.NotIn) and unparse(e.comparators[0]) == seen_p for e, pol in facts
        )
        ctx.ob("R1", st, f"recursive call is reached only when `{tok} not in {seen_p}`", unseen, key="rec|unguarded-seen", where=loc(c), detail="facts: " + "; ".join(facts_text(facts)))
        # passed seen set strictly grows by the token
        s_arg = arg_of(c, seen_idx, seen_p)
        grown = False
        why = "seen set passed unchanged"
        cand = []
        if isinstance(s_arg, ast.Name):
            for d in defs.get(s_arg.id, []):
                if d.kind == "assign":
                    dn = cfg.nodes_of(d.stmt)
                    if dn and all(cfg.dominated(node, lambda m, dn=dn: m in dn) for _ in [0]):
                        cand.append(d.value)
        elif s_arg is not None:
            cand.append(s_arg)
        for e in cand:
            if isinstance(e, ast.BinOp) and isinstance(e.op, ast.BitOr):
                sides = [e.left, e.right]
                has_old = any(unparse(x) == seen_p for x in sides)
                has_tok = any(isinstance(x, ast.Set) and any(unparse(y) == tok for y in x.elts) or (isinstance(x, ast.Call) and call_name(x) in ("frozenset", "set") and tok in unparse(x)) for x in sides)
                grown = has_old and has_tok
            elif isinstance(e, ast.Call) and last_attr(e) == "union" and unparse(e.func.value) == seen_p and tok in unparse(e):
                grown = True
            elif isinstance(e, ast.Set) and any(isinstance(y, ast.Starred) and unparse(y.value) == seen_p for y in e.elts) and any(unparse(y) == tok for y in e.elts):
                grown = True
        if s_arg is None:
            why = "seen set not passed (default empty set restarts the variant)"
        ctx.ob("R1", st, f"recursive call passes `{seen_p} | {{{tok}}}` (strictly larger subset of the finite key set)", grown, key="rec|seen-not-grown", where=loc(c), detail=None if grown else why)
        # R2: acc_args passed = rest + acc_args
        a_arg = arg_of(c, acc_idx, acc_p)
        parts = None
        if isinstance(a_arg, ast.Name):
            ds = [d for d in defs.get(a_arg.id, []) if d.kind == "assign" and cfg.nodes_of(d.stmt) and cfg.dominated(node, lambda m, d=d: m in cfg.nodes_of(d.stmt))]
            # the closest dominating assignment wins: choose the one not dominated by others
            if ds:
                last = max(ds, key=lambda d: d.stmt.lineno)
                parts = _flatten_seq(defs, last.value, None)
        elif a_arg is not None:
            parts = _flatten_seq(defs, a_arg, None)
        ok = parts is not None and REST in parts and acc_p in parts and parts.index(REST) < parts.index(acc_p) and len(parts) == 2
        ctx.ob("R2", st, f"recursive call passes accumulated arguments = alias's rest + user's ({parts})", ok, key="rec|acc-order", where=loc(c))
        # decorators/env_out threading
        for nm in ("decorators",):
            dv = arg_of(c, params.index(nm) - 1, nm)
            ctx.ob("R3", st, f"recursive call threads the same `{nm}` collector", dv is not None and unparse(dv) == nm, key=f"rec|{nm}-not-threaded", where=loc(c))

    # returns of eval_alias
    n_ret = 0
    for n in walk_local(ev):
        if not isinstance(n, ast.Return):
            continue
        v = n.value
        if v is None or (isinstance(v, ast.Constant) and v.value is None):
            continue
        if isinstance(v, ast.Call) and v in rec_calls:
            continue
        n_ret += 1
        if isinstance(v, ast.Name):
            parts = _list_builder(ev, v.id, n)
        else:
            parts = _flatten_seq(defs, v, None)
        ok = parts is not None and acc_p in parts
        order_ok = True
        if ok and REST in parts:
            order_ok = parts.index(REST) < parts.index(acc_p)
        if ok:
            # the command word comes first
            order_ok = order_ok and parts[0].startswith("elt:") and parts[-1] == acc_p
        ctx.ob("R2", st, f"`{short(n)}` yields command word, alias words, then the user's arguments, in that order ({parts})", bool(ok and order_ok), key=f"return|{unparse(v)}", where=loc(n))
    if n_ret < 2:
        raise AnalysisError(f"{st}: expected >= 2 list-producing returns, found {n_ret}")
    # acc_args is only re-bound by `rest + list(acc_args)` or to empty after being handed to a return_command alias
    for d in defs.get(acc_p, []):
        if d.kind == "param":
            continue
        parts = _flatten_seq(defs, d.value, None) if d.value is not None else None
        empt = isinstance(d.value, (ast.List, ast.Tuple)) and not d.value.elts
        ok = empt or (parts is not None and parts[-1] == acc_p and len(parts) == 2 and parts[0] == REST)
        if empt:
            # must follow a call that received acc_args (return_command alias consumed them)
            prev = [c for c in calls_in(ev) if any(unparse(a) == acc_p for a in c.args) and c.lineno <= d.stmt.lineno and c not in rec_calls and call_name(c) not in ("list", "tuple")]
            ok = bool(prev)
        ctx.ob("R2", st, f"`{short(d.stmt)}` keeps the user's arguments last (or hands them to the return-command alias)", ok, key=f"acc-rebind|{unparse(d.value)}", where=loc(d.stmt))

    # token, *rest = map(expand_path, value): rest are the alias's own words
    rest_defs = defs.get(REST, [])
    ctx.ob("R2", st, f"`{REST}` is bound exactly once, from the alias value", len(rest_defs) == 1 and value_p in df.names_read(rest_defs[0].value) if rest_defs else False, key="rest-binding")

    # ---- get(): seeds and passes args
    gst = f"{AL}:Aliases.get"
    gdefs = df.all_defs(get)
    gcalls = [c for c in calls_in(get) if call_name(c) == "self.eval_alias"]
    if not gcalls:
        raise AnchorMissing(f"{gst}: does not call eval_alias")
    lookups = [c for c in calls_in(get) if call_name(c) == "self._raw.get"]
    keyname = unparse(lookups[0].args[0]) if lookups and lookups[0].args else None
    for c in gcalls:
        s_arg = arg_of(c, seen_idx, seen_p)
        ok = isinstance(s_arg, ast.Set) and len(s_arg.elts) == 1 and unparse(s_arg.elts[0]) == keyname
        ctx.ob("R1", gst, f"get() seeds the seen set with the looked-up key ({short(s_arg) if s_arg is not None else None})", ok, key="get|seed", where=loc(c))
        a_arg = arg_of(c, acc_idx, acc_p)
        ok2 = False
        if isinstance(a_arg, ast.Name):
            vals = []
            for d in gdefs.get(a_arg.id, []):
                if d.kind == "assign":
                    vals.append(d.value)
                elif d.kind == "unpack" and isinstance(d.value, (ast.Tuple, ast.List)) and d.index is not None and d.index < len(d.value.elts):
                    vals.append(d.value.elts[d.index])
            shapes = {unparse(v) for v in vals}
            # args = [] | key[1:] | [] after a return_command alias consumed them
            ok2 = any(isinstance(v, ast.Subscript) and isinstance(v.slice, ast.Slice) and const_value(v.slice.lower) == 1 and v.slice.upper is None for v in vals) and all(
                (isinstance(v, ast.List) and not v.elts) or (isinstance(v, ast.Subscript) and isinstance(v.slice, ast.Slice) and const_value(v.slice.lower) == 1 and v.slice.upper is None and v.slice.step is None) for v in vals
            )
            del shapes
        ctx.ob("R2", gst, "get() passes key[1:] (all user arguments, in order) as the accumulated arguments", ok2, key="get|acc-args", where=loc(c))

    # ---- R3 forward scan
    dec_names = copies_of(df.all_defs(ev), "decorators")
    value_names = copies_of(df.all_defs(ev), value_p)
    appends = [c for c in calls_in(ev) if isinstance(c.func, ast.Attribute) and c.func.attr == "append" and unparse(c.func.value) in dec_names and not getattr(stmt_of(c), "_xv_call_marker", False)]
    if not appends:
        raise AnchorMissing(f"{st}: no decorators.append")
    for c in appends:
        loop = next((a for a in ancestors(c) if isinstance(a, (ast.For, ast.While))), None)
        ok = isinstance(loop, ast.For) and isinstance(loop.iter, ast.Name) and loop.iter.id in value_names
        ctx.ob("R3", st, "decorators are appended inside a forward `for v in value` scan", ok, key="dec|not-forward-scan", where=loc(c))
        if ok:
            hdr = node_in(cfg, loop)[0]
            app_nodes = node_in(cfg, stmt_of(c))
            # from the loop header's iter edge back to the header without appending => keeps scanning past a non-decorator
            starts = [m for m, l in hdr.succ if l == "iter"]
            seen = cfg.reach(starts, stop=lambda m: m in app_nodes or m is hdr, include_starts=True)
            skip = hdr in seen and not all(s in app_nodes for s in starts)
            ctx.ob("R3", st, "the scan stops at the first word that is not a decorator alias", not skip, key="dec|scan-continues-past-non-decorator", where=loc(loop), path=cfg.fmt_path(cfg.path_to(seen, hdr)) if skip else None)

    # ---- R4 table access by key only
    for q, fn in (("Aliases.eval_alias", ev), ("Aliases.get", get)):
        for n in walk_local(fn):
            if isinstance(n, ast.Attribute) and dotted(n) == "self._raw":
                p = parent(n)
                by_key = (
                    (isinstance(p, ast.Subscript) and p.value is n)
                    or (isinstance(p, ast.Compare) and n in p.comparators and all(isinstance(o, (ast.In, ast.NotIn)) for o in p.ops))
                    or (isinstance(p, ast.Attribute) and p.attr == "get" and isinstance(parent(p), ast.Call))
                )
                ctx.ob("R4", f"{AL}:{q}", f"`{short(stmt_of(n), 60)}` accesses the alias table by key", by_key, key=f"{q}|table-iterated|{short(p, 40)}", where=loc(n))

    # ---- R5 spec level
    sm = ctx.repo.module(SP)
    ra = sm.func("SubprocSpec.resolve_alias")
    rcfg = CFG(ra)
    rdefs = df.all_defs(ra)
    gets = [c for c in calls_in(ra) if (call_name(c) or "").endswith("aliases.get")]
    if not gets:
        raise AnchorMissing(f"{SP}:SubprocSpec.resolve_alias no aliases.get call")
    for c in gets:
        node = node_in(rcfg, stmt_of(c))[0]
        facts = facts_at(rcfg, node)
        ok = any((not pol) and isinstance(e, ast.Compare) and isinstance(e.ops[0], ast.In) and unparse(e.comparators[0]) == "self.alias_stack" for e, pol in facts)
        ctx.ob("R5", f"{SP}:SubprocSpec.resolve_alias", "aliases.get(...) is reached only if cmd[0] is not in the running-alias stack", ok, key="resolve_alias|no-stack-test", where=loc(c), detail="facts: " + "; ".join(facts_text(facts)))
        a0 = c.args[0] if c.args else None
        ctx.ob("R2", f"{SP}:SubprocSpec.resolve_alias", "the whole command (word + user arguments) is handed to aliases.get", a0 is not None and unparse(a0) == "self.cmd", key="resolve_alias|cmd-arg", where=loc(c))
    init = sm.func("SubprocSpec.__init__")
    ok = any(isinstance(n, ast.Assign) and any(dotted(t) == "self.alias_stack" for t in n.targets) and "__ALIAS_STACK" in unparse(n.value) for n in walk_local(init))
    ctx.ob("R5", f"{SP}:SubprocSpec.__init__", "alias_stack is read from $__ALIAS_STACK", ok, key="init|alias-stack-source")
    pm = ctx.repo.module(PX)
    run = pm.func("ProcProxyThread.run")
    swaps = [c for c in calls_in(run) if (call_name(c) or "").endswith("env.swap")]
    ok = any(any(k.arg == "__ALIAS_STACK" for k in c.keywords) for c in swaps)
    ctx.ob("R5", f"{PX}:ProcProxyThread.run", "the alias body runs inside a swap that extends $__ALIAS_STACK", ok, key="run|no-alias-stack-swap")
    del rdefs


    # ---- R3 (cont.): what the chain collected is attached to the stage completely and in order
    spm = ctx.repo.module("xonsh/procs/specs.py")
    ra = spm.func("SubprocSpec.resolve_alias")
    rdefs_ = df.all_defs(ra)
    gets = [c for c in calls_in(ra) if (call_name(c) or "").endswith("aliases.get")]
    if not gets:
        raise AnchorMissing("xonsh/procs/specs.py:SubprocSpec.resolve_alias: call of aliases.get")
    coll = {unparse(kwarg(c, "decorators")) for c in gets if kwarg(c, "decorators") is not None}
    if len(coll) != 1:
        raise AnalysisError(f"xonsh/procs/specs.py:SubprocSpec.resolve_alias: decorators collector not passed to aliases.get ({sorted(coll)})")
    COLL = next(iter(coll))
    loops_ = [l for l in walk_local(ra) if isinstance(l, ast.For) and unparse(l.iter) == COLL]
    ok_iter = len(loops_) == 1
    ctx.ob("R3", "xonsh/procs/specs.py:SubprocSpec.resolve_alias", f"the collected decorators `{COLL}` are iterated as collected (one plain loop: not reversed, sorted or made unique)", ok_iter, key="resolve_alias|decorators-iteration", where=loc(ra))
    for l in loops_:
        bcfg_ = CFG(l.body)
        adds = [n for n in bcfg_.nodes if n.kind == "stmt" and any(call_name(c) == "self.add_decorator" and c.args and unparse(c.args[0]) == unparse(l.target) for c in calls_in(n.ast))]
        ok_all, pth_ = bcfg_.must_pass(bcfg_.entry, lambda m_: m_ in adds, exits=("exit",)) if adds else (False, None)
        ctx.ob("R3", "xonsh/procs/specs.py:SubprocSpec.resolve_alias", "every collected decorator is attached, unconditionally (a later decorator overrides an earlier one: dropping a repeated one changes the result)", ok_all, key="resolve_alias|decorator-skipped", where=loc(l), path=bcfg_.fmt_path(pth_) if pth_ else None)
    ad = spm.func("SubprocSpec.add_decorator")
    acfg_ = CFG(ad)
    apps = [n for n in acfg_.nodes if n.kind == "stmt" and any(isinstance(c.func, ast.Attribute) and c.func.attr == "append" and "decorators" in unparse(c.func.value) for c in calls_in(n.ast))]
    ok_app, _p = acfg_.must_pass(acfg_.entry, lambda m_: m_ in apps, exits=("exit",)) if apps else (False, None)
    ctx.ob("R3", "xonsh/procs/specs.py:SubprocSpec.add_decorator", "add_decorator appends to the stage's list on every path (order of arrival kept)", ok_app, key="add_decorator|append", where=loc(ad))

    _predictor_walker(ctx)
    _return_command_tokens_kept(ctx)


def _module_scope_rebinds(tree, name):
    """number of bindings of ``name`` in the module's own scope (function and class bodies are other scopes)"""
    cnt, todo = 0, [tree]
    while todo:
        for ch in ast.iter_child_nodes(todo.pop()):
            if isinstance(ch, FuncTypes + (ast.ClassDef,)):
                cnt += ch.name == name
                continue
            if isinstance(ch, ast.Lambda):
                continue
            if isinstance(ch, ast.Name) and ch.id == name and isinstance(ch.ctx, (ast.Store, ast.Del)):
                cnt += 1
            elif isinstance(ch, (ast.Import, ast.ImportFrom)):
                cnt += sum(1 for al in ch.names if al.name == "*" or (al.asname or al.name.split(".")[0]) == name)
            elif isinstance(ch, (ast.ExceptHandler, ast.MatchAs, ast.MatchStar)) and ch.name == name:
                cnt += 1
            elif isinstance(ch, ast.MatchMapping) and ch.rest == name:
                cnt += 1
            todo.append(ch)
    return cnt


def _fixed_int(ctx, mod, defs, e, outside=None, depth=4):
    """The integer ``e`` always evaluates to, or None when that cannot be established.

    A literal; a local bound exactly once (a plain assignment, not inside ``outside``) to such a value; or a
    module-level name bound exactly once in its module to such a value, never declared global/nonlocal in a function
    of the module and never stored to as an attribute / by setattr of that name / through a ``globals()`` item anywhere in the
    package (so nothing can give it another value at run time)."""
    if depth <= 0:
        return None
    v = const_value(e, None)
    if isinstance(v, int) and not isinstance(v, bool):
        return v
    if isinstance(e, ast.UnaryOp) and isinstance(e.op, (ast.USub, ast.UAdd)):
        v = _fixed_int(ctx, mod, defs, e.operand, outside, depth - 1)
        return None if v is None else (-v if isinstance(e.op, ast.USub) else v)
    if not isinstance(e, ast.Name):
        return None
    ds = defs.get(e.id, []) if defs is not None else []
    if ds:  # a local (or a parameter: never fixed)
        if len(ds) != 1 or ds[0].kind != "assign" or ds[0].value is None or (outside is not None and lexically_inside(ds[0].stmt, outside)):
            return None
        return _fixed_int(ctx, mod, defs, ds[0].value, outside, depth - 1)
    asg = mod.assigns.get(e.id, [])
    if len(asg) != 1 or _module_scope_rebinds(mod.tree, e.id) != 1 or getattr(asg[0], "value", None) is None:
        return None
    if isinstance(asg[0], ast.Assign) and not (len(asg[0].targets) == 1 and isinstance(asg[0].targets[0], ast.Name)):
        return None
    if any(isinstance(n, (ast.Global, ast.Nonlocal)) and e.id in n.names for n in ast.walk(mod.tree)):
        return None
    for m in ctx.repo.modules("xonsh", containing=e.id):
        if e.id not in m.src:
            continue
        for n in ast.walk(m.tree):
            if isinstance(n, ast.Attribute) and n.attr == e.id and isinstance(n.ctx, (ast.Store, ast.Del)):
                return None
            if isinstance(n, ast.Call) and call_name(n) in ("setattr", "delattr") and len(n.args) >= 2 and const_value(n.args[1], None) == e.id:
                return None
            if isinstance(n, ast.Subscript) and isinstance(n.ctx, (ast.Store, ast.Del)) and const_value(n.slice, None) == e.id:
                return None
    return _fixed_int(ctx, mod, None, asg[0].value, None, depth - 1)


def _predictor_walker(ctx):
    CCF = "xonsh/commands_cache.py"
    cm = ctx.repo.module(CCF)
    fn = cm.func("CommandsCache.default_predictor_alias")
    st = f"{CCF}:CommandsCache.default_predictor_alias"
    cfg = CFG(fn)
    defs = df.all_defs(fn)
    loops = [n for n in walk_local(fn) if isinstance(n, ast.While)]
    # a `for _ in range(N)` walker is bounded by construction (the membership test is then an `if ... break` in its body)
    bounded = [n for n in walk_local(fn) if isinstance(n, ast.For) and isinstance(n.iter, ast.Call) and call_name(n.iter) == "range" and not any(isinstance(x, ast.Name) and isinstance(n.target, ast.Name) and x.id == n.target.id and isinstance(x.ctx, ast.Store) for b in n.body for x in ast.walk(b))]
    table = None
    for w in loops + bounded:
        scope = [w.test] if isinstance(w, ast.While) else w.body
        ins = [c for s_ in scope for c in ast.walk(s_) if isinstance(c, ast.Compare) and len(c.ops) == 1 and isinstance(c.ops[0], (ast.In, ast.NotIn)) and isinstance(c.comparators[0], ast.Attribute) and unparse(c.comparators[0].value) == "self"]
        if ins:
            table = unparse(ins[0].comparators[0])
    if not (loops or bounded) or table is None:
        raise AnchorMissing(f"{st}: the loop that follows the alias chain (`while name in self.<table>` / `for _ in range(N)` with the test inside)")
    for w in bounded:
        ctx.ob("R6", st, f"`for {short(w.target)} in {short(w.iter, 40)}` is bounded by its range (the loop variable is not rebound)", True, key="predictor-walker|loop-without-variant", where=loc(w))
    for w in loops:
        # variant A: a counter initialised to a positive constant, decremented in the body, with an exit when it is used up
        budget = None
        for n in ast.walk(w):
            if isinstance(n, ast.AugAssign) and isinstance(n.op, ast.Sub) and const_value(n.value, None) == 1 and isinstance(n.target, ast.Name):
                ds = [d for d in defs.get(n.target.id, []) if d.kind == "assign"]
                # the start value: a positive integer literal, or a name that can only ever hold one (a once-bound local / module-level constant)
                start = _fixed_int(ctx, cm, defs, ds[0].value, outside=w) if len(ds) == 1 else None
                init_ok = start is not None and start > 0 and not lexically_inside(ds[0].stmt, w)
                nd = cfg.nodes_of(n)
                every_iter = bool(nd) and not [x for x in walk_local(w) if isinstance(x, ast.Continue)]  # no way round the decrement to the next iteration
                exits = [i for i in ast.walk(w) if isinstance(i, ast.If) and n.target.id in unparse(i.test) and any(isinstance(b, (ast.Return, ast.Break, ast.Raise)) for b in i.body)] or ([w] if n.target.id in unparse(w.test) else [])
                if init_ok and every_iter and exits:
                    budget = n.target.id
        # variant B: a set of visited names, tested in the loop condition and grown in the body
        seen = None
        for c in ast.walk(w.test):
            if isinstance(c, ast.Compare) and len(c.ops) == 1 and isinstance(c.ops[0], ast.NotIn) and isinstance(c.comparators[0], ast.Name):
                sname = c.comparators[0].id
                grows = [x for x in calls_in(w) if isinstance(x.func, ast.Attribute) and x.func.attr == "add" and unparse(x.func.value) == sname and x.args and unparse(x.args[0]) == unparse(c.left)]
                if grows and isinstance(w.test, ast.BoolOp) and isinstance(w.test.op, ast.And):
                    seen = sname
        ctx.ob("R6", st, f"`while {short(w.test, 50)}` has a variant: " + (f"budget `{budget}`" if budget else f"visited set `{seen}`" if seen else "none recognised"), bool(budget or seen), key="predictor-walker|loop-without-variant", where=loc(w))
    # the onward call: predictor lookup -> default_predictor -> this walker again, if the name is an alias
    onward = [c for c in calls_in(fn) if (call_name(c) or "").endswith("get_predictor_threadable") and c.args]
    if not onward:
        raise AnchorMissing(f"{st}: the onward call of get_predictor_threadable")
    back = cm.func("CommandsCache.default_predictor")
    reenters = any((call_name(c) or "").endswith("default_predictor_alias") for c in calls_in(back))
    for c in onward:
        arg = unparse(c.args[0])
        facts = set()
        for nd in cfg.nodes_of(stmt_of(c)):
            facts |= nfacts(cfg, nd)
        ok = (not reenters) or (f"{arg} in {table}", False) in facts
        ctx.ob("R6", st, f"`{short(c, 50)}` is reached only when `{arg} in {table}` is known to be false (otherwise the lookup comes back here with a fresh state: unbounded recursion on a cycle)", ok, key="predictor-walker|onward-call-with-alias-name", where=loc(c), detail="facts: " + "; ".join(sorted(("" if p_ else "not ") + t for t, p_ in facts)))



def _return_command_tokens_kept(ctx):
    am = ctx.repo.module(AL)
    fn = am.func("_normalize_return_command_result")
    st = f"{AL}:_normalize_return_command_result"
    vp = param_name(fn, 0, skip_self=False)
    defs = df.all_defs(fn)
    # the names that can hold the command list: the parameter and whatever is returned in first place
    holders = {vp}
    for r in [r for r in walk_local(fn) if isinstance(r, ast.Return) and r.value is not None]:
        v = r.value.elts[0] if isinstance(r.value, ast.Tuple) and r.value.elts else r.value
        if isinstance(v, ast.Name):
            holders.add(v.id)
    n = 0
    for nm in sorted(holders):
        for d in defs.get(nm, []):
            if d.value is None or d.kind != "assign":
                continue
            n += 1
            v = d.value
            kept = (isinstance(v, ast.Name) and v.id in holders) or (isinstance(v, ast.Call) and isinstance(v.func, ast.Attribute) and v.func.attr in ("get", "pop", "copy") and unparse(v.func.value) in holders) or (isinstance(v, ast.Call) and call_name(v) == "list" and len(v.args) == 1 and unparse(v.args[0]) in holders) or (isinstance(v, ast.Subscript) and unparse(v.value) in holders and isinstance(v.slice, ast.Constant))
            ctx.ob("R7", st, f"`{nm} = {short(v, 50)}` hands the returned tokens on as they are", kept, key="normalize|tokens-rewritten", where=loc(d.stmt), detail=None if kept else "a comprehension / filter / map over the token list drops or rewrites what the user passed")
    if n < 1:
        raise AnalysisError(f"{st}: no definition of the command list found")
    ctx.ob("R7", st, f"{n} definition(s) of the command list examined", True, key="normalize|examined")

META = {
    "technique": "static analysis: recursion-variant check via CFG guard facts + def-use of the seen set, sequence-order analysis of list constructions, table-access-shape rule",
    "text": "Decides for all alias tables (the quantifier that examples cannot cover) the structural reasons the "
    "property holds: every recursive eval_alias call is control-dependent on `token not in seen_tokens` and on the "
    "token being a table key, and passes `seen_tokens | {token}` (a strictly growing subset of a finite key set, "
    "hence termination); get() seeds the set with the key; wherever alias words and accumulated user arguments "
    "are combined (rest + acc_args, rtn.extend order, [value] + acc_args) the alias's come first and every "
    "list-producing return ends with the user's arguments; decorators come from a forward scan that stops at "
    "the first non-decorator; the table is read by key only; spec resolution tests $__ALIAS_STACK first. "
    "Behaviour of user callables is out of reach.",
    "note": "Decides the listed structural clauses, not the behaviour. Trusted: frozenset union, list concatenation.",
    "more": "Also decided: the threadability predictor's alias walker has a loop variant and reaches the onward predictor lookup only with a name known not to be an alias (no unbounded mutual recursion on a cycle). The return-command normaliser hands the returned token list on as it is (no filtering or mapping of tokens: the user's arguments travel inside it).",
}
