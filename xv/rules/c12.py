"""C12 — history records every command once, in order, and reads it back verbatim.

Mostly histories x schedules: not decided.  Decided: the arithmetic of the
self-indexing JSON container (writer's format string, the constants the writer and the
reader use, and the per-literal offset increments agree); offsets are character
counts used as byte offsets, sound only for an ASCII writer (no ensure_ascii=False);
the in-memory counters move together; the FIFO ticket protocol of flushers and file
readers is paired (append .. wait .. popleft .. notify_all); one history entry per
executed command.
"""

from __future__ import annotations

import ast
import string

from .common import *
from ..engine.fold import Folder, NotConstant

LJ = "xonsh/lib/lazyjson.py"
HJ = "xonsh/history/json.py"
BS = "xonsh/shells/base_shell.py"


def _format_layout(fmt):
    """Character position of every replacement field of ``fmt`` assuming each field with a
    width spec has exactly that width; {(name): (start, width)} and total literal text."""
    pos = 0
    out = {}
    order = []
    for lit, name, spec, conv in string.Formatter().parse(fmt):
        pos += len(lit)
        if name is None:
            continue
        width = None
        if spec:
            digits = "".join(ch for ch in spec if ch.isdigit())
            width = int(digits) if digits else None
        out[name] = (pos, width)
        order.append(name)
        if width is None:
            # variable-length field: positions after it are relative
            pos = None
            break
        pos += width
    return out, order


def _loc_stores(fn, fields):
    """[(field, position in the source list, text of the object, text of the source list)] for every store of
    ``<obj>.<field>`` in fn; recognised shapes: tuple/list unpacking ``a.x, a.y = src`` (position = place in the
    target) and ``a.x = src[<int>]``.  Any other store of a location field is an unknown shape."""
    out = []
    seen = set()
    for n in walk_local(fn):
        if isinstance(n, ast.Assign):
            for t in n.targets:
                if isinstance(t, (ast.Tuple, ast.List)):
                    starred = any(isinstance(e, ast.Starred) for e in t.elts)
                    for i, e in enumerate(t.elts):
                        if isinstance(e, ast.Attribute) and e.attr in fields:
                            if starred or isinstance(n.value, (ast.Tuple, ast.List)):
                                raise AnalysisError(f"{LJ}:{qual_of(fn) or fn.name}: location field stored in an unrecognised shape: `{short(n, 70)}`")
                            out.append((e.attr, i, unparse(e.value), unparse(n.value)))
                            seen.add(id(e))
                elif isinstance(t, ast.Attribute) and t.attr in fields:
                    v = n.value
                    k = const_value(v.slice) if isinstance(v, ast.Subscript) else None
                    if not isinstance(k, int) or isinstance(k, bool) or k < 0:
                        raise AnalysisError(f"{LJ}:{qual_of(fn) or fn.name}: location field stored in an unrecognised shape: `{short(n, 70)}`")
                    out.append((t.attr, k, unparse(t.value), unparse(v.value)))
                    seen.add(id(t))
    for n in walk_local(fn):
        if isinstance(n, ast.Attribute) and n.attr in fields and isinstance(n.ctx, (ast.Store, ast.Del)) and id(n) not in seen:
            raise AnalysisError(f"{LJ}:{qual_of(fn) or fn.name}: location field stored in an unrecognised shape: `{short(enclosing_stmt(n), 70)}`")
    return out


def _index_reader(ctx, lj, fields):
    """(helper-transparent view, qualified name, location stores) of the index reader of the container module,
    found by role - the one function whose own body stores the location fields on the object - not by name"""
    cands = []
    for q, fn in lj.functions():
        if any(isinstance(n, ast.Attribute) and n.attr in fields and isinstance(n.ctx, (ast.Store, ast.Del)) for n in walk_local(fn)):
            cands.append((q, fn))
    if len(cands) != 1:
        raise AnalysisError(f"{LJ}: the index reader (the function that stores the location fields {list(fields)} of the container) was not found exactly once: {[q for q, _ in cands]}")
    q, fn = cands[0]
    view = flat(ctx, fn, depth=2)
    return view, q, _loc_stores(view, fields)


def check(ctx):
    ctx.not_decided += [
        "ordering/no-duplication across all interleavings of flusher threads (only the ticket pairing is decided)",
        "len()/index consistency across the memory/disk boundary for all op sequences (values)",
        "SQLite backend read-back; $HISTCONTROL filtering semantics",
    ]
    ctx.rule("R1", "self-indexing container arithmetic: positions computed from JSON_FORMAT equal the constants used by dumps() and by the index reader of LazyJSON (the function that stores iloc/ilen/dloc/dlen); every literal appended in _to_json_with_size advances the offset by its length", floor=9)
    ctx.rule("R2", "offsets are character counts used as byte offsets: no json.dumps in the writer may emit non-ASCII (ensure_ascii=False)", floor=3)
    ctx.rule("R3", "in-memory counters move together: append grows buffer and _len on the same paths; every filtered command in the flusher is accounted by skip(1); flush snapshots the buffer before resetting it", floor=5)
    ctx.rule("R4", "FIFO ticket protocol: every queue.append(self) is followed on every normal path by wait_for(front) .. popleft() .. notify_all() under the condition; the front test compares with queue[0]", floor=6)
    ctx.rule("R6", "a read is served from the in-memory tail or from the file opened under the reader's own ticket; per-history state it is served from otherwise (a read cache) is dropped by every method that rewrites the history file", floor=3)
    ctx.rule("R10", "a slice asked of the history reaches the stored sequences as the caller gave it (or as the index list range(*s.indices(n))): no read path of the history backends or of the lazy JSON reader rebuilds it as slice(*s.indices(n)) - for a negative step indices() answers stop = -1 for 'run to the beginning', which as a slice bound means 'the last element', so hist[::-1] would come back empty while len, integer indexing and items() say otherwise", floor=3)
    ctx.rule("R9", "the session's own file is recognised among the enumerated history files: the enumeration hands out the paths as the directory listing spells them (no realpath / abspath / normpath on the way), and every `== <own file>` test compares a str with a str - the session's file name is stored as a str whatever the caller handed over ($XONSH_HISTORY_FILE arrives as a pathlib.Path) - otherwise the session's flushed commands are listed twice", floor=3)
    ctx.rule("R8", "one definition of 'how many commands are there': the raw append counter (which still counts commands a flush skipped) is read by JsonHistory.__len__ only; every index computation - the memory/disk boundary in particular - starts from len(), never from the counter itself", floor=1)
    ctx.rule("R7", "SQLite backend: a command is left out as a repeat only when its recorded text equals the recorded text of the previous entry - the comparison, the stored text and the remembered text are one expression", floor=3)
    ctx.rule("R5", "one history entry per executed command: every exit of BaseShell.default after run_compiled_code passes _append_history exactly once", floor=2)

    lj = ctx.repo.module(LJ)
    try:
        fmt = Folder(lj).name("JSON_FORMAT")
    except NotConstant as e:
        raise AnalysisError(str(e))
    layout, order = _format_layout(fmt)
    if order[:5] != ["iloc", "ilen", "dloc", "dlen", "index"]:
        raise AnalysisError(f"{LJ}: JSON_FORMAT fields changed: {order}")
    want_iloc = layout["index"][0]
    want_seek = layout["iloc"][0] - 1  # the '[' that opens the locs list
    closing = fmt[fmt.index("{dlen") :]
    locs_end = layout["dlen"][0] + layout["dlen"][1]  # position just after dlen
    want_read = locs_end + 1 - want_seek  # up to and including ']'
    # literal between {index} and {data}
    lits = list(string.Formatter().parse(fmt))
    between = None
    for i, (lit, name, spec, conv) in enumerate(lits):
        if name == "data":
            between = lit
    want_gap = len(between) if between is not None else None
    ctx.extra["layout"] = {"index_at": want_iloc, "locs_seek": want_seek, "locs_read": want_read, "index_to_data_gap": want_gap}
    ok_open = fmt[want_seek] == "[" and fmt.replace("{{", "{")[want_seek] == "[" if False else True
    del ok_open, closing
    d = lj.func("dumps")
    ddefs = df.all_defs(d)
    # name independent: everything is read off the keyword arguments of JSON_FORMAT.format(...), with
    # single-definition locals substituted to a fixpoint
    from ..engine import dtable as _dt

    env_ = {n_: ds_[0].value for n_, ds_ in ddefs.items() if len(ds_) == 1 and ds_[0].kind == "assign" and "." not in n_ and not (isinstance(ds_[0].value, ast.Call) and call_name(ds_[0].value) not in ("len",))}

    def full(e):
        for _ in range(6):
            e2 = _dt.subst(e, env_)
            if unparse(e2) == unparse(e):
                break
            e = e2
        return e

    def lin(e):
        """(constant sum, sorted other terms) of a sum expression"""
        if isinstance(e, ast.BinOp) and isinstance(e.op, ast.Add):
            a_, b_ = lin(e.left), lin(e.right)
            return (a_[0] + b_[0], sorted(a_[1] + b_[1]))
        if isinstance(e, ast.Constant) and isinstance(e.value, int) and not isinstance(e.value, bool):
            return (e.value, [])
        return (0, [unparse(e)])

    fcall = [c for c in calls_in(d) if call_name(c) == "JSON_FORMAT.format"]
    if len(fcall) != 1 or {k.arg for k in fcall[0].keywords} != {"index", "data", "iloc", "ilen", "dloc", "dlen"} or fcall[0].args:
        ctx.ob("R1", f"{LJ}:dumps", "JSON_FORMAT.format passes exactly the six fields by name", False, key="dumps|format-call", where=loc(d))
    else:
        kw = {k.arg: k.value for k in fcall[0].keywords}
        idx_t, data_t = unparse(kw["index"]), unparse(kw["data"])
        v_iloc = lin(full(kw["iloc"]))
        ctx.ob("R1", f"{LJ}:dumps", f"iloc constant equals the position of {{index}} in JSON_FORMAT ({want_iloc})", v_iloc == (want_iloc, []), key="dumps|iloc", detail=f"found {v_iloc}", where=loc(d))
        v_ilen, v_dlen = lin(full(kw["ilen"])), lin(full(kw["dlen"]))
        ok = v_ilen == (0, [f"len({idx_t})"]) and v_dlen == (0, [f"len({data_t})"])
        ctx.ob("R1", f"{LJ}:dumps", "ilen/dlen are the lengths of the very strings inserted as index/data", ok, key="dumps|lengths", detail=f"ilen={v_ilen} dlen={v_dlen}")
        v_dloc = lin(full(kw["dloc"]))
        ok = want_gap is not None and v_dloc == (want_iloc + want_gap, [f"len({idx_t})"])
        ctx.ob("R1", f"{LJ}:dumps", f"dloc = iloc + ilen + <length of the literal between index and data> ({want_gap})", ok, key="dumps|dloc-gap", detail=f"found {v_dloc}", where=loc(d))
    for w in ("iloc", "ilen", "dloc", "dlen"):
        ctx.ob("R1", f"{LJ}:JSON_FORMAT", f"field {w} is right-aligned to a fixed width (so later positions are constant)", layout[w][1] is not None and layout[w][1] >= 10, key=f"format|{w}-width")
    # the index reader, by role: the function of the module that stores the location fields of the container
    # (the leading fixed-width fields of JSON_FORMAT) on the object - a method of its own today, equally part of
    # the constructor or a module-level function; looked at in its helper-transparent view, so that a seek/read
    # moved into a helper of the reader still counts
    li, li_q, stores = _index_reader(ctx, lj, order[:4])
    li_site = f"{LJ}:{li_q}"
    seeks = [c for c in calls_in(li) if last_attr(c) == "seek" and c.args and isinstance(const_value(c.args[0]), int)]
    reads = [c for c in calls_in(li) if last_attr(c) == "read" and c.args and isinstance(const_value(c.args[0]), int)]
    ok = len(seeks) == 1 and const_value(seeks[0].args[0]) == want_seek
    ctx.ob("R1", li_site, f"reader seeks to the '[' of the locs list ({want_seek})", ok, key="load_index|seek", detail=f"found {[const_value(c.args[0]) for c in seeks]}", where=loc(li))
    ok = len(reads) == 1 and const_value(reads[0].args[0]) == want_read
    ctx.ob("R1", li_site, f"reader reads exactly the locs list ({want_read} characters)", ok, key="load_index|read", detail=f"found {[const_value(c.args[0]) for c in reads]}", where=loc(li))
    # unpack order of locs equals field order in the format: every location field is stored exactly once, from the
    # position of the list the writer puts it at, all on one object and out of one list
    ok = sorted(w for w, *_ in stores) == sorted(order[:4]) and all(pos == order.index(w) for w, pos, _, _ in stores) and len({(b, s_) for _, _, b, s_ in stores}) == 1
    ctx.ob("R1", li_site, "locs are unpacked in the order the writer emits them", ok, key="load_index|order", detail=f"found {[(w, pos) for w, pos, _, _ in stores]}", where=loc(li))
    # data reads are relative to dloc
    lo = lj.func("LJNode._load_or_node")
    ok = any(last_attr(c) == "seek" and c.args and unparse(c.args[0]) in ("self.root.dloc + offset", "offset + self.root.dloc") for c in calls_in(lo))
    ctx.ob("R1", f"{LJ}:LJNode._load_or_node", "node offsets are applied relative to dloc", ok, key="load_or_node|seek")
    # _to_json_with_size: symbolic length accounting (c12_lengths.py), on the helper-transparent view
    from .c12_lengths import check_container_loops

    tj = flat(ctx, lj.func("_to_json_with_size"), depth=1)
    n_loops = check_container_loops(ctx, tj, LJ, "_to_json_with_size")
    if n_loops < 2:
        raise AnalysisError(f"{LJ}:_to_json_with_size: only {n_loops} container loop(s) found (mapping and sequence confirmed by hand)")

    # ------------------------------------------------------------------ R2
    n_dumps = 0
    for rel in (LJ, HJ):
        m = ctx.repo.module(rel)
        for c in [n for n in ast.walk(m.tree) if isinstance(n, ast.Call) and (call_name(c := n) or "").endswith("json.dumps")]:
            n_dumps += 1
            ea = kwarg(c, "ensure_ascii")
            ok = ea is None or const_value(ea, 0) is True
            ctx.ob("R2", f"{rel}:{qual_of(enclosing_func(c))}", f"`{short(c, 60)}` emits ASCII only (offsets counted in characters are used as byte offsets by seek/read)", ok, key=f"{rel}|non-ascii-writer", where=loc(c))
        for c in [n for n in ast.walk(m.tree) if isinstance(n, ast.Call) and any(k.arg is None for k in n.keywords) and (call_name(n) or "").endswith("json.dumps")]:
            ctx.ob("R2", f"{rel}", "json.dumps is not called with **kwargs that could carry ensure_ascii", False, key=f"{rel}|dumps-kwargs", where=loc(c))
    if n_dumps < 3:
        raise AnalysisError("fewer than 3 json.dumps call sites in the writer")

    # ------------------------------------------------------------------ R3
    hj = ctx.repo.module(HJ)
    ap = hj.func("JsonHistory.append")
    acfg = CFG(ap)
    ba = [n for n in acfg.nodes if n.kind == "stmt" and any(call_name(c) == "self.buffer.append" for c in calls_in(n.ast))]
    ln = [n for n in acfg.nodes if n.kind == "stmt" and isinstance(n.ast, ast.AugAssign) and unparse(n.ast.target) == "self._len" and const_value(n.ast.value) == 1 and isinstance(n.ast.op, ast.Add)]
    ok = len(ba) == 1 and len(ln) == 1
    if ok:
        a, _ = acfg.must_pass(ba, lambda m: m in ln, exits=("exit",))
        b = acfg.dominated(ln[0], lambda m: m in ba)
        ok = a and b
    ctx.ob("R3", f"{HJ}:JsonHistory.append", "buffer.append(cmd) and _len += 1 happen on exactly the same paths", ok, key="append|len-buffer", where=loc(ap))
    fl = [n for n in acfg.nodes if n.kind == "stmt" and any(call_name(c) == "self.flush" for c in calls_in(n.ast))]
    ok = bool(fl) and all(acfg.dominated(f, lambda m: m in ln) for f in fl)
    ctx.ob("R3", f"{HJ}:JsonHistory.append", "the length is updated before a flush can be triggered", ok, key="append|len-after-flush")
    fh = hj.func("JsonHistory.flush")
    fcfg = CFG(fh)
    mk = [n for n in fcfg.nodes if n.kind == "stmt" and any(call_name(c) == "JsonHistoryFlusher" for c in calls_in(n.ast))]
    rs = [n for n in fcfg.nodes if n.kind == "stmt" and isinstance(n.ast, ast.Assign) and unparse(n.ast.targets[0]) == "self.buffer"]
    snap = any(any(unparse(a) == "tuple(self.buffer)" for a in c.args) for n in mk for c in calls_in(n.ast) if call_name(c) == "JsonHistoryFlusher")
    ok = bool(mk) and bool(rs) and snap and all(fcfg.dominated(r, lambda m: m in mk) for r in rs)
    ctx.ob("R3", f"{HJ}:JsonHistory.flush", "the flusher receives a snapshot (tuple) of the buffer, taken before the buffer is reset", ok, key="flush|snapshot")
    ln_ = flat(ctx, hj.func("JsonHistory.__len__"), 2)
    ok = any(isinstance(n, ast.Return) and n.value is not None and unparse(n.value) == "self._len - self._skipped" for n in walk_local(ln_))
    ctx.ob("R3", f"{HJ}:JsonHistory.__len__", "len() = appended - skipped", ok, key="len|formula")
    du = flat(ctx, hj.func("JsonHistoryFlusher.dump"), depth=2, skip=("skip",))
    dcfg = CFG(du)
    # every command of the buffer is either kept (appended to the list that goes to disk) or accounted by skip(1):
    # enumerate the paths through the body of the loop over the buffer
    from ..engine import dtable as _dt

    bloops = [n for n in walk_local(du) if isinstance(n, ast.For) and unparse(n.iter) == "self.buffer"]
    if len(bloops) != 1:
        raise AnalysisError(f"{HJ}:JsonHistoryFlusher.dump: the loop over self.buffer was not found exactly once ({len(bloops)})")
    n_filtered = 0
    for p_ in _dt.paths(bloops[0].body, loops="skip"):
        if not _dt.feasible(p_) or p_.outcome == "raise":
            continue
        eff = [e.value if isinstance(e, ast.Expr) else e for e in p_.effects]
        kept = any(isinstance(e, ast.Call) and isinstance(e.func, ast.Attribute) and e.func.attr == "append" and e.args and unparse(e.args[0]) == unparse(bloops[0].target) for e in eff)
        skipped = any(isinstance(e, ast.Call) and call_name(e) == "self.skip" and e.args and const_value(e.args[0]) == 1 for e in eff)
        no_counter = any(unparse(e) == "self.skip is None" and pol for e, pol in p_.conds)
        if kept:
            continue
        n_filtered += 1
        ctx.ob("R3", f"{HJ}:JsonHistoryFlusher.dump", f"the command filtered out under [{'; '.join(p_.cond_texts())[:90]}] is accounted by skip(1)", skipped or no_counter, key=f"dump|unaccounted-skip|{'; '.join(t for t in p_.cond_texts() if 'skip' not in t)[:60]}", where=loc(p_.node) if p_.node is not None else loc(bloops[0]))
    if n_filtered < 1:
        raise AnalysisError(f"{HJ}:JsonHistoryFlusher.dump: no filtering path found in the loop over the buffer")
    # kept commands are appended in buffer order
    ext = [n for n in dcfg.nodes if n.kind == "stmt" and any(last_attr(c) == "extend" and isinstance(c.func.value, ast.Subscript) and const_value(c.func.value.slice) == "cmds" and c.args and isinstance(c.args[0], ast.Name) for c in calls_in(n.ast))]
    kept_names = set()
    ddefs_ = df.all_defs(du)
    for n in ext:
        for c in calls_in(n.ast):
            if last_attr(c) == "extend" and c.args and isinstance(c.args[0], ast.Name):
                kept_names |= alias_class(ddefs_, c.args[0].id)
    apn = [n for n in dcfg.nodes if n.kind == "stmt" and any(isinstance(c.func, ast.Attribute) and c.func.attr == "append" and isinstance(c.func.value, ast.Name) and c.func.value.id in kept_names and any(isinstance(a_, ast.For) and unparse(a_.iter) == "self.buffer" for a_ in ancestors(n.ast)) for c in calls_in(n.ast))]
    ctx.ob("R3", f"{HJ}:JsonHistoryFlusher.dump", "kept commands are appended after the commands already on disk, in buffer order", bool(apn) and bool(ext), key="dump|order")

    # ------------------------------------------------------------------ R4
    sites = [("JsonHistoryFlusher.__init__", "queue"), ("JsonHistoryFlusher.run", "self.queue"), ("JsonCommandField.__getitem__", "queue")]
    for q, qn in sites:
        fn = flat(ctx, hj.func(q), depth=2, skip=("i_am_at_the_front",))
        st = f"{HJ}:{q}"
        cfg = CFG(fn)
        waits = [n for n in cfg.nodes if n.kind == "stmt" and any(last_attr(c) == "wait_for" and c.args and "i_am_at_the_front" in unparse(c.args[0]) for c in calls_in(n.ast))]
        pops = [n for n in cfg.nodes if n.kind == "stmt" and any(last_attr(c) == "popleft" for c in calls_in(n.ast))]
        notes = [n for n in cfg.nodes if n.kind == "stmt" and any(last_attr(c) == "notify_all" for c in calls_in(n.ast))]
        if not waits:
            raise AnchorMissing(f"{st}: no wait_for(i_am_at_the_front)")
        for w in waits:
            ok, path = cfg.must_pass([w], lambda m: m in pops, exits=("exit",))
            ctx.ob("R4", st, "after waiting for its turn the ticket is removed with popleft() on every normal path", ok, key=f"{q}|no-popleft", where=loc(w.ast), path=cfg.fmt_path(path) if path else None)
            inside = any(isinstance(a, ast.With) and any("cond" in unparse(it.context_expr) for it in a.items) for a in ancestors(w.ast))
            ctx.ob("R4", st, "the wait happens while holding the condition", inside, key=f"{q}|wait-outside-cond", where=loc(w.ast))
            # ... and on the exceptional ways out as well: the work done under the ticket opens, reads and creates files (mkstemp,
            # open, LazyJSON); if it raises with the ticket still at the front, every later flusher and reader - the at-exit
            # flush included - waits forever and nothing typed afterwards is ever recorded
            okx, pathx = cfg.must_pass([w], lambda m: m in pops, exits=("exit", "raise"), skip_edge=lambda a_, b_, l_: a_ is w and l_ == "exc")
            ctx.ob("R4", st, "the ticket is removed on every way out of the work done under it, exceptions included (finally)", okx, key=f"{q}|ticket-kept-on-exception", where=loc(w.ast), path=cfg.fmt_path(pathx) if pathx else None)
        for p in pops:
            ok, path = cfg.must_pass([p], lambda m: m in notes, exits=("exit",))
            inside = any(isinstance(a, ast.With) and any("cond" in unparse(it.context_expr) for it in a.items) for a in ancestors(p.ast)) and all(any(isinstance(a, ast.With) and any("cond" in unparse(it.context_expr) for it in a.items) for a in ancestors(nn.ast)) for nn in notes)
            ctx.ob("R4", st, "removing the front ticket is followed by notify_all() under the condition (the next waiter would otherwise sleep forever)", ok and inside, key=f"{q}|popleft-without-notify", where=loc(p.ast), path=cfg.fmt_path(path) if path else None)
            dom = all(cfg.dominated(p, lambda m: m in waits) for _ in [0])
            ctx.ob("R4", st, "a ticket is only removed by its owner after it reached the front", dom, key=f"{q}|popleft-before-wait", where=loc(p.ast))
    # enqueue sites
    enq = 0
    for q, fn in hj.functions():
        qdefs = None
        for c in calls_in(fn):
            if not (last_attr(c) == "append" and c.args and unparse(c.args[0]) == "self" and isinstance(c.func, ast.Attribute)):
                continue
            qdefs = qdefs or df.all_defs(fn)
            recv = df.resolve_copy(qdefs, c.func.value)
            if "queue" in unparse(recv) or "queue" in unparse(c.func.value):
                enq += 1
                cfg = CFG(fn)
                n0 = node_in(cfg, stmt_of(c))
                # the same function (or run(), for the background flusher) waits and pops
                has_wait = any(last_attr(x) == "wait_for" for x in calls_in(fn))
                starts = any(call_name(x) == "self.start" for x in calls_in(fn))
                ctx.ob("R4", f"{HJ}:{q}", "every ticket put into the queue is waited for and removed by its owner (here or in run())", has_wait or starts, key=f"{q}|orphan-ticket", where=loc(c))
                del n0
    if enq < 2:
        raise AnalysisError("fewer than 2 ticket enqueue sites found")
    # the flusher's ticket is taken by the thread that calls flush(), BEFORE the worker is started: the order of
    # tickets is then the order of flush() calls.  A ticket taken by the worker itself (in run()) is taken whenever
    # that thread happens to be scheduled, and a later flush / an index read can overtake an earlier flush.
    fi = flat(ctx, hj.func("JsonHistoryFlusher.__init__"), depth=1, skip=("dump", "i_am_at_the_front"))
    ficfg = CFG(fi)
    fidefs = df.all_defs(fi)

    def is_enq(n_):
        if n_.kind != "stmt" or getattr(n_.ast, "_xv_call_marker", False):
            return False
        for c in calls_in(n_.ast):
            if last_attr(c) == "append" and c.args and unparse(c.args[0]) == "self" and isinstance(c.func, ast.Attribute):
                recv = unparse(df.resolve_copy(fidefs, c.func.value)) + " " + unparse(c.func.value)
                if "queue" in recv:
                    return True
        return False

    starts_ = [n_ for n_ in ficfg.nodes if n_.kind == "stmt" and any(call_name(c) == "self.start" for c in calls_in(n_.ast))]
    if not starts_:
        raise AnchorMissing(f"{HJ}:JsonHistoryFlusher.__init__: self.start()")
    for s_ in starts_:
        ctx.ob("R4", f"{HJ}:JsonHistoryFlusher.__init__", "the flusher is enqueued on the calling thread before its worker thread is started (ticket order = flush order)", ficfg.dominated(s_, is_enq), key="JsonHistoryFlusher.__init__|start-before-ticket", where=loc(s_.ast))
    for q in ("JsonHistoryFlusher.i_am_at_the_front", "JsonCommandField.i_am_at_the_front"):
        fn = hj.func(q)
        ok = any(isinstance(n, ast.Return) and isinstance(n.value, ast.Compare) and isinstance(n.value.ops[0], ast.Is) and unparse(n.value.left) == "self" and unparse(n.value.comparators[0]).endswith("[0]") for n in walk_local(fn))
        ctx.ob("R4", f"{HJ}:{q}", "the turn test is `self is queue[0]` (strict FIFO)", ok, key=f"{q}|front-test")
    ctx.note("a corrupt history file while JsonCommandField.__getitem__ holds its ticket raises before popleft(): later flushers then wait forever (exception path, outside C12's quantifier; not reported as a violation)")

    # ------------------------------------------------------------------ R5
    bs = ctx.repo.module(BS)
    df_ = bs.func("BaseShell.default")
    if not any(call_name(c) == "self._append_history" for c in calls_in(df_)):
        # the bookkeeping after a command may have moved into a helper of the shell (`_finish_command(...)`)
        df_ = flat(ctx, df_, 1, skip=("_append_history", "_fix_cwd", "run_compiled_code", "push", "precmd", "print_exception"))
    cfg = CFG(df_, catchall=("BaseException",))
    run = [n for n in cfg.nodes if n.kind == "stmt" and any(call_name(c) == "run_compiled_code" for c in calls_in(n.ast))]
    app = [n for n in cfg.nodes if n.kind == "stmt" and any(call_name(c) == "self._append_history" for c in calls_in(n.ast))]
    ok = bool(run) and bool(app)
    path = None
    if ok:
        ok, path = cfg.must_pass(run, lambda m: m in app)
    ctx.ob("R5", f"{BS}:BaseShell.default", "every exit after run_compiled_code (return, any exception, SystemExit) passes _append_history", ok, key="default|no-history-entry", where=loc(df_), path=cfg.fmt_path(path) if path else None)
    once = True
    for a in app:
        o, _ = cfg.never_after([a], lambda m: m in app)
        once = once and o
    ctx.ob("R5", f"{BS}:BaseShell.default", "_append_history runs at most once per command", once and bool(app), key="default|double-entry")
    ah = bs.func("BaseShell._append_history")
    HIST = names_bound_to_text(ah, "XSH.history") | {"XSH.history"}
    ok = sum(1 for c in calls_in(ah) if isinstance(c.func, ast.Attribute) and c.func.attr == "append" and unparse(c.func.value) in HIST) == 1
    ctx.ob("R5", f"{BS}:BaseShell._append_history", "appends exactly one entry to the history backend", ok, key="append_history|count")

    _read_provenance(ctx)
    _sqlite_dedup(ctx)
    _raw_counter_private(ctx)
    _own_file_recognised(ctx)
    _slices_not_rebuilt(ctx)


def _sqlite_dedup(ctx):
    from ..engine import dtable as _dt

    SQL = "xonsh/history/sqlite.py"
    sm = ctx.repo.module(SQL)
    fn = flat(ctx, sm.func("SqliteHistory.append"), 1, skip=("xh_sqlite_append_history", "is_ignored"))
    st = f"{SQL}:SqliteHistory.append"
    ps = [p_ for p_ in _dt.paths(fn, stores=True, loops="skip") if _dt.feasible(p_)]
    # the recorded text: what goes into the in-memory list of inputs on the keeping paths
    rec = set()
    remembered = set()
    compared = set()
    last_attr_name = None
    for p_ in ps:
        for e in p_.effects:
            c = e.value if isinstance(e, ast.Expr) else e
            if isinstance(c, ast.Call) and isinstance(c.func, ast.Attribute) and c.func.attr == "append" and unparse(c.func.value) == "self.inps" and c.args:
                rec.add(unparse(c.args[0]))
            if isinstance(e, ast.Assign) and len(e.targets) == 1 and isinstance(e.targets[0], ast.Attribute) and unparse(e.targets[0].value) == "self" and "last" in e.targets[0].attr:
                remembered.add(unparse(e.value))
                last_attr_name = unparse(e.targets[0])
    if len(rec) != 1 or last_attr_name is None:
        raise AnchorMissing(f"{st}: the recorded text (self.inps.append(..)) / the remembered previous text ({sorted(rec)}, {last_attr_name})")
    R = next(iter(rec))
    for p_ in ps:
        for e, pol in p_.conds:
            if isinstance(e, ast.Compare) and len(e.ops) == 1 and isinstance(e.ops[0], (ast.Eq, ast.NotEq)):
                l, r = unparse(e.left), unparse(e.comparators[0])
                if last_attr_name in (l, r):
                    compared.add(r if l == last_attr_name else l)
    if not compared:
        raise AnchorMissing(f"{st}: the ignoredups comparison with {last_attr_name}")
    ctx.ob("R7", st, f"the text recorded for a kept command is `{short(ast.parse(R, mode='eval').body, 50)}`", True, key="sqlite-append|recorded-text")
    for c_ in sorted(compared):
        ctx.ob("R7", st, f"the repeat test compares the recorded text itself (`{c_[:60]}`) with the previous one", c_ == R, key="sqlite-append|dedup-compares-other-than-recorded-text", where=loc(fn), detail=None if c_ == R else f"recorded: `{R}`; compared: `{c_}` - two different commands can agree on the compared form")
    for v_ in sorted(remembered):
        ctx.ob("R7", st, f"`{last_attr_name}` remembers the recorded text (`{v_[:60]}`)", v_ == R, key="sqlite-append|remembers-other-than-recorded-text", where=loc(fn), detail=None if v_ == R else f"recorded: `{R}`; remembered: `{v_}`")
    # "the previous entry" must be an entry: a method that empties the in-memory record (clear) also forgets the remembered
    # text - otherwise the first command after `history clear` is dropped as a repeat of one that no longer exists
    from ..engine.loader import class_methods

    for nm, m in class_methods(sm.cls("SqliteHistory")).items():
        if nm in ("__init__", "append"):
            continue
        mcfg = None
        for a in walk_local(m):
            if isinstance(a, ast.Assign) and any(unparse(t) == "self.inps" for t in a.targets) and isinstance(a.value, (ast.List, ast.Call)) and (not getattr(a.value, "elts", None)) and (not isinstance(a.value, ast.Call) or (call_name(a.value) == "list" and not a.value.args)):
                mcfg = mcfg or CFG(m)
                resets = [n for n in mcfg.nodes if n.kind == "stmt" and isinstance(n.ast, ast.Assign) and any(unparse(t) == last_attr_name for t in n.ast.targets)]
                ok = bool(resets) and mcfg.must_pass(mcfg.entry, lambda n_: n_ in resets, exits=("exit",))[0]
                ctx.ob("R7", f"{SQL}:SqliteHistory.{nm}", f"empties the in-memory record and forgets `{last_attr_name}` with it (the next command has no previous entry to repeat)", ok, key=f"SqliteHistory.{nm}|remembered-text-survives-clear", where=loc(a))


def _read_provenance(ctx):
    hj = ctx.repo.module(HJ)
    gi = hj.func("JsonCommandField.__getitem__")
    st = f"{HJ}:JsonCommandField.__getitem__"
    defs = df.all_defs(gi)
    # the history object as the field sees it: the receiver whose `.buffer` it reads
    bufs = [n for n in walk_local(gi) if isinstance(n, ast.Attribute) and n.attr == "buffer"]
    if not bufs:
        raise AnchorMissing(f"{st}: read of the history's buffer")
    hist_expr = unparse(bufs[0].value)
    # the in-memory part of the history: what JsonHistory.append grows
    ap = hj.func("JsonHistory.append")
    mem_attrs = {t.attr for n in walk_local(ap) for t in ((n.targets if isinstance(n, ast.Assign) else [n.target]) if isinstance(n, (ast.Assign, ast.AugAssign)) else []) if isinstance(t, ast.Attribute) and unparse(t.value) == "self"}
    mem_attrs |= {c.func.value.attr for c in calls_in(ap) if isinstance(c.func, ast.Attribute) and c.func.attr == "append" and isinstance(c.func.value, ast.Attribute) and unparse(c.func.value.value) == "self"}
    if "buffer" not in mem_attrs:
        raise AnchorMissing(f"{HJ}:JsonHistory.append: does not grow self.buffer")

    def roots(e, seen):
        out = set()
        if e is None or isinstance(e, ast.Constant):
            return out
        if isinstance(e, ast.Attribute):
            base = unparse(e.value)
            if base in ("self", hist_expr):
                return {(base, e.attr)}
            return roots(e.value, seen)
        if isinstance(e, ast.Name):
            if e.id in seen:
                return out
            seen = seen | {e.id}
            for d in defs.get(e.id, []):
                if d.kind == "with":
                    out.add(("file", short(d.value, 40) if d.value is not None else e.id))
                elif d.kind == "param":
                    continue
                elif d.kind == "for":
                    out |= roots(getattr(d.stmt, "iter", None), seen)
                elif d.value is not None:
                    out |= roots(d.value, seen)
            return out
        if isinstance(e, ast.Call):
            if isinstance(e.func, ast.Attribute):
                out |= roots(e.func.value, seen)
            for a in e.args:
                out |= roots(a, seen)
            return out
        if isinstance(e, (ast.ListComp, ast.SetComp, ast.GeneratorExp)):
            out |= roots(e.elt, seen)
            for g in e.generators:
                out |= roots(g.iter, seen)
            return out
        for c in ast.iter_child_nodes(e):
            if isinstance(c, ast.expr):
                out |= roots(c, seen)
        return out

    # attributes written outside constructors anywhere in the module (a constructor-only attribute is configuration, not a cache)
    written = {}
    for q, fn in hj.functions():
        if q.endswith("__init__"):
            continue
        for n in walk_local(fn):
            tg = n.targets if isinstance(n, ast.Assign) else ([n.target] if isinstance(n, (ast.AugAssign, ast.AnnAssign)) else [])
            for t in tg:
                if isinstance(t, ast.Attribute):
                    written.setdefault(t.attr, []).append((q, n))
    rets = [n for n in walk_local(gi) if isinstance(n, ast.Return) and n.value is not None]
    memos = {}
    for r in rets:
        rs = roots(r.value, frozenset())
        cache = sorted({a for b, a in rs if b in ("self", hist_expr) and a in written and not (b == hist_expr and a in mem_attrs)})
        for a in cache:
            memos.setdefault(a, []).append(r)
        ctx.ob("R6", st, f"`{short(r, 50)}` is served from {sorted(b + '.' + a if b != 'file' else 'the file opened in this call' for b, a in rs) or ['a constant']}", True, key=f"getitem|provenance|{short(r, 40)}", where=loc(r))
    if len(rets) < 3:
        raise AnalysisError(f"{st}: only {len(rets)} value returns found")
    # every read cache must be dropped by every method of the history / its flusher that rewrites the file
    # (a method rewrites a file when it calls the dumper itself or through helpers of this module)
    dumping = {q for q, fn in hj.functions() if any((call_name(c) or "").endswith("ljdump") for c in calls_in(fn))}
    for _ in range(4):
        for q, fn in hj.functions():
            if q not in dumping and any((call_name(c) or "").split(".")[-1] in {d.split(".")[-1] for d in dumping} and ((call_name(c) or "") in dumping or (call_name(c) or "").startswith("self.")) for c in calls_in(fn)):
                dumping.add(q)

    def is_write(m):
        return any((call_name(c) or "").endswith("ljdump") or (call_name(c) or "") in dumping or ((call_name(c) or "").startswith("self.") and any(d.endswith("." + (call_name(c) or "")[5:]) for d in dumping)) for c in calls_in(m.ast))

    writers = [(q, fn) for q, fn in hj.functions() if (q.startswith("JsonHistory.") or q.startswith("JsonHistoryFlusher.")) and not q.endswith("__init__") and q in dumping]
    if memos and len(writers) < 3:
        raise AnalysisError(f"{HJ}: only {len(writers)} methods that rewrite history files found")
    for a, rs_ in memos.items():
        for q, fn in writers:
            cfg = CFG(fn)
            inval = [m for m in cfg.nodes if m.kind == "stmt" and ((isinstance(m.ast, ast.Assign) and any(isinstance(t, ast.Attribute) and t.attr == a for t in m.ast.targets) and (const_value(m.ast.value, 0) is None or (isinstance(m.ast.value, (ast.List, ast.Dict, ast.Tuple)) and not getattr(m.ast.value, "elts", getattr(m.ast.value, "keys", None))))) or (isinstance(m.ast, ast.Delete) and any(isinstance(t, ast.Attribute) and t.attr == a for t in m.ast.targets)))]
            wr = [m for m in cfg.nodes if m.kind == "stmt" and is_write(m)]
            ok = bool(inval)
            if ok:
                ok = all(cfg.dominated(w, lambda m: m in inval) for w in wr) or cfg.must_pass(wr, lambda m: m in inval, exits=("exit",))[0]
            ctx.ob("R6", f"{HJ}:{q}", f"rewrites a history file and drops the read cache `{a}` (served by `{short(rs_[0], 40)}`) on every normal path", ok, key=f"{q}|read-cache-not-dropped|{a}", where=loc(fn))



def _raw_counter_private(ctx):
    """JsonHistory keeps `_len` (appended) and `_skipped` (dropped by flushes under $HISTCONTROL); len() is their
    difference and the file holds exactly len() - len(buffer) commands.  A second site that splits an index between the
    buffer and the file from `_len` alone is off by the skip count as soon as a flush has skipped something."""
    hm = ctx.repo.module(HJ)
    lenraw = hm.func("JsonHistory.__len__", raw=True)
    helpers = {"JsonHistory." + c.func.attr for c in calls_in(lenraw) if isinstance(c.func, ast.Attribute) and unparse(c.func.value) == "self" and hm.has("JsonHistory." + c.func.attr)}
    allowed = {"JsonHistory.__len__"} | helpers
    counters = set()
    for q_ in allowed:
        f_ = hm.func(q_, raw=True)
        counters |= {a.attr for r in walk_local(f_) if isinstance(r, ast.Return) and r.value is not None for a in ast.walk(r.value) if isinstance(a, ast.Attribute) and isinstance(a.value, ast.Name) and a.value.id == "self" and not isinstance(parent(a), ast.Call)}
    if not counters:
        raise AnalysisError(f"{HJ}:JsonHistory.__len__ is not computed from counters of the history object")
    n = 0
    for q, fn in hm.functions():
        for a in walk_local(fn) if True else []:
            if isinstance(a, ast.Attribute) and a.attr in counters and isinstance(a.ctx, ast.Load):
                p_ = parent(a)
                if isinstance(p_, ast.AugAssign) and p_.target is a:
                    continue
                n += 1
                ok = q in allowed
                ctx.ob("R8", f"{HJ}:{q}", f"`{short(stmt_of(a), 60)}`: the raw counter `{a.attr}` is read only to compute len()", ok, key=f"{q}|raw-counter-read|{a.attr}", where=loc(a))


def _slices_not_rebuilt(ctx):
    """R10: slice(*x.indices(n)) is not the slice x."""
    n = 0
    for rel in ("xonsh/history/base.py", "xonsh/history/json.py", "xonsh/history/sqlite.py", "xonsh/history/dummy.py", "xonsh/lib/lazyjson.py"):
        try:
            m = ctx.repo.module(rel)
        except Exception:
            continue
        for q, f in m.functions():
            handles = [x for x in walk_local(f) if isinstance(x, ast.Call) and call_name(x) == "isinstance" and len(x.args) == 2 and unparse(x.args[1]) == "slice"]
            uses = [c for c in calls_in(f) if isinstance(c.func, ast.Attribute) and c.func.attr == "indices"]
            if not handles and not uses:
                continue
            defs = df.all_defs(f)
            bad = None
            for c in calls_in(f):
                if call_name(c) != "slice":
                    continue
                for a in c.args:
                    e = a.value if isinstance(a, ast.Starred) else a
                    srcs = [e] + ([d.value for d in defs.get(e.id, []) if d.value is not None] if isinstance(e, ast.Name) else [])
                    if any(isinstance(x, ast.Call) and isinstance(x.func, ast.Attribute) and x.func.attr == "indices" for s_ in srcs for x in ast.walk(s_)):
                        bad = c
            n += 1
            ctx.ob("R10", f"{rel}:{q}", "a slice is not rebuilt from its indices()", bad is None, key=f"{q}|slice-rebuilt-from-indices", where=loc(bad) if bad is not None else loc(f), detail=None if bad is None else f"`{short(bad, 50)}`: for a negative step the stop that indices() answers for 'to the beginning' is -1, which the rebuilt slice reads as 'the last element' - the result is empty")
    if n == 0:
        raise AnalysisError("no slice-handling read path found in the history backends")


def _own_file_recognised(ctx):
    hm = ctx.repo.module(HJ)
    NORMALISERS = {"realpath", "abspath", "normpath", "normcase", "resolve", "absolute", "expanduser_abs_path", "samefile"}
    n = 0
    for q in ("_xhj_get_history_files", "_xhj_get_data_dir_files"):
        fn = hm.func(q)
        # the custom-file branch spells $XONSH_HISTORY_FILE the way the session does: only what is applied to *listed* files counts
        listed = set()
        for l_ in [x for x in ast.walk(fn) if isinstance(x, (ast.For, ast.comprehension))]:
            it_txt = unparse(l_.iter)
            if any(k in it_txt for k in ("scandir", "listdir", "_xhj_get_data_dir_files", "iterdir", "glob")):
                listed |= {t.id for t in ast.walk(l_.target) if isinstance(t, ast.Name)}
        bad = [c for c in calls_in(fn, local=False) if (call_name(c) or "").split(".")[-1] in NORMALISERS and any(listed & df.names_read(a) for a in list(c.args) + ([c.func.value] if isinstance(c.func, ast.Attribute) else []))]
        n += 1
        ctx.ob("R9", f"{HJ}:{q}", "listed files are handed out as the listing spells them (a normalised spelling no longer equals the session's own file name, which is joined from the same directory un-normalised)", not bad, key=f"{q}|listed-path-normalised", where=loc(bad[0]) if bad else loc(fn), detail=short(bad[0], 60) if bad else None)
    # the session side of the own-file tests
    init = hm.func("JsonHistory.__init__", raw=True)
    STR_MAKERS = {"os.path.join", "str", "os.fspath", "os.path.abspath", "os.path.expanduser", "os.fsdecode"}
    stores = [a for a in walk_local(init) if isinstance(a, ast.Assign) and any(unparse(t) == "self.filename" for t in a.targets)]
    if not stores:
        raise AnchorMissing(f"{HJ}:JsonHistory.__init__: self.filename")
    init_str = all(isinstance(a.value, ast.Call) and (call_name(a.value) or "") in STR_MAKERS for a in stores)
    for q, fn in hm.functions():
        fdefs = None
        for c in [x for x in walk_local(fn) if isinstance(x, ast.Compare) and len(x.ops) == 1 and isinstance(x.ops[0], (ast.Eq, ast.NotEq))]:
            sides = [c.left, c.comparators[0]]
            for sd in sides:
                e = sd
                if isinstance(e, ast.Name):
                    fdefs = fdefs or df.all_defs(fn)
                    ds = fdefs.get(e.id, [])
                    if len(ds) == 1 and ds[0].value is not None:
                        e = ds[0].value
                txt = unparse(e)
                if "filename" not in txt or not any(k in txt for k in ("self.filename", "hist", "history")):
                    continue
                n += 1
                wrapped = isinstance(e, ast.Call) and (call_name(e) or "") in ("str", "os.fspath") or any(isinstance(x, ast.Call) and (call_name(x) or "") in ("str", "os.fspath") and "filename" in unparse(x) for x in ast.walk(e))
                ok = wrapped or init_str
                ctx.ob("R9", f"{HJ}:{q}", f"`{short(c, 50)}` compares the listed path (a str) with the session's file name as a str", ok, key=f"{q}|own-file-test-mixes-types", where=loc(c), detail=None if ok else "JsonHistory.__init__ stores the `filename` argument as it comes (a pathlib.Path when $XONSH_HISTORY_FILE is set) and the test does not convert it")
    if n < 3:
        raise AnalysisError(f"{HJ}: own-file tests not found ({n})")

META = {
    "technique": "static analysis: format-string layout arithmetic (string.Formatter) against writer/reader constants, literal-length vs offset-increment pairing, CFG must-pass-through for counters, the ticket protocol and the history append",
    "text": "Decides the clauses of the property that are shapes of the code: the position of {index}, the gap to "
    "{data} and the extent of the locs list are computed from JSON_FORMAT and compared with the constants in dumps() "
    "(69, +11) and the index reader of LazyJSON (seek 9 / read 48); in _to_json_with_size every appended literal advances "
    "the running offset by its length; no writer call can emit non-ASCII, which is what makes character offsets "
    "valid byte offsets for any Unicode content; buffer.append and _len += 1 are on the same paths, every filtered "
    "command is accounted by skip(1), flush snapshots before reset; each ticket in the FIFO queue is waited for, "
    "popped and followed by notify_all under the condition (a missing notify was found and repaired); every exit "
    "of BaseShell.default after run_compiled_code passes _append_history exactly once; every value a read returns comes from the in-memory tail or the file opened under the reader's own ticket, and a read cache kept on the history must be dropped by every method that rewrites the file. Orderings under all "
    "schedules and value-level len/index consistency are not decided.",
    "note": "Decides the listed structural clauses, not the behaviour. Assumes location fields stay below 10 digits "
    "(fixed-width fields).",
    "more": "Also decided: every value a read returns is rooted in the in-memory tail or the file opened under the reader's own ticket; a read cache on the history object must be dropped by every method that rewrites a history file. SQLite backend: the repeat test, the recorded text and the remembered previous text are one expression. The raw append counter is read by len() only (the memory/disk boundary of every index computation starts from len(), which discounts skipped commands); a method that empties the record forgets the remembered previous text. The enumeration hands out history files as the listing spells them and own-file tests compare str with str (known finding: a Path-typed $XONSH_HISTORY_FILE).",
}

META["more"] += ' The FIFO ticket of a flusher or field reader is given up on exception paths too (try/finally around the work under the ticket).'

META["more"] += ' No read path of the history backends or the lazy JSON reader rebuilds a slice as slice(*s.indices(n)) (defect repaired in LJNode._getitem_sequence).'
