"""C16 — ``$PWD``, the process directory and the directory stack stay in step.

Decided: who may move the process (``os.chdir``) and who may write ``$PWD/$OLDPWD``;
``$PWD`` is written only after a successful chdir; context managers that move the
process restore the saved directory on every exit; in the directory commands no error
return is reachable once the stack was mutated or the directory changed; a callee that
can fail silently is not called after the stack was already mutated with an
unvalidated target (today it is: known finding); every ``pushd`` insertion reaches the
``$DIRSTACK_SIZE`` truncation.  Not decided: the ``+N/-N`` index arithmetic.

The directory commands are read in their helper-transparent view (a phase moved into a helper is still the command)
and walked value-sensitively (``_Walk``): an error return is a return whose value *evaluates* to ``(out, err,
<non-zero>)``, also when the status arrives through a local or through a helper's result that the caller unpacks or
hands on; guards and validations count when no walk that respects the known constants avoids them.
"""

from __future__ import annotations

import ast

from .common import *

DS = "xonsh/dirstack.py"
BS = "xonsh/shells/base_shell.py"
BI = "xonsh/built_ins.py"
TL = "xonsh/tools.py"

CHDIR_ALLOWED = {
    (DS, "_change_working_directory"): "the one place session code moves the process",
    (BI, "XonshPathLiteralChangeDirectoryContextManager.__enter__"): "paired context manager",
    (BI, "XonshPathLiteralChangeDirectoryContextManager.__exit__"): "paired context manager (restore)",
    (TL, "chdir"): "paired context manager",
}
# default_env builds the *initial* mapping from os.getcwd() before a session (and any cd) exists
PWD_WRITERS = {(DS, "_change_working_directory"), (BS, "BaseShell._fix_cwd"), ("xonsh/environ.py", "default_env")}
STACK_MUT = {"pop", "insert", "append", "extend", "remove", "clear", "reverse", "sort"}
# never expanded in the helper-transparent view of the directory commands
FLAT_SKIP = ("_change_working_directory", "_unc_map_temp_drive", "_unc_unmap_temp_drive")


def _stack_mutations(fn, names=("DIRSTACK",)):
    """statements / calls that change the directory stack (``names``: the global and the locals that hold the same list)"""
    out = []

    def stk(e):
        return isinstance(e, ast.Name) and e.id in names

    for n in walk_local(fn):
        if isinstance(n, ast.Call) and isinstance(n.func, ast.Attribute) and stk(n.func.value) and n.func.attr in STACK_MUT:
            out.append(n)
        elif isinstance(n, (ast.Assign, ast.AugAssign)):
            tg = n.targets if isinstance(n, ast.Assign) else [n.target]
            for t in tg:
                if is_name(t, "DIRSTACK") or (isinstance(t, ast.Subscript) and stk(t.value)):
                    out.append(n)
        elif isinstance(n, ast.Delete):
            for t in n.targets:
                if isinstance(t, ast.Subscript) and stk(t.value):
                    out.append(n)
    return out


# ---- value-sensitive reachability -----------------------------------------------------------------
# A command reports failure as `return out, err, <non-zero>`.  The status may travel: through a local (`rtn = 1 ...
# return None, err, rtn`), through the result of a helper that the caller unpacks and tests (`new, err, rtn = _take(..);
# if rtn: return None, err, rtn`) or hands on unchanged (`refusal = _check(d); if refusal is not None: return refusal`).
# The rules below therefore walk the CFG of the helper-transparent view together with the constants that locals hold:
# a state is (node, {local: abstract value}, flag), a branch whose test the constants decide is followed only in the
# decided direction, and a return is an error return where its value *evaluates* to a triple with a non-zero status.
# Abstract values: ("c", None/bool/int) | ("t", (element values...)) | None = unknown.  Only edges that constants decide
# are pruned, so every path the program can take is still walked (sound refinement of plain CFG reachability).
_STATE_LIMIT = 60000


def _aval(e, env):
    if isinstance(e, ast.Constant):
        return ("c", e.value) if e.value is None or isinstance(e.value, (bool, int)) else None
    if isinstance(e, ast.Tuple) and not any(isinstance(x, ast.Starred) for x in e.elts):
        return ("t", tuple(_aval(x, env) for x in e.elts))
    if isinstance(e, ast.Name):
        return env.get(e.id)
    return None


_CMP = {ast.Eq: lambda a, b: a == b, ast.NotEq: lambda a, b: a != b, ast.Lt: lambda a, b: a < b, ast.LtE: lambda a, b: a <= b, ast.Gt: lambda a, b: a > b, ast.GtE: lambda a, b: a >= b}


def _truth(test, env):
    """three-valued truth of a branch test under the constants known in ``env``"""
    none = ("c", None)

    def atom(e):
        if isinstance(e, (ast.Name, ast.Tuple)):
            v = _aval(e, env)
            return None if v is None else bool(v[1])
        if isinstance(e, ast.Compare) and len(e.ops) == 1:
            a, b, op = _aval(e.left, env), _aval(e.comparators[0], env), e.ops[0]
            if a is None or b is None:
                return None
            if a == none or b == none:
                # None compared with a known value: identical / equal only to None itself
                if isinstance(op, (ast.Is, ast.Eq)):
                    return a == b
                if isinstance(op, (ast.IsNot, ast.NotEq)):
                    return a != b
                return None
            if a[0] == "c" and b[0] == "c" and type(op) in _CMP:
                return _CMP[type(op)](a[1], b[1])
        return None

    return ev3(test, atom)


def _is_error_value(v):
    """the abstract value of a returned expression is `(out, err, <non-zero status>)`"""
    if not v or v[0] != "t" or len(v[1]) != 3:
        return False
    rc = v[1][2]
    return bool(rc) and rc[0] == "c" and isinstance(rc[1], int) and rc[1] != 0


def _bind_aval(env, target, val):
    if isinstance(target, ast.Name):
        if val is not None:
            env[target.id] = val
    elif isinstance(target, (ast.Tuple, ast.List)) and val is not None and val[0] == "t" and len(val[1]) == len(target.elts) and not any(isinstance(t, ast.Starred) for t in target.elts):
        for t, v in zip(target.elts, val[1]):
            _bind_aval(env, t, v)


class _Walk:
    """value-sensitive walk over the CFG of one (flattened) function"""

    def __init__(self, cfg, fn):
        self.cfg = cfg
        # names another scope can rebind behind the function's back are never tracked
        self.untracked = {x for n in ast.walk(fn) if isinstance(n, (ast.Global, ast.Nonlocal)) for x in n.names}
        self._stored = {}
        self._runs = {}
        self._facts = {}

    def stored(self, n):
        """names (re)bound by the part of the statement that this CFG node stands for"""
        if n in self._stored:
            return self._stored[n]
        a, k = n.ast, n.kind
        parts, out = [], set()
        if a is None or k in ("inline", "inline_return", "with_exit", "finally", "entry", "exit", "raise"):
            pass
        elif k in ("if", "while"):
            parts = [a.test]
        elif k == "for":
            parts = [a.target, a.iter]
        elif k == "with":
            parts = [x for it in a.items for x in (it.context_expr, it.optional_vars) if x is not None]
        elif k == "handler":
            out |= {a.name} if a.name else set()
        elif k == "stmt":
            if isinstance(a, FuncTypes + (ast.ClassDef,)):
                out.add(a.name)
            elif isinstance(a, (ast.Import, ast.ImportFrom)):
                out |= {(al.asname or al.name).split(".")[0] for al in a.names}
            else:
                parts = [a]
        else:
            raise AnalysisError(f"C16: CFG node kind `{k}` at line {n.line} is not modelled by the value-sensitive walk")
        for p_ in parts:
            out |= {x.id for x in ast.walk(p_) if isinstance(x, ast.Name) and isinstance(x.ctx, (ast.Store, ast.Del))}
        self._stored[n] = out
        return out

    def post(self, n, env):
        """environment after the node completed normally"""
        st = self.stored(n)
        if not st:
            return env
        new = {k: v for k, v in env.items() if k not in st}
        a = n.ast
        if n.kind == "stmt" and isinstance(a, (ast.Assign, ast.AnnAssign)) and a.value is not None and not any(isinstance(x, ast.NamedExpr) for x in ast.walk(a)):
            val = _aval(a.value, env)
            for t in a.targets if isinstance(a, ast.Assign) else [a.target]:
                _bind_aval(new, t, val)
        for k in self.untracked:
            new.pop(k, None)
        return new

    def run(self, marks=(), skip_edge=None, tag=None):
        """{(node, env, flag): predecessor state}: the states reachable from the entry.  ``flag`` becomes true once a
        node in ``marks`` completed normally (an exception edge out of it means it did not happen, as in CFG.reach
        callers elsewhere).  ``skip_edge(node, label)`` removes edges."""
        if tag is not None and tag in self._runs:
            return self._runs[tag]
        from collections import deque

        marks = set(marks)
        start = (self.cfg.entry, frozenset(), False)
        seen = {start: None}
        dq = deque([start])
        while dq:
            s = dq.popleft()
            n, envk, flag = s
            env = dict(envk)
            post = None
            for m, label in n.succ:
                if skip_edge is not None and skip_edge(n, label):
                    continue
                if label == "exc":
                    st = self.stored(n)
                    e2, f2 = {k: v for k, v in env.items() if k not in st}, flag
                else:
                    if post is None:
                        post = self.post(n, env)
                    if n.kind in ("if", "while") and label in ("true", "false"):
                        t = _truth(n.ast.test, post)
                        if t is not None and t != (label == "true"):
                            continue
                    e2, f2 = post, flag or n in marks
                s2 = (m, frozenset(e2.items()), f2)
                if s2 not in seen:
                    seen[s2] = s
                    dq.append(s2)
                    if len(seen) > _STATE_LIMIT:
                        raise AnalysisError(f"C16: more than {_STATE_LIMIT} states in the value-sensitive walk of {getattr(self.cfg.func, 'name', '?')}")
        if tag is not None:
            self._runs[tag] = seen
        return seen

    @staticmethod
    def witness(seen, state):
        path = []
        while state is not None:
            if not path or path[-1] is not state[0]:
                path.append(state[0])
            state = seen[state]
        return list(reversed(path))

    def facts(self, node):
        """atomic facts that hold whenever ``node`` executes: like cfg.facts_at, but a branch edge counts as a guard
        when no *value-sensitive* walk reaches the node without it - so a refusal that travels through a status local
        or a helper's result (`bad = 1 if n < 0 else 0; if bad: return ...`) guards what follows as the plain
        `if n < 0: return ...` does"""
        if node in self._facts:
            return self._facts[node]
        out = []
        if any(s[0] is node for s in self.run(tag="all")):
            for c in self.cfg.nodes:
                if c.kind in ("if", "while") and c is not node:
                    for label, pol in (("true", True), ("false", False)):
                        if any(l == label for _, l in c.succ) and not any(s[0] is node for s in self.run(skip_edge=lambda n, l, c=c, label=label: n is c and l == label)):
                            out += implied_facts(c.ast.test, pol)
        self._facts[node] = out
        return out

    def guarded(self, node, texts, preds):
        """every walk from the entry to ``node`` takes an edge on which `pred(<one of texts>)` is known to be true
        (decided on the helper-transparent view, so the test may sit in a helper whose refusal the caller returns)"""

        def asserts(n, label):
            if n.kind not in ("if", "while") or label not in ("true", "false"):
                return False
            return any(pol and isinstance(e, ast.Call) and (call_name(e) or "") in preds and len(e.args) == 1 and not e.keywords and unparse(e.args[0]) in texts for e, pol in implied_facts(n.ast.test, label == "true"))

        if not any(s[0] is node for s in self.run(tag="all")):
            return False  # not reached at all: nothing vouches for it
        return not any(s[0] is node for s in self.run(skip_edge=asserts))


# ---- bounded arithmetic check of computed stack indexes -------------------------------------------
# The guards that dominate an index site are evaluated over a small integer domain (the count argument
# and the length of the indexed list); every assignment consistent with them must give an index inside
# 0 .. len-1.  Python wraps negative indexes silently, so an `except IndexError` is not a range check.
_NUMS = range(-2, 9)
_LENS = range(0, 7)


def _ev(e, env, defs, lst, depth=0):
    """Three-valued evaluation (int / bool / None=unknown) of an index or guard expression."""
    if depth > 6 or e is None:
        return None
    if isinstance(e, ast.Constant):
        return e.value if isinstance(e.value, (int, bool)) else None
    if isinstance(e, ast.Name):
        if e.id in env:
            return env[e.id]
        if e.id == lst:
            return env["__len__"] > 0  # truthiness of the list
        ds = [d for d in defs.get(e.id, []) if d.kind == "assign"]
        if len(ds) == 1:
            return _ev(ds[0].value, env, defs, lst, depth + 1)
        return None
    if isinstance(e, ast.Call) and call_name(e) == "len" and len(e.args) == 1:
        return env["__len__"] if unparse(e.args[0]) == lst else None
    if isinstance(e, ast.Call) and call_name(e) == "int":
        return None
    if isinstance(e, ast.UnaryOp):
        v = _ev(e.operand, env, defs, lst, depth + 1)
        if v is None:
            return None
        if isinstance(e.op, ast.Not):
            return not v
        if isinstance(e.op, ast.USub):
            return -v
        return None
    if isinstance(e, ast.BinOp) and isinstance(e.op, (ast.Add, ast.Sub)):
        l, r = _ev(e.left, env, defs, lst, depth + 1), _ev(e.right, env, defs, lst, depth + 1)
        if l is None or r is None or isinstance(l, bool) or isinstance(r, bool):
            return None
        return l + r if isinstance(e.op, ast.Add) else l - r
    if isinstance(e, ast.Compare) and len(e.ops) == 1:
        l, r = _ev(e.left, env, defs, lst, depth + 1), _ev(e.comparators[0], env, defs, lst, depth + 1)
        if l is None or r is None:
            return None
        op = e.ops[0]
        return {ast.Lt: l < r, ast.LtE: l <= r, ast.Gt: l > r, ast.GtE: l >= r, ast.Eq: l == r, ast.NotEq: l != r}.get(type(op))
    if isinstance(e, ast.BoolOp):
        vs = [_ev(v, env, defs, lst, depth + 1) for v in e.values]
        if isinstance(e.op, ast.And):
            return False if any(v is False for v in vs) else (None if any(v is None for v in vs) else True)
        return True if any(v is True for v in vs) else (None if any(v is None for v in vs) else False)
    return None


def _index_sites(fn):
    """(list name, index expr, node) for every computed index / pop on a directory-stack list."""
    lists = {"DIRSTACK", "o", "dirstack"}
    for n in walk_local(fn):
        if isinstance(n, ast.Call) and isinstance(n.func, ast.Attribute) and n.func.attr == "pop" and isinstance(n.func.value, ast.Name) and n.func.value.id in lists and n.args and not isinstance(n.args[0], ast.Constant):
            yield n.func.value.id, n.args[0], n
        elif isinstance(n, ast.Subscript) and isinstance(n.value, ast.Name) and n.value.id in lists and not isinstance(n.slice, (ast.Slice, ast.Constant)):
            yield n.value.id, n.slice, n


def check(ctx):
    ctx.not_decided += ["the +N/-N index arithmetic and rotation order (values)", "symlink resolution of $PWD", "Windows UNC temp-drive mapping"]
    ctx.rule("R1", "os.chdir is called only by _change_working_directory and by context managers that restore the saved directory on every exit; $PWD/$OLDPWD are written only by _change_working_directory (after a successful chdir) and the resynchroniser", floor=9)
    ctx.rule("R2", "in cd/pushd/popd/dirs no error return is reachable after the stack was mutated or the directory changed", floor=4)
    ctx.rule("R3", "a directory change that can fail silently is not issued after the stack was mutated unless the target was validated or the result is checked", floor=2)
    ctx.rule("R4", "every pushd insertion reaches the $DIRSTACK_SIZE truncation before a normal return", floor=1)
    ctx.rule("R6", "after every interactive command the shell re-synchronises: _fix_cwd leaves $PWD alone only when it has compared the real paths of the process directory and $PWD (or could not determine the directory), and every exit of the command loop body passes it", floor=2)
    ctx.rule("R7", "`dirs +N/-N` counts in the listing it prints (current directory first, then the stack): every len() that bounds or offsets the index into the listing is the length of the listing itself or of a list of the same length - never len(DIRSTACK), which is one shorter (from-the-right lookups would be off by one and N == stack size would wrap to the last entry)", floor=1)
    ctx.rule("R5", "every computed index into the directory stack is inside 0..len-1 for all counts admitted by the guards that dominate it (a negative index wraps silently: `except IndexError` is not a range check)", floor=4)

    # ------------------------------------------------------------------ R1
    n_chdir = 0
    for m in ctx.repo.modules("xonsh", "xontrib", "xompletions", exclude=("xonsh/pytest/",), containing=("chdir",)):
        for n in ast.walk(m.tree):
            if isinstance(n, ast.Call) and call_name(n) in ("os.chdir", "os.fchdir"):
                n_chdir += 1
                fn = enclosing_func(n)
                q = qual_of(fn) if fn is not None else "<module>"
                ok = (m.rel, q) in CHDIR_ALLOWED
                ctx.ob("R1", f"{m.rel}:{q}", f"`{short(n)}` is one of the allowed sites ({CHDIR_ALLOWED.get((m.rel, q), 'not allowed: session code must go through _change_working_directory')})", ok, key=f"{m.rel}:{q}|foreign-chdir", where=loc(n))
    if n_chdir < 5:
        raise AnalysisError(f"only {n_chdir} os.chdir call sites found (5 confirmed by hand)")
    # paired managers restore on every exit
    tl = ctx.repo.module(TL)
    ch = tl.func("chdir")
    cfg = CFG(ch, catchall=("BaseException",))
    moves = [n for n in cfg.nodes if n.kind == "stmt" and any(call_name(c) == "os.chdir" for c in calls_in(n.ast))]
    cdefs = df.all_defs(ch)
    saved = [n_ for n_, ds in cdefs.items() if any(d.kind == "assign" and isinstance(d.value, ast.Call) and call_name(d.value) == "os.getcwd" for d in ds)]
    restores = [n for n in moves if any(call_name(c) == "os.chdir" and c.args and unparse(c.args[0]) in saved for c in calls_in(n.ast))]
    goes = [n for n in moves if n not in restores]
    ok = bool(goes) and bool(restores)
    path = None
    if ok:
        ok, path = cfg.must_pass(goes, lambda m_: m_ in restores)
    ctx.ob("R1", f"{TL}:chdir", "the directory saved before the move is restored on every exit (normal, exception, generator close)", ok, key="tools.chdir|not-restored", where=loc(ch), path=cfg.fmt_path(path) if path else None)
    if saved and goes:
        sv = [n for n in cfg.nodes if n.kind == "stmt" and isinstance(n.ast, ast.Assign) and unparse(n.ast.targets[0]) in saved]
        ctx.ob("R1", f"{TL}:chdir", "the current directory is saved before the move", all(cfg.dominated(g, lambda m_: m_ in sv) for g in goes), key="tools.chdir|saved-late")
    bi = ctx.repo.module(BI)
    en = bi.func("XonshPathLiteralChangeDirectoryContextManager.__enter__")
    exi = bi.func("XonshPathLiteralChangeDirectoryContextManager.__exit__")
    ecfg = CFG(en)
    sv = [n for n in ecfg.nodes if n.kind == "stmt" and isinstance(n.ast, ast.Assign) and isinstance(n.ast.value, ast.Call) and call_name(n.ast.value) == "os.getcwd"]
    mv = [n for n in ecfg.nodes if n.kind == "stmt" and any(call_name(c) == "os.chdir" for c in calls_in(n.ast))]
    ok = bool(sv) and bool(mv) and all(ecfg.dominated(x, lambda m_: m_ in sv) for x in mv)
    slot = unparse(sv[0].ast.targets[0]) if sv else None
    ctx.ob("R1", f"{BI}:XonshPathLiteralChangeDirectoryContextManager.__enter__", "saves the current directory before moving", ok, key="pathliteral|saved-late")
    ok = any(call_name(c) == "os.chdir" and c.args and unparse(c.args[0]) == slot for c in calls_in(exi)) and not any(isinstance(n, ast.If) for n in walk_local(exi))
    ctx.ob("R1", f"{BI}:XonshPathLiteralChangeDirectoryContextManager.__exit__", "unconditionally returns to the saved directory", ok, key="pathliteral|not-restored")
    # with_pushd (api.os.indir): a successful pushd is undone by popd on every exit
    if ctx.repo.module(DS).has("with_pushd"):
        wp = ctx.repo.module(DS).func("with_pushd")
        wcfg = CFG(wp, catchall=("BaseException",))
        ys = [n for n in wcfg.nodes if n.kind == "stmt" and any(isinstance(x, ast.Yield) for x in ast.walk(n.ast))]
        pops = [n for n in wcfg.nodes if n.kind == "stmt" and any(call_name(c) in ("popd_fn", "popd") for c in calls_in(n.ast))]
        ok = bool(ys) and bool(pops)
        if ok:
            ok, _ = wcfg.must_pass(ys, lambda m_: m_ in pops)
        ctx.ob("R1", f"{DS}:with_pushd", "the pushd context manager pops on every exit (normal, exception, generator close)", ok, key="with_pushd|not-popped", where=loc(wp))
    # $PWD / $OLDPWD writers
    n_w = 0
    for m in ctx.repo.modules("xonsh", "xontrib", exclude=("xonsh/pytest/",), containing=("PWD",)):
        for n in ast.walk(m.tree):
            if isinstance(n, ast.Assign):
                for t in n.targets:
                    if isinstance(t, ast.Subscript) and const_value(t.slice) in ("PWD", "OLDPWD"):
                        fn = enclosing_func(n)
                        recv = unparse(t.value)
                        if fn is not None and isinstance(t.value, ast.Name):
                            recv += " " + unparse(df.resolve_copy(df.all_defs(fn), t.value))
                        if "env" not in recv.lower():
                            continue
                        q = qual_of(fn) if fn is not None else "<module>"
                        n_w += 1
                        ctx.ob("R1", f"{m.rel}:{q}", f"`{short(n)}`: ${const_value(t.slice)} is written only by _change_working_directory, the resynchroniser _fix_cwd and the initial default_env", (m.rel, q) in PWD_WRITERS or only_called_from(ctx.repo, m, q, {q_ for r_, q_ in PWD_WRITERS if r_ == m.rel}), key=f"{m.rel}:{q}|foreign-pwd-write", where=loc(n))
    if n_w < 4:
        raise AnalysisError(f"only {n_w} $PWD/$OLDPWD writes found")
    ds = ctx.repo.module(DS)
    cw = ds.func("_change_working_directory")
    ccfg = CFG(cw)
    chn = [n for n in ccfg.nodes if n.kind == "stmt" and any(call_name(c) == "os.chdir" for c in calls_in(n.ast))]
    wr = [n for n in ccfg.nodes if n.kind == "stmt" and isinstance(n.ast, ast.Assign) and any(isinstance(t, ast.Subscript) and const_value(t.slice) in ("PWD", "OLDPWD") for t in n.ast.targets)]
    hd = [n for n in ccfg.nodes if n.kind == "handler"]
    ok = bool(chn) and len(wr) >= 2 and all(ccfg.dominated(w, lambda m_: m_ in chn) for w in wr)
    ctx.ob("R1", f"{DS}:_change_working_directory", "$PWD/$OLDPWD are written only after os.chdir", ok, key="cwd|pwd-before-chdir", where=loc(cw))
    seen = ccfg.reach(hd) if hd else {}
    ok = not any(w in seen for w in wr)
    ctx.ob("R1", f"{DS}:_change_working_directory", "a failed chdir (OSError handler) never reaches a $PWD/$OLDPWD write", ok, key="cwd|pwd-after-failure", where=loc(cw))
    # the value written to $PWD is the path that was handed to os.chdir
    targ = unparse(next(c for n in chn for c in calls_in(n.ast) if call_name(c) == "os.chdir").args[0]) if chn else None
    okv = any(isinstance(w.ast.targets[0], ast.Subscript) and const_value(w.ast.targets[0].slice) == "PWD" and unparse(w.ast.value) == targ for w in wr)
    ctx.ob("R1", f"{DS}:_change_working_directory", "$PWD receives exactly the path handed to os.chdir", okv, key="cwd|pwd-value", where=loc(cw))
    # "the previous $PWD": a local whose only definition reads <env>["PWD"] before the chdir
    cdefs_ = df.all_defs(cw)

    def prev_pwd(e):
        ds = cdefs_.get(e.id, []) if isinstance(e, ast.Name) else []
        if len(ds) != 1 or ds[0].kind != "assign":
            return False
        v = ds[0].value
        reads_pwd = (isinstance(v, ast.Subscript) and const_value(v.slice) == "PWD") or (isinstance(v, ast.Call) and last_attr(v) == "get" and v.args and const_value(v.args[0]) == "PWD")
        dn = ccfg.nodes_of(ds[0].stmt)
        return reads_pwd and bool(dn) and all(ccfg.dominated(c_, lambda m_: m_ in dn) for c_ in chn)

    oko = any(const_value(w.ast.targets[0].slice) == "OLDPWD" and prev_pwd(w.ast.value) for w in wr if isinstance(w.ast.targets[0], ast.Subscript))
    ctx.ob("R1", f"{DS}:_change_working_directory", "$OLDPWD receives the previous $PWD", oko, key="cwd|oldpwd-value", where=loc(cw))

    # ------------------------------------------------------------------ R2 / R3 / R4
    silent = bool(hd) and all((n.ast.value is None or (isinstance(n.ast.value, ast.Constant) and n.ast.value.value is None)) for n in ccfg.nodes if n.kind == "stmt" and isinstance(n.ast, ast.Return))
    for q in ("cd", "pushd_fn", "popd_fn", "dirs_fn"):
        # the helper-transparent view: where a phase of the command lives (inline, or in a helper whose result the
        # command returns / unpacks) does not change what it does.  Left as calls: the silent-failure callee itself
        # (R3 is about the call) and the Windows UNC drive mapping (not decided, see not_decided).
        fn = flat(ctx, ds.func(q), 2, skip=FLAT_SKIP)
        st = f"{DS}:{q}"
        cfg = CFG(fn)
        defs = df.all_defs(fn)
        walk = _Walk(cfg, fn)
        muts = _stack_mutations(fn, {"DIRSTACK"} | names_bound_to_text(fn, "DIRSTACK", defs))
        moves = [c for c in calls_in(fn) if call_name(c) in ("_change_working_directory", "pushd", "popd", "pushd_fn", "popd_fn")]
        mut_nodes = [nd for x in muts + moves for nd in cfg.nodes_of(stmt_of(x))]
        states = walk.run(marks=mut_nodes, tag="marked")

        def err_state(s_):
            n_ = s_[0]
            return n_.kind == "stmt" and isinstance(n_.ast, ast.Return) and n_.ast.value is not None and _is_error_value(_aval(n_.ast.value, dict(s_[1])))

        err_states = [s_ for s_ in states if err_state(s_)]
        errs = {s_[0] for s_ in err_states}
        if q != "dirs_fn" and not errs:
            raise AnalysisError(f"{st}: no error return recognised")
        hit = sorted((s_ for s_ in err_states if s_[2]), key=lambda s_: s_[0].line)
        ctx.ob("R2", st, f"no error return is reachable once the stack was mutated / the directory changed ({len(muts)} mutation(s), {len(moves)} move(s), {len(errs)} error return(s))", not hit, key=f"{q}|error-after-mutation", where=loc(hit[0][0].ast) if hit else loc(fn), path=cfg.fmt_path(walk.witness(states, hit[0])) if hit else None)
        # R3
        def holders(e):
            """the locals that hold exactly the value of ``e`` because a helper call bound it to a parameter"""
            out = {unparse(e)}
            for _ in range(4):
                for n_, ds_ in defs.items():
                    if n_ not in out and ds_ and all(d.kind == "assign" and getattr(d.stmt, "_xv_bind", False) and isinstance(d.value, ast.Name) and d.value.id in out for d in ds_):
                        out.add(n_)
            return out

        def element_links(v, i, stmt, depth=4):
            """[(element expr, stmt)] for element ``i`` of the tuple(s) that ``v`` can be, None if that is not known"""
            if isinstance(v, (ast.Tuple, ast.List)):
                return [(v.elts[i], stmt)] if i < len(v.elts) and not any(isinstance(x, ast.Starred) for x in v.elts) else None
            if isinstance(v, ast.Name) and depth > 0 and defs.get(v.id):
                out = []
                for d in defs[v.id]:
                    if d.kind != "assign" or d.value is None:
                        return None
                    if isinstance(d.value, ast.Constant) and d.value.value is None:
                        continue  # `r = None` before the branches that bind the tuple: cannot be unpacked
                    sub = element_links(d.value, i, d.stmt, depth - 1)
                    if sub is None:
                        return None
                    out += sub
                return out
            return None

        def links(name):
            """[(bound expr or None, stmt)] for every non-parameter definition of a local; an unpacking of a tuple built
            elsewhere in the (flattened) function - a helper's `return a, b, c` - is resolved to the element"""
            out = []
            for d in defs.get(name, []):
                if d.kind == "param" or d.value is None:
                    continue
                if d.kind == "unpack":
                    tg = [t for t in (d.stmt.targets if isinstance(d.stmt, ast.Assign) else []) if isinstance(t, (ast.Tuple, ast.List)) and d.index < len(t.elts) and t.elts[d.index] is d.target]
                    el = element_links(d.value, d.index, d.stmt) if tg else None
                    out += el if el is not None else [(None, d.stmt)]
                elif d.kind in ("assign", "walrus"):
                    out.append((d.value, d.stmt))
                else:
                    out.append((None, d.stmt))
            return out

        def unvalidated(name, seen):
            """definitions from which an unchecked path can arrive in local ``name``"""
            if name in seen:
                return []
            seen.add(name)
            out = []
            for v, stmt in links(name):
                if v is not None and isinstance(v, ast.Constant) and v.value is None:
                    continue
                if isinstance(v, ast.Call) and (call_name(v) or "").startswith("_unc_map_temp_drive"):
                    continue
                dn = cfg.nodes_of(stmt)
                if v is not None and dn and walk.guarded(dn[0], holders(v), ("os.path.isdir",)):
                    continue
                ds_ = defs.get(v.id, []) if isinstance(v, ast.Name) else []
                if ds_ and all(d.kind in ("assign", "unpack") for d in ds_):
                    out += unvalidated(v.id, seen)  # a plain local: what it holds was decided where it was bound
                    continue
                out.append(short(stmt, 50))
            return out

        for c in [c for c in moves if call_name(c) == "_change_working_directory"]:
            cn = node_in(cfg, stmt_of(c))[0]
            prior = [m for m in muts + [x for x in moves if x is not c] if any(cn in cfg.reach([nd]) for nd in cfg.nodes_of(stmt_of(m)))]
            if not prior or not silent:
                ctx.ob("R3", st, f"`{short(c)}` is not preceded by a stack mutation" if not prior else "callee reports failure", True, where=loc(c))
                continue
            checked = not isinstance(stmt_of(c), ast.Expr)
            arg = c.args[0] if c.args else None
            # validated: the call site is reached only through a successful isdir/exists test of the target, or every
            # definition the target's value can come from is reached only through a successful isdir test of it
            val_here = arg is not None and walk.guarded(cn, holders(arg), ("os.path.isdir", "os.path.exists"))
            unval = []
            if isinstance(arg, ast.Name) and not val_here:
                unval = unvalidated(arg.id, set())
            ok = checked or val_here or not unval
            ctx.ob("R3", st, f"`{short(c)}` (can fail silently: its OSError handler prints and returns nothing) follows a stack mutation only with a validated target or a checked result", ok, key=f"{q}|silent-failure-after-mutation", where=loc(c), detail=f"unvalidated sources of the target: {unval}" if unval else None)
        # R5 computed indexes
        from .c14 import _expr_facts

        for lst, idx_expr, node in _index_sites(fn):
            stn = cfg.nodes_of(stmt_of(node))
            facts = list(_expr_facts(node))
            if stn:
                facts += walk.facts(stn[0])
            # resolve local names the index is computed from; a name with several definitions gives
            # one case per definition (facts at the definition hold at the use if it dominates... each
            # definition is taken with the guards under which it executes)
            func_names = {id(c.func) for c in ast.walk(fn) if isinstance(c, ast.Call)}

            def cases_of(e_, depth=0, submap=None):
                """[(expr with locals substituted, extra facts, substitution used)]"""
                from ..engine import dtable as _dt

                submap = dict(submap or {})
                out = [(e_, [], submap)]
                if depth > 4:
                    return out
                for x in ast.walk(e_):
                    if isinstance(x, ast.Name) and id(x) not in func_names and x.id != lst:
                        ds_ = [d for d in defs.get(x.id, []) if d.kind == "assign" and not (isinstance(d.value, ast.Call) and call_name(d.value) == "int")]
                        if ds_ and all(d.kind == "assign" for d in defs.get(x.id, [])) and len(ds_) == len(defs.get(x.id, [])):
                            res = []
                            for d_ in ds_:
                                dn = cfg.nodes_of(d_.stmt)
                                f_ = walk.facts(dn[0]) if dn else []
                                sm = dict(submap)
                                sm[x.id] = d_.value
                                sub = _dt.subst(e_, {x.id: d_.value})
                                for e2, f2, sm2 in cases_of(sub, depth + 1, sm):
                                    res.append((e2, f_ + f2, sm2))
                            return res
                return out

            all_cases = cases_of(idx_expr)
            names = set()
            for e2, _f, _sm in all_cases:
                for x in ast.walk(e2):
                    if isinstance(x, ast.Name) and x.id != lst and not (isinstance(parent(x), ast.Call) and parent(x).func is x) and x.id != "len":
                        names.add(x.id)
            if len(names) != 1:
                ctx.note(f"{st}: index `{unparse(idx_expr)}` depends on {sorted(names)}: not a single count, skipped")
                continue
            var = next(iter(names))
            bad = None
            n_ok = 0
            from ..engine import dtable as _dt2

            def close(e_, sm):
                """apply the case's definitions to a guard, to a fixpoint (guards mention the same locals)"""
                for _ in range(5):
                    e2_ = _dt2.subst(e_, sm)
                    if unparse(e2_) == unparse(e_):
                        break
                    e_ = e2_
                return e_

            for case_expr, case_facts, case_sm in all_cases:
              # aliases of the length (`depth = len(DIRSTACK)`) count as the length itself
              for n_, ds_ in defs.items():
                  if n_ not in case_sm and len(ds_) == 1 and ds_[0].kind == "assign" and unparse(ds_[0].value) == f"len({lst})":
                      case_sm[n_] = ds_[0].value
              case_expr = close(case_expr, case_sm)
              fs = [(close(e, case_sm), pol) for e, pol in facts + case_facts]
              for L in _LENS:
                for k in _NUMS:
                    env = {var: k, "__len__": L}
                    if any(_ev(e, env, {}, lst) is (not pol) for e, pol in fs if _ev(e, env, {}, lst) is not None):
                        continue  # excluded by a guard
                    v = _ev(case_expr, env, {}, lst)
                    if v is None or isinstance(v, bool):
                        bad = bad or ("?", k, L)
                        continue
                    if not (0 <= v <= L - 1):
                        bad = bad or (v, k, L)
                    else:
                        n_ok += 1
            unknown = bad is not None and bad[0] == "?"
            if unknown:
                ctx.note(f"{st}: index `{unparse(idx_expr)}` could not be evaluated; skipped")
                continue
            ctx.ob("R5", st, f"`{short(node, 50)}`: index `{unparse(idx_expr)}` into {lst} stays within 0..len-1 under its guards", bad is None, key=f"{q}|index-out-of-range|{unparse(idx_expr)}", where=loc(node), detail=(f"{var}={bad[1]}, len({lst})={bad[2]} passes every guard but gives index {bad[0]}" + (" (negative: wraps around silently)" if bad[0] < 0 else "")) if bad else f"{n_ok} admitted (count, length) pairs checked")
        # R4
        if q == "pushd_fn":
            ins = [n for n in cfg.nodes if n.kind == "stmt" and any(isinstance(c.func, ast.Attribute) and is_name(c.func.value, "DIRSTACK") and c.func.attr in ("insert", "append") for c in calls_in(n.ast))]
            trunc = [n for n in cfg.nodes if n.kind == "if" and "len(DIRSTACK)" in unparse(n.ast.test) and any(isinstance(s, ast.Assign) and is_name(s.targets[0], "DIRSTACK") and isinstance(s.value, ast.Subscript) for s in n.ast.body)]
            if not ins:
                raise AnchorMissing(f"{st}: no DIRSTACK.insert")
            ok = bool(trunc)
            if ok:
                ok, path = cfg.must_pass(ins, lambda m_: m_ in trunc, exits=("exit",))
            ctx.ob("R4", st, "every insertion reaches the size truncation before a normal return", ok, key="pushd|no-truncation", where=loc(fn), path=cfg.fmt_path(path) if path else None)
            if trunc:
                t = trunc[0].ast
                lim = df.resolve_copy(defs, t.test.comparators[0]) if isinstance(t.test, ast.Compare) else None
                ok = lim is not None and "DIRSTACK_SIZE" in unparse(lim) and isinstance(t.test.ops[0], ast.Gt)
                s0 = next(s for s in t.body if isinstance(s, ast.Assign))
                ok = ok and isinstance(s0.value.slice, ast.Slice) and s0.value.slice.lower is None and unparse(s0.value.slice.upper) == unparse(t.test.comparators[0])
                ctx.ob("R4", st, "the stack is cut to its first $DIRSTACK_SIZE entries (newest kept)", ok, key="pushd|truncation-shape", where=loc(t))

    _resync(ctx)
    _dirs_counts_in_its_listing(ctx, ctx.repo.module(DS))


def _resync(ctx):
    from ..engine import dtable

    bs = ctx.repo.module(BS)
    fx = bs.func("BaseShell._fix_cwd")
    st = f"{BS}:BaseShell._fix_cwd"
    if not any((call_name(c) or "").endswith("getcwd") for c in calls_in(fx)):
        # the directory may be read through a helper (`_get_cwd()`: getcwd or None), the lost-directory report extracted
        fx = flat(ctx, fx, 2, skip=("print_color", "fire"))
    ps = [p_ for p_ in dtable.paths(fx, stores=True, loops="skip") if dtable.feasible(p_)]

    def writes_pwd(p_):
        return any(isinstance(e, ast.Assign) and any(isinstance(t, ast.Subscript) and const_value(t.slice, None) == "PWD" for t in e.targets) for e in p_.effects)

    def dir_known(p_):
        # the path on which the process directory could be read: `<getcwd> is None` is false and no exception edge was taken
        if any(isinstance(e, ast.Constant) or "<exception" in unparse(e) for e, _ in p_.conds):
            return False
        return any(isinstance(e, ast.Compare) and isinstance(e.ops[0], ast.Is) and const_value(e.comparators[0], 0) is None and "getcwd" in unparse(e.left) and not pol for e, pol in p_.conds)

    def compared_equal(p_):
        for e, pol in p_.conds:
            if isinstance(e, ast.Compare) and len(e.ops) == 1 and isinstance(e.ops[0], (ast.Eq, ast.NotEq)):
                l, r = unparse(e.left), unparse(e.comparators[0])
                if "realpath" in l and "realpath" in r and (("getcwd" in l and "PWD" in r) or ("getcwd" in r and "PWD" in l)):
                    if pol == isinstance(e.ops[0], ast.Eq):
                        return True
        return False

    known = [p_ for p_ in ps if dir_known(p_)]
    if len(known) < 2 or not any(writes_pwd(p_) for p_ in known):
        raise AnalysisError(f"{st}: the known-directory paths of the resynchroniser were not recognised ({len(known)} of {len(ps)})")
    n_keep = 0
    for p_ in known:
        if writes_pwd(p_):
            continue
        n_keep += 1
        ok = compared_equal(p_)
        ctx.ob("R6", st, "a path that leaves $PWD as it is has found realpath(process directory) == realpath($PWD)", ok, key="fix_cwd|keeps-pwd-without-comparing", where=loc(fx), detail="path: " + "; ".join(p_.cond_texts())[:300])
    if not n_keep:
        raise AnalysisError(f"{st}: no in-sync path enumerated")
    # ... and the resynchroniser runs after every command, whatever the command did
    dfn = bs.func("BaseShell.default")
    if not any(call_name(c) == "self._fix_cwd" for c in calls_in(dfn)):
        dfn = flat(ctx, dfn, 1, skip=("_append_history", "_fix_cwd", "run_compiled_code", "push", "precmd", "print_exception"))
    cfg = CFG(dfn, catchall=("BaseException",))
    run = [n for n in cfg.nodes if n.kind == "stmt" and any(call_name(c) == "run_compiled_code" for c in calls_in(n.ast))]
    fix = [n for n in cfg.nodes if n.kind == "stmt" and any(call_name(c) == "self._fix_cwd" for c in calls_in(n.ast))]
    ok = bool(run) and bool(fix)
    path = None
    if ok:
        ok, path = cfg.must_pass(run, lambda m_: m_ in fix, exits=("exit",))
    ctx.ob("R6", f"{BS}:BaseShell.default", "every normal exit after run_compiled_code passes _fix_cwd()", ok, key="default|no-resync", where=loc(dfn), path=cfg.fmt_path(path) if path else None)



def _dirs_counts_in_its_listing(ctx, mod):
    fn0 = mod.func("dirs_fn")
    fn = flat(ctx, fn0, 2, skip=("_change_working_directory",))
    st = f"{DS}:dirs_fn"
    defs = df.all_defs(fn)
    # lists subscripted with a computed index
    subs = [x for x in walk_local(fn) if isinstance(x, ast.Subscript) and isinstance(x.ctx, ast.Load) and isinstance(x.value, ast.Name) and not isinstance(x.slice, (ast.Constant, ast.Slice)) and any(isinstance(d.value, (ast.List, ast.ListComp, ast.BinOp, ast.Call, ast.Name)) for d in defs.get(x.value.id, []) if d.value is not None)]
    if not subs:
        raise AnalysisError(f"{st}: no computed index into the listing found")
    n = 0
    for sb in subs:
        L = sb.value.id
        fam = {L}
        changed = True
        while changed:
            changed = False
            for nm in list(fam):
                for d in defs.get(nm, []):
                    v = d.value
                    src = None
                    if isinstance(v, ast.ListComp) and len(v.generators) == 1 and not v.generators[0].ifs and isinstance(v.generators[0].iter, ast.Name):
                        src = v.generators[0].iter.id
                    elif isinstance(v, ast.Call) and call_name(v) in ("list", "tuple") and v.args and isinstance(v.args[0], ast.Call) and call_name(v.args[0]) == "map" and len(v.args[0].args) == 2 and isinstance(v.args[0].args[1], ast.Name):
                        src = v.args[0].args[1].id
                    elif isinstance(v, ast.Name):
                        src = v.id
                    if src and src not in fam:
                        fam.add(src)
                        changed = True
        # everything the index depends on: its expression, the definitions of its names (calls with their arguments), and
        # the guards on those names
        dep_exprs = [sb.slice]
        seen_, todo = set(), [x.id for x in ast.walk(sb.slice) if isinstance(x, ast.Name)]
        while todo:
            nm = todo.pop()
            if nm in seen_ or nm in fam:
                continue
            seen_.add(nm)
            for d in defs.get(nm, []):
                if d.value is not None:
                    dep_exprs.append(d.value)
                    todo += [x.id for x in ast.walk(d.value) if isinstance(x, ast.Name)]
        for t in [x.test for x in walk_local(fn) if isinstance(x, (ast.If, ast.While))]:
            if seen_ & df.names_read(t):
                dep_exprs.append(t)
        lens = [c for e in dep_exprs for c in ast.walk(e) if isinstance(c, ast.Call) and call_name(c) == "len" and c.args and isinstance(c.args[0], ast.Name)]
        foreign = [c for c in lens if c.args[0].id not in fam and (c.args[0].id.isupper() or "stack" in c.args[0].id.lower())]
        n += 1
        ctx.ob("R7", st, f"`{short(sb, 40)}`: every length the index is bounded by or counted from is the length of `{L}` ({sorted(fam)})", bool(lens) and not foreign, key="dirs_fn|index-counted-in-another-list", where=loc(foreign[0]) if foreign else loc(sb), detail=f"`{short(foreign[0], 30)}` is the length of another list" if foreign else ("no length bounds the index" if not lens else None))

META = {
    "technique": "static analysis: who-may-call os.chdir / who-may-write $PWD over the whole package, CFG dominance and handler reachability in _change_working_directory, reachability of error returns after mutation, must-pass-through to the size truncation",
    "text": "Decides the structural half of keeping $PWD, the process directory and the stack in step, for all "
    "command sequences: the five os.chdir sites are the allowed ones and the two context managers restore the saved "
    "directory on every exit; $PWD/$OLDPWD are written only in _change_working_directory (dominated by a successful "
    "chdir, unreachable from its failure handler, with the chdir'ed path / the old $PWD as values) and in the "
    "resynchroniser; in cd/pushd/popd/dirs no error return is reachable after a stack mutation or a move; a silently "
    "failing directory change issued after the stack was already mutated with an unvalidated target is reported "
    "(known finding: popd/pushd onto a removed directory); every pushd insertion reaches the $DIRSTACK_SIZE cut. "
    "The +N/-N arithmetic is decided in one respect: every computed index into the stack lies in 0..len-1 for all "
    "(count, length) pairs admitted by the guards that dominate it (bounded enumeration of the comparison "
    "outcomes; a negative index would wrap silently). Which entry +N/-N *means* is not decided.",
    "note": "Decides the listed structural clauses, not the behaviour. Error returns are recognised by the alias "
    "convention `return out, err, <non-zero>`.",
    "more": 'Also decided: the resynchroniser _fix_cwd leaves $PWD alone only after comparing the real paths of the process directory and $PWD, and every normal exit of the command loop body passes it.',
}

META["more"] += " Every length that bounds or offsets the index into the `dirs` listing is the listing's own, also through helpers that are handed the length."
