"""C13 — a crash or I/O failure while saving history never damages what was saved.

Decides the *write discipline* (which is exactly a property of the code's shape):
no operation the property lists rewrites an existing history file in place; new
content reaches a final name only by ``os.replace`` of a completely written temp
file; a failed write never reaches the ``os.replace``; SQLite DML runs inside the
transactional connection context.  Not decided: partial-write lengths, durability
(fsync), SQLite's own crash safety.
"""

from __future__ import annotations

import ast

from .common import *

JSON = "xonsh/history/json.py"
SQLITE = "xonsh/history/sqlite.py"

# operations the property lists (flush, delete, de-duplicate, unlock)
LISTED = {
    "JsonHistoryFlusher.dump": "flush",
    "JsonHistory.delete": "delete",
    "JsonHistory.erasedups": "de-duplicate",
    "JsonHistoryGC.files": "unlock of stale locked files",
}
# write sites that are allowed to open a final name directly, with the reason
ALLOW_DIRECT = {
    "JsonHistory.clear": "`history clear` is not among the operations the property lists "
    "(flush/delete/erasedups/unlock); it deliberately discards the session file",
}
OTHER_WRITERS = {
    "os.rename",
    "os.truncate",
    "os.ftruncate",
    "os.open",
    "shutil.copy",
    "shutil.copy2",
    "shutil.copyfile",
    "shutil.move",
    "os.link",
    "os.symlink",
}
OTHER_WRITER_ATTRS = {"write_text", "write_bytes", "truncate", "move", "copyfile", "copy2", "rename"}


def _mkstemp_unpack(defs, name):
    """(call, index) if ``name`` is bound by ``a, b = tempfile.mkstemp(...)``."""
    ds = defs.get(name, [])
    if len(ds) != 1:
        return None
    d = ds[0]
    if d.kind == "unpack" and isinstance(d.value, ast.Call) and (call_name(d.value) or "").endswith("mkstemp"):
        return d.value, d.index
    return None


def _operation_views(ctx, fn, depth=2):
    """Helper-transparent views of everything that runs as part of operation ``fn``.

    ``flat`` expands a helper call that is the whole value of a statement.  A helper whose result is only an *operand*
    (``return n + self._rewrite(p)``, ``n += a(p) + b(p)``, ``if a(p) and b(p):``) stays a call in that view, yet its body
    runs as part of the operation all the same.  So the calls of the source form are resolved with the flattener's own
    resolver (same-module function, method of the same class or a base class, private import from the repository; same
    eligibility: no generators, no decorated functions, no recursion) wherever they stand in an expression, to ``depth``
    calls, and the view of each helper found is added.  Nothing is recognised by name; what is not resolvable is not followed.
    """
    from ..engine import inline

    fl = inline.Flattener(ctx.repo, depth=0)
    found, layer = [fn], [fn]
    for _ in range(depth):
        nxt = []
        for f in layer:
            m, cls, local_names = f._xv_mod, fl._class_of(f), inline._local_names(f)
            for c in calls_in(f):
                res = fl.resolve(m, cls, c, local_names)
                if res is None or any(res[1] is g for g in found + nxt) or not fl._eligible(res[1], found):
                    continue
                if fl._bind(res[1], c, res[2], res[3]) is None:
                    continue  # arguments do not fit the signature: not a call the flattener would follow either
                nxt.append(res[1])
        found += nxt
        layer = nxt
    return [flat(ctx, f, depth) for f in found]


def check(ctx):
    ctx.not_decided += [
        "partial-write lengths and fsync/durability of the temp file",
        "SQLite's own crash safety (WAL) — trusted",
        "that a corrupt file left by *foreign* damage is tolerated on load (recorded, not demanded)",
    ]
    ctx.rule(
        "R1",
        "every write-mode open in history/json.py is either a mkstemp descriptor published by "
        "os.replace after the write completed, the creation of a not-yet-existing file, or an "
        "allow-listed operation outside the property; no other writer API is used",
        floor=5,
    )
    ctx.rule(
        "R2",
        "a failed write never reaches os.replace, and os.replace is executed only after the "
        "temp file was closed (siblings dump/delete/erasedups/unlock agree)",
        floor=3,
    )
    ctx.rule(
        "R3",
        "os.remove/os.unlink in the rewriting operations touch only the temp name (the final "
        "name is never removed on a failure path)",
        floor=1,
    )
    ctx.rule(
        "R4",
        "every sqlite execute() runs on a cursor of a connection obtained from the "
        "transactional context manager (`with conn:` inside _xh_sqlite_get_conn)",
        floor=8,
    )
    ctx.rule("R7", "a history file is replaced only by content built from a successful read of it (or on evidence that there is nothing to lose: the file is missing or its content does not parse): no handler that catches a failing file-system call on the read side (OSError family, FileNotFoundError excepted, or a catch-all) leads on to os.replace - an EMFILE / EIO / EACCES while opening the old file must not turn into 'start from an empty history'", floor=3)
    ctx.rule("R6", "SQLite backend: saved rows are changed by row-level statements only (INSERT / UPDATE / DELETE, which Python's sqlite3 wraps in the connection's transaction); no statement drops, renames or re-creates the history table or its index - sqlite3 does not open its implicit transaction for schema statements, each commits by itself, and a kill between two of them leaves a database without the saved commands", floor=15)
    ctx.rule("R5", "history files are written only through buffered file objects: a short write raises (or is retried), it is never silently accepted before the rename", floor=4)
    mod = ctx.repo.module(JSON)
    for q in LISTED:
        mod.func(q)  # anchors must exist

    publish_sequences = 0
    for q, fn in mod.functions():
        defs = df.all_defs(fn)
        cfg = None
        st = f"{JSON}:{q}"
        for c in calls_in(fn):
            nm = call_name(c) or ""
            la = last_attr(c)
            # ---- other writer APIs: not part of the idiom at all
            if nm in OTHER_WRITERS or la in OTHER_WRITER_ATTRS:
                ctx.ob(
                    "R1",
                    st,
                    f"no writer API outside the temp+replace idiom ({short(c, 60)})",
                    False,
                    key=f"{q}|other-writer|{nm or la}",
                    where=loc(c),
                )
                continue
            if nm in ("open", "io.open", "builtins.open"):
                mode = open_mode(c)
                if mode is None:
                    raise AnalysisError(f"{loc(c)}: open() with a non-constant mode")
                if not is_write_mode(mode):
                    continue
                path = c.args[0] if c.args else kwarg(c, "file")
                ptxt = unparse(path)
                cfg = cfg or CFG(fn)
                stmt = stmt_of(c)
                facts = []
                for n in node_in(cfg, stmt):
                    facts = facts_at(cfg, n)
                    break
                creates_new = any(
                    (not pol)
                    and isinstance(e, ast.Call)
                    and (call_name(e) or "").endswith("path.exists")
                    and expr_contains_text(e, path)
                    for e, pol in facts
                )
                if creates_new:
                    ctx.ob("R1", st, f"open({ptxt}, {mode!r}) creates a file that does not exist yet", True, where=loc(c))
                elif q in ALLOW_DIRECT:
                    ctx.ob("R1", st, f"open({ptxt}, {mode!r}) allow-listed: {ALLOW_DIRECT[q]}", True, where=loc(c))
                else:
                    ctx.ob(
                        "R1",
                        st,
                        f"open({ptxt}, {mode!r}) rewrites an existing history file in place "
                        "(a crash between truncation and the end of the write loses the saved commands)",
                        False,
                        key=f"{q}|in-place-open|{mode}",
                        where=loc(c),
                    )
                continue
            if nm == "os.fdopen":
                mode = open_mode(c)
                if mode is None:
                    raise AnalysisError(f"{loc(c)}: os.fdopen() with a non-constant mode")
                if not is_write_mode(mode):
                    continue
                fd = c.args[0] if c.args else None
                mk = _mkstemp_unpack(defs, fd.id) if isinstance(fd, ast.Name) else None
                ok = mk is not None and mk[1] == 0
                ctx.ob(
                    "R1",
                    st,
                    f"os.fdopen({unparse(fd)}, {mode!r}) writes a descriptor obtained from tempfile.mkstemp",
                    ok,
                    key=f"{q}|fdopen-not-mkstemp",
                    where=loc(c),
                )
                if not ok:
                    continue
                mkcall = mk[0]
                # the with statement that owns the descriptor
                wstmt = stmt_of(c)
                if not isinstance(wstmt, ast.With):
                    raise AnalysisError(f"{loc(c)}: temp descriptor not managed by a with statement (unknown shape)")
                # the temp name bound by the same mkstemp call
                tmpnames = [
                    n for n, ds in defs.items() for d in ds if d.kind == "unpack" and d.value is mkcall and d.index == 1
                ]
                if len(tmpnames) != 1:
                    raise AnalysisError(f"{loc(mkcall)}: cannot identify the temp name of mkstemp")
                tmp = tmpnames[0]
                cfg = cfg or CFG(fn)
                reps = [
                    r
                    for r in calls_in(fn)
                    if call_name(r) in ("os.replace", "os.rename") and r.args and is_name(r.args[0], tmp)
                ]
                if not reps:
                    ctx.note(f"{st}: temp file {tmp} is written but never published")
                    continue
                publish_sequences += 1
                for r in reps:
                    rstmt = stmt_of(r)
                    inside = lexically_inside(r, wstmt)
                    ctx.ob(
                        "R2",
                        st,
                        f"{short(r, 60)} runs after the temp file was closed (not inside the with that writes it)",
                        not inside,
                        key=f"{q}|replace-inside-with",
                        where=loc(r),
                    )
                    rn = node_in(cfg, rstmt)
                    fall = [n for n in cfg.nodes if n.kind == "with_exit" and n.ast is wstmt and n.tag == "fall"]
                    dom = all(cfg.dominated(n, lambda m: m in fall) for n in rn) if fall else False
                    ctx.ob(
                        "R2",
                        st,
                        f"{short(r, 60)} is reached only through the normal completion of the write",
                        dom or inside,
                        key=f"{q}|replace-not-dominated-by-write",
                        where=loc(r),
                    )
                    # failure edges of the write must not reach the replace (within one temp file)
                    mk_stmt = stmt_of(mkcall)
                    bad_starts = [n for n in cfg.nodes if n.kind == "with_exit" and n.ast is wstmt and n.tag == "raise"]
                    seen = cfg.reach(bad_starts, stop=lambda m: m.ast is mk_stmt) if bad_starts else {}
                    hit = [n for n in rn if n in seen]
                    ctx.ob(
                        "R2",
                        st,
                        f"no path from a failed write of the temp file to {short(r, 50)}",
                        not hit,
                        key=f"{q}|replace-after-failed-write",
                        where=loc(r),
                        path=cfg.fmt_path(cfg.path_to(seen, hit[0])) if hit else None,
                    )
                    # the published name must not be written by anybody else in between
                continue
            if nm in ("os.replace",):
                src = c.args[0] if c.args else None
                mk = _mkstemp_unpack(defs, src.id) if isinstance(src, ast.Name) else None
                ctx.ob(
                    "R1",
                    st,
                    f"{short(c, 70)} publishes a mkstemp temp file",
                    mk is not None and mk[1] == 1,
                    key=f"{q}|replace-source-not-temp",
                    where=loc(c),
                )
                continue
            if nm in ("os.remove", "os.unlink") and (q in LISTED or only_called_from(ctx.repo, mod, q, set(LISTED))):
                a0 = c.args[0] if c.args else None
                mk = _mkstemp_unpack(defs, a0.id) if isinstance(a0, ast.Name) else None
                ctx.ob(
                    "R3",
                    st,
                    f"{short(c, 60)} removes only the temp name",
                    mk is not None and mk[1] == 1,
                    key=f"{q}|unlink-final",
                    where=loc(c),
                )
            if la in ("ljdump", "ljdumps", "dump") and nm.split(".")[0] in ("xlj", "json", "lazyjson"):
                if la == "ljdump" or la == "dump":
                    fp = c.args[1] if len(c.args) > 1 else kwarg(c, "fp")
                    ok = False
                    if isinstance(fp, ast.Name):
                        ds = defs.get(fp.id, [])
                        ok = bool(ds) and all(
                            d.kind == "with"
                            and isinstance(d.value, ast.Call)
                            and call_name(d.value) in ("open", "os.fdopen")
                            for d in ds
                        )
                    ctx.ob(
                        "R1",
                        st,
                        f"{short(c, 60)} writes to a handle whose open() is classified by this rule",
                        ok,
                        key=f"{q}|ljdump-unknown-handle",
                        where=loc(c),
                    )
    for q in ("JsonHistoryFlusher.dump", "JsonHistory.delete", "JsonHistory.erasedups"):
        # helper-transparent: an extracted atomic-write helper counts, wherever in a statement its call stands
        has = any(call_name(c) == "os.replace" for view in _operation_views(ctx, mod.func(q), depth=2) for c in calls_in(view))
        ctx.ob("R2", f"{JSON}:{q}", "the operation publishes its result with os.replace", has, key=f"{q}|no-replace")
    # R3 floor helper: GC's deliberate removal is outside LISTED functions (JsonHistoryGC.run)
    ctx.extra["publish_sequences"] = publish_sequences

    # ---------------------------------------------------------------- sqlite
    sm = ctx.repo.module(SQLITE)
    getconn = sm.func("_xh_sqlite_get_conn")
    # shape of the context manager: the yield is lexically inside `with conn:` where conn = sqlite3.connect(...)
    ys = [n for n in walk_local(getconn) if isinstance(n, (ast.Yield,))]
    gdefs = df.all_defs(getconn)
    ok_shape = bool(ys)
    for y in ys:
        w = [a for a in ancestors(y) if isinstance(a, ast.With)]
        good = False
        for ws in w:
            for it in ws.items:
                e = df.resolve_copy(gdefs, it.context_expr)
                if isinstance(it.context_expr, ast.Name) and not (isinstance(e, ast.Call)):
                    # bound by an enclosing `with <expr> as conn`
                    for d_ in gdefs.get(it.context_expr.id, []):
                        if d_.kind == "with" and d_.value is not None:
                            e = d_.value
                if isinstance(e, ast.Call) and (call_name(e) or "").endswith("closing") and e.args:
                    e = e.args[0]  # contextlib.closing(x) yields x itself
                if isinstance(e, ast.Call) and (call_name(e) or "").endswith("sqlite3.connect"):
                    good = True
        ok_shape = ok_shape and good
    ctx.ob(
        "R4",
        f"{SQLITE}:_xh_sqlite_get_conn",
        "yields the connection from inside `with conn:` (commit on success, rollback on error)",
        ok_shape,
        key="_xh_sqlite_get_conn|yield-outside-transaction",
        where=loc(getconn),
    )
    # who may connect
    for q, fn in sm.functions():
        for c in calls_in(fn):
            if (call_name(c) or "").endswith("sqlite3.connect"):
                ctx.ob(
                    "R4",
                    f"{SQLITE}:{q}",
                    "sqlite3.connect is called only by the transactional context manager",
                    q == "_xh_sqlite_get_conn",
                    key=f"{q}|raw-connect",
                    where=loc(c),
                )
    # cursor provenance
    cursor_helpers = {}  # helper qual -> param name
    for q, fn in sm.functions():
        for c in calls_in(fn):
            if last_attr(c) in ("execute", "executemany", "executescript") and isinstance(c.func, ast.Attribute):
                recv = c.func.value
                if isinstance(recv, ast.Name):
                    defs = df.all_defs(fn)
                    ds = defs.get(recv.id, [])
                    if ds and all(d.kind == "param" for d in ds):
                        cursor_helpers.setdefault(q, set()).add(recv.id)
    progress = True
    # helpers calling helpers with their cursor param are fine; close over call sites
    def cursor_ok(fn, expr, defs):
        """expr evaluates to a cursor of a with-managed connection (or a cursor param)."""
        if isinstance(expr, ast.Call) and last_attr(expr) == "cursor" and isinstance(expr.func, ast.Attribute) and isinstance(expr.func.value, ast.Name):
            # the cursor taken in place: `helper(conn.cursor(), ..)`
            cds = defs.get(expr.func.value.id, [])
            return bool(cds) and all(cd.kind == "with" and isinstance(cd.value, ast.Call) and call_name(cd.value) == "_xh_sqlite_get_conn" and lexically_inside(expr, cd.stmt) for cd in cds)
        if not isinstance(expr, ast.Name):
            return False
        ds = defs.get(expr.id, [])
        if not ds:
            return False
        for d in ds:
            if d.kind == "param":
                continue
            if d.kind == "assign" and isinstance(d.value, ast.Call) and last_attr(d.value) == "cursor":
                conn = d.value.func.value if isinstance(d.value.func, ast.Attribute) else None
                if not isinstance(conn, ast.Name):
                    return False
                cds = defs.get(conn.id, [])
                if not cds or not all(
                    cd.kind == "with"
                    and isinstance(cd.value, ast.Call)
                    and call_name(cd.value) == "_xh_sqlite_get_conn"
                    and lexically_inside(d.stmt, cd.stmt)
                    for cd in cds
                ):
                    return False
                continue
            return False
        return True

    for q, fn in sm.functions():
        defs = df.all_defs(fn)
        for c in calls_in(fn):
            if last_attr(c) in ("execute", "executemany", "executescript") and isinstance(c.func, ast.Attribute):
                recv = c.func.value
                ok = cursor_ok(fn, recv, defs)
                # must also be lexically inside the with (cursor used after the context closed is a bug)
                if ok and isinstance(recv, ast.Name) and not all(d.kind == "param" for d in defs.get(recv.id, [])):
                    ws = [
                        a
                        for a in ancestors(c)
                        if isinstance(a, ast.With)
                        and any(
                            isinstance(it.context_expr, ast.Call) and call_name(it.context_expr) == "_xh_sqlite_get_conn"
                            for it in a.items
                        )
                    ]
                    ok = bool(ws)
                ctx.ob(
                    "R4",
                    f"{SQLITE}:{q}",
                    f"{short(c, 50)} runs on a cursor of a transactional connection",
                    ok,
                    key=f"{q}|execute-outside-transaction|{unparse(recv)}",
                    where=loc(c),
                )
            # call sites of cursor helpers
            nm = call_name(c)
            if nm in cursor_helpers and c.args:
                ok = cursor_ok(fn, c.args[0], defs)
                ctx.ob(
                    "R4",
                    f"{SQLITE}:{q}",
                    f"helper {nm}() receives a cursor of a transactional connection",
                    ok,
                    key=f"{q}|helper-cursor|{nm}",
                    where=loc(c),
                )
    del progress

    _sqlite_row_level_only(ctx)
    _replace_needs_successful_read(ctx)
    # ------------------------------------------------------------------ R5
    # "a failed write never reaches os.replace" (R2) relies on the write *raising*.  That is what the buffered
    # layers do: BufferedWriter/TextIOWrapper loop until everything is written and raise ENOSPC/EFBIG.  A raw,
    # unbuffered write (buffering=0, os.write) returns a short count instead; unless that count is looked at,
    # a truncated temp file is closed cleanly and published over the good file.
    n5 = 0
    for q, fn in mod.functions():
        for c in calls_in(fn):
            nm = call_name(c) or ""
            if nm in ("open", "os.fdopen", "io.open") and is_write_mode(open_mode(c) or "r"):
                n5 += 1
                buf = kwarg(c, "buffering") or (c.args[2] if len(c.args) > 2 else None)
                raw = buf is not None and const_value(buf, None) == 0 and not isinstance(const_value(buf, None), bool)
                ctx.ob("R5", f"{JSON}:{q}", f"`{short(c, 60)}`: history files are written through a buffered file object (a short write is retried or raises; it is never silently accepted)", not raw, key=f"{q}|unbuffered-writer", where=loc(c))
            if nm == "io.FileIO" or nm == "FileIO":
                n5 += 1
                ctx.ob("R5", f"{JSON}:{q}", f"`{short(c, 60)}`: history files are not written through a raw FileIO", False, key=f"{q}|raw-fileio", where=loc(c))
            if nm == "os.write":
                n5 += 1
                st_ = stmt_of(c)
                dropped = isinstance(st_, ast.Expr) and st_.value is c
                ctx.ob("R5", f"{JSON}:{q}", f"`{short(c, 50)}`: the byte count returned by os.write is used (short writes are possible)", not dropped, key=f"{q}|os-write-count-dropped", where=loc(c))
    if n5 < 4:
        raise AnalysisError(f"{JSON}: only {n5} writer constructions found")



def _sqlite_row_level_only(ctx):
    import re as _re

    sm = ctx.repo.module(SQLITE)
    BAD = (
        (r"\bDROP\s+TABLE\b", "drops a table"),
        (r"\bALTER\s+TABLE\b[^;]*\bRENAME\b", "renames a table / column"),
        (r"\bDROP\s+INDEX\b", "drops an index"),
        (r"\bCREATE\s+(?:TEMP\w*\s+)?TABLE\b(?!\s+IF\s+NOT\s+EXISTS)", "creates a table unconditionally"),
        (r"\bREPLACE\s+INTO\b|\bINSERT\s+OR\s+REPLACE\b", "replaces rows wholesale"),
        (r"\bPRAGMA\s+(?:journal_mode\s*=\s*(?:OFF|MEMORY)|synchronous\s*=\s*(?:OFF|0))", "switches journalling / syncing off"),
    )

    def text_of(e):
        return " ".join(n_.value for n_ in ast.walk(e) if isinstance(n_, ast.Constant) and isinstance(n_.value, str))

    n = 0
    for q, fn in sm.functions():
        defs = None
        for c in calls_in(fn):
            if not (isinstance(c.func, ast.Attribute) and c.func.attr in ("execute", "executemany", "executescript") and c.args):
                continue
            a0 = c.args[0]
            txt = text_of(a0)
            if isinstance(a0, ast.Name):
                defs = defs or df.all_defs(fn)
                seen_, todo = set(), [a0.id]
                while todo:
                    nm = todo.pop()
                    if nm in seen_:
                        continue
                    seen_.add(nm)
                    for d in defs.get(nm, []):
                        if d.value is not None:
                            txt += " " + text_of(d.value)
                            todo += [x.id for x in ast.walk(d.value) if isinstance(x, ast.Name)]
                    # sql += "..." pieces
                    for a in walk_local(fn):
                        if isinstance(a, ast.AugAssign) and isinstance(a.target, ast.Name) and a.target.id == nm:
                            txt += " " + text_of(a.value)
            n += 1
            hits = [why for rx, why in BAD if _re.search(rx, txt, _re.I)]
            if c.func.attr == "executescript":
                hits.append("executescript() commits the pending transaction first")
            ctx.ob("R6", f"{SQLITE}:{q}", f"`{short(c, 50)}` is a row-level statement (or an idempotent IF NOT EXISTS creation / ADD COLUMN migration)", not hits, key=f"{q}|schema-statement|{';'.join(hits)}", where=loc(c), detail="; ".join(hits) if hits else None)
    if n == 0:
        raise AnchorMissing(f"{SQLITE}: no execute() call")


OSERROR_FAMILY = {"OSError", "IOError", "EnvironmentError", "Exception", "BaseException", "PermissionError", "IsADirectoryError", "NotADirectoryError", "BlockingIOError", "InterruptedError", "TimeoutError", "ConnectionError"}


def _replace_needs_successful_read(ctx):
    jm = ctx.repo.module(JSON)
    n = 0
    done = set()  # a handler is judged once (it shows up again in the expanded view of every caller)
    ranges = [(f_.lineno, f_.end_lineno or f_.lineno, q_) for q_, f_ in jm.functions()]

    def home(line, default):
        best = None
        for lo, hi, q_ in ranges:
            if lo <= line <= hi and (best is None or lo >= best[0]):
                best = (lo, q_)
        return best[1] if best else default

    # innermost functions first, so that a handler is judged in the smallest function that also holds the rename
    PUB = ("os.replace", "os.rename", "shutil.move")
    # only functions that (through at most two calls inside the module) can reach the rename need the expanded view
    reach_pub = {q_.split(".")[-1] for q_, f_ in jm.functions() if any(call_name(c) in PUB for c in calls_in(f_))}
    for _ in range(2):
        reach_pub |= {q_.split(".")[-1] for q_, f_ in jm.functions() if any((call_name(c) or "").split(".")[-1] in reach_pub for c in calls_in(f_))}
    for q, fn0 in sorted(jm.functions(), key=lambda it: (it[1].end_lineno or 0) - it[1].lineno):
        if q.split(".")[-1] not in reach_pub:
            continue
        if not any(call_name(c) in ("os.replace", "os.rename", "shutil.move") for c in calls_in(fn0)):
            # the publish step may sit in a helper: look at the expanded view as well
            fn = flat(ctx, fn0, 2)
            if not any(call_name(c) in ("os.replace", "os.rename", "shutil.move") for c in calls_in(fn)):
                continue
        else:
            fn = flat(ctx, fn0, 2)
        cfg = None
        for t in walk_local(fn):
            if not isinstance(t, ast.Try):
                continue
            reads = [c for b_ in t.body for c in calls_in(b_) if (call_name(c) in ("open", "io.open") and not is_write_mode(open_mode(c) or "r")) or (call_name(c) or "").endswith("LazyJSON")]
            if not reads:
                continue
            for h in t.handlers:
                if h.lineno in done:
                    continue
                done.add(h.lineno)
                q = home(h.lineno, q)
                names = set()
                if h.type is None:
                    names.add("BaseException")
                else:
                    for x in ast.walk(h.type):
                        if isinstance(x, ast.Name):
                            names.add(x.id)
                        elif isinstance(x, ast.Attribute):
                            names.add(x.attr)
                n += 1
                fam = sorted(names & OSERROR_FAMILY)
                if not fam:
                    ctx.ob("R7", f"{JSON}:{q}", f"`except {unparse(h.type) if h.type is not None else ''}` around the read of the old file catches no failing file-system call (missing / unparsable content only)", True, key=f"{q}|read-failure-becomes-empty|{'+'.join(sorted(names))}", where=loc(h))
                    continue
                cfg = cfg or CFG(fn)
                starts = [nd for b_ in h.body for nd in cfg.nodes_of(b_)] or cfg.nodes_of(h)
                pubs = [nd for nd in cfg.nodes if nd.kind == "stmt" and any(call_name(c) in ("os.replace", "os.rename", "shutil.move") for c in calls_in(nd.ast))]
                seen = cfg.reach(starts, stop=lambda m: m.kind in ("for", "while"), include_starts=True)
                hit = [p_ for p_ in pubs if p_ in seen]
                ctx.ob("R7", f"{JSON}:{q}", f"`except {unparse(h.type) if h.type is not None else ''}` around the read of the old file ({', '.join(fam)}: a failing file-system call) does not lead on to the rename that replaces the file", not hit, key=f"{q}|read-failure-becomes-empty|{'+'.join(fam)}", where=loc(h), path=cfg.fmt_path(cfg.path_to(seen, hit[0])) if hit else None)
    if n == 0:
        raise AnalysisError(f"{JSON}: no guarded read of an old history file found in the rewriting operations")
    # the reader the rewriting operations rely on keeps the two kinds of failure apart: a failing file-system call must reach
    # them as OSError ("keep the file"), never relabelled as the content error they read as "corrupt, start empty"
    LJ = "xonsh/lib/lazyjson.py"
    lj = ctx.repo.module(LJ)
    CONTENT_ERRORS = {"ValueError", "JSONDecodeError", "KeyError", "TypeError", "IndexError", "LookupError", "UnicodeDecodeError"}
    n_h = 0
    for q, fn in lj.functions():
        for h in [x for x in walk_local(fn) if isinstance(x, ast.ExceptHandler)]:
            names = {"BaseException"} if h.type is None else {x.id if isinstance(x, ast.Name) else x.attr for x in ast.walk(h.type) if isinstance(x, (ast.Name, ast.Attribute))}
            if not (names & OSERROR_FAMILY):
                continue
            n_h += 1
            relabel = [r for b_ in h.body for r in ast.walk(b_) if isinstance(r, ast.Raise) and r.exc is not None and ((isinstance(r.exc, ast.Call) and (call_name(r.exc) or "").split(".")[-1] in CONTENT_ERRORS) or (isinstance(r.exc, ast.Name) and r.exc.id in CONTENT_ERRORS))]
            ctx.ob("R7", f"{LJ}:{q}", f"`except {unparse(h.type) if h.type is not None else ''}` does not re-raise a failing file-system call as a content error", not relabel, key=f"{q}|oserror-relabelled-as-content-error", where=loc(relabel[0]) if relabel else loc(h), detail=short(relabel[0], 60) if relabel else None)
    ctx.ob("R7", LJ, f"{n_h} handler(s) for OSError-family exceptions in the lazy reader, none turns them into ValueError & co. (JsonHistoryFlusher.dump keeps the file on OSError and starts empty on ValueError)", True, key="lazyjson|scanned")

META = {
    "technique": "static analysis: who-may-write + CFG dominance / failure-edge reachability over history/json.py and history/sqlite.py",
    "text": "Decides the write discipline behind crash safety on every path of the current source: every "
    "write-mode open/fdopen/replace/unlink in the JSON backend is classified (mkstemp descriptor published by "
    "os.replace only after the with-block closed it; failure edges of the write cannot reach the replace; no "
    "in-place rewrite of an existing file in flush/delete/erasedups/unlock), and every sqlite execute() is "
    "shown to run on a cursor of the transactional connection context. This is the mechanism the property "
    "rests on and it is a shape of the code, which sampled tests cannot see (the happy path is identical). "
    "It does not decide partial-write lengths, fsync durability or SQLite's own crash safety.",
    "note": "Decides the listed structural clauses, not the behaviour. Trusted: os.replace is atomic on POSIX, "
    "tempfile.mkstemp creates a fresh file, sqlite3 `with conn:` commits/rolls back. Allow-list: creation of a "
    "not-yet-existing session file; JsonHistory.clear (not an operation the property lists).",
    "more": "SQLite: saved rows are changed by row-level statements only (no DROP / RENAME / re-CREATE of the history table, which sqlite3 commits one by one). JSON: no handler that catches a failing file-system call around the read of the old file leads on to the rename - a read failure never becomes 'start from an empty history'. The lazy reader never re-raises a failing file-system call as a content error (the flusher keeps the file on OSError and starts empty on ValueError).",
}
