"""C07 — redirections and pipes deliver each stream to exactly the documented place.

The tokenizer's vocabulary of redirect spellings (writer) and the decoder in
``procs/specs.py`` (reader) are finite tables plus a loop-free decision function, so
their agreement is decidable from the source: every spelling the tokenizer can emit is
decoded, lands in the row the documentation gives it, all spellings of one operator
land in the same row, and the file modes are w/a/r.  Also: arity agreement with the
grammar, single-assignment stream slots, the pipe-sentinel lifecycle, and sibling
agreement of the stage-kind handlers on the merge flags.  Not decided: that bytes
actually arrive (run-time I/O).
"""

from __future__ import annotations

import ast

from .common import *
from ..engine import dtable, regexlang
from ..engine.fold import Folder, NotConstant

SP = "xonsh/procs/specs.py"
TK = "xonsh/parsers/tokenize.py"
BP = "xonsh/parsers/base.py"
PX = "xonsh/procs/proxies.py"

# ---- oracle, from the property statement / docs (tutorial "Input/Output redirection")
ORIG_CLASS = {"": "out", "o": "out", "out": "out", "1": "out", "e": "err", "err": "err", "2": "err", "a": "all", "all": "all", "&": "all"}
DEST_CLASS = {"o": "out", "out": "out", "1": "out", "&1": "out", "e": "err", "err": "err", "2": "err", "&2": "err", "p": "pipe"}
MODES = {">": "w", ">>": "a", "<": "r"}
# (class of origin, class of destination) -> decoder map that must contain the spelling
MERGE_ROW = {("err", "out"): "_E2O_MAP", ("out", "err"): "_O2E_MAP", ("all", "pipe"): "_A2P_MAP", ("err", "pipe"): "_E2P_MAP"}


def _shape(value):
    """Abstract outcome of a _redirect_streams path: tuple of three slot descriptions."""
    if not isinstance(value, ast.Tuple) or len(value.elts) != 3:
        return None
    out = []
    for e in value.elts:
        t = unparse(e)
        if isinstance(e, ast.Constant) and e.value is None:
            out.append("None")
        elif isinstance(e, ast.Constant):
            out.append(f"const:{e.value!r}")
        elif isinstance(e, ast.Call) and call_name(e) == "safe_open":
            out.append("OPEN(" + ", ".join(unparse(a) for a in e.args) + ")")
        else:
            out.append(t)
    return tuple(out)


def _apply(expr, rparam, v):
    """Value of a *string transformation of the spelling* (`r`, `r.replace(a, b)`, `r.strip()` ...)
    for the concrete spelling v.  Data-level evaluation of a pure str expression; anything else is
    an unrecognised shape."""
    if isinstance(expr, ast.Name) and expr.id == rparam:
        return v
    if isinstance(expr, ast.Constant) and isinstance(expr.value, str):
        return expr.value
    if isinstance(expr, ast.Call) and isinstance(expr.func, ast.Attribute) and expr.func.attr in ("replace", "strip", "lstrip", "rstrip", "lower", "upper") and all(isinstance(a, ast.Constant) for a in expr.args) and not expr.keywords:
        base = _apply(expr.func.value, rparam, v)
        return getattr(base, expr.func.attr)(*[a.value for a in expr.args])
    raise AnalysisError(f"redirect decoder looks the spelling up through an unrecognised transformation `{unparse(expr)}`")


def _split_spelling(s_):
    """origin / operator / destination of a spelling, by the first run of > or < (the regex's group
    languages contain neither character, so this split is the only possible match)."""
    i = 0
    while i < len(s_) and s_[i] not in "<>":
        i += 1
    j = i
    while j < len(s_) and s_[j] in "<>":
        j += 1
    return s_[:i], s_[i:j], s_[j:]


def check(ctx):
    ctx.not_decided += [
        "that bytes actually arrive at the target (run-time I/O)",
        "which stage kind a command resolves to at run time",
        "ordering of several redirects on one command beyond the single-assignment rule",
    ]
    ctx.rule("R1", "every redirect spelling the tokenizer can emit is decoded into the documented row (stream, merge, pipe, file mode); spellings of one operator agree; decoder tables are disjoint", floor=60)
    ctx.rule("R2", "arity agreement: spellings tokenised as IOREDIRECT2 take no target in the grammar and the decoder never opens a file for them; IOREDIRECT1/>/>>/< take one and the decoder always does", floor=8)
    ctx.rule("R3", "the stream slots are single-assignment (first value wins, None ignored, otherwise close + XonshError) and are written privately only by the documented sites", floor=6)
    ctx.rule("R4", "a pending a>p / e>p sentinel is either resolved by the following pipe or reported; it cannot reach execution", floor=3)
    ctx.rule("R6", "where a pipe takes a stream slot the assignment goes through the public conflict-checking setter on every path (documented exemption: stdout under e>p)", floor=4)
    ctx.rule("R7", "every stage whose output is captured, piped or redirected carries the capture-always marker, whatever per-command overlay it already has (nested commands of an alias stage write into the stage's stream, not the terminal)", floor=2)
    ctx.rule("R9", "a merge / to-pipe spelling (`2>out`, `o>e`, `a>p` ...) is an operator only as a whole word: the tokenizer's pattern asserts a word end after it, so `cmd 2>out.log`, `cmd 1>err.txt`, `cmd a>perf.log` redirect into the named file", floor=1)
    ctx.rule("R8", "a redirect target is opened the ordinary blocking way: the descriptor a stage inherits carries no status flags of xonsh's choosing (no custom opener, no O_NONBLOCK / O_NDELAY: on a FIFO or tty the stage would then read EAGAIN or write short)", floor=1)
    ctx.rule("R10", "a threaded alias stage gets the stream objects its resolved handles stand for, in every combination: a requested merge (stderr == subprocess.STDOUT) shares stdout's object even when stdout has no handle of its own, no request and no handle means the session's own stderr, an own handle means a writer on that handle (decision table of the selection in ProcProxyThread.run over the abstract handle values)", floor=6)
    ctx.rule("R11", "what the pipeline later reads from a threaded alias's `.stdout` / `.stderr` is a reader on the pipe or None, for both streams alike: the two attributes are normalised by the same chain of cases in ProcProxyThread.__init__ (a request flag left in `.stderr` - subprocess.STDOUT of `e>o` is the integer -2 - makes the command fail after it ran)", floor=2)
    ctx.rule("R12", "a callable alias gets the stage's stream objects under every naming of its parameters: run_alias_by_params binds by name only when *every* parameter carries a canonical name and binds by position as soon as one does not - the switch is computed from all parameters, with no exemption by default value or kind (`def f(args, inp=None, out=None, err=None)` must receive the streams, not its Nones)", floor=1)
    ctx.rule("R13", "the two output streams of the last stage are wired independently: in the function that prepares the capture of the last stage every normal path passes the decision about stdout *and* the decision about stderr (`if <spec>.stderr is not None ..`) - a way out after the stdout half (a 'nothing left to capture' shortcut for `cmd > file`) leaves stderr of `!(cmd > file)` unwired: it is inherited, reaches the terminal and never the capture", floor=2)
    ctx.rule("R5", "sibling stage-kind handlers agree on the merge flags (subprocess.STDOUT on stderr, the `2` flag on stdout)", floor=3)

    tk = ctx.repo.module(TK)
    sp = ctx.repo.module(SP)
    tf = Folder(tk)
    sf = Folder(sp)
    try:
        redir_names = tuple(tf.name("_redir_names"))
        redir_map = tuple(tf.name("_redir_map"))
        check1 = frozenset(tf.name("_redir_check_single"))
        check2 = frozenset(tf.name("_redir_check_map"))
        tables = {n: frozenset(sf.name(n)) for n in ("_REDIR_ALL", "_REDIR_ERR", "_REDIR_OUT", "_E2O_MAP", "_O2E_MAP", "_A2P_MAP", "_E2P_MAP", "_WRITE_MODES")}
        modes = dict(sf.name("_MODES"))
    except NotConstant as e:
        raise AnalysisError(f"redirect tables are no longer constant-foldable: {e}")
    ctx.extra["tables"] = {k: sorted(v) for k, v in tables.items()} | {"_MODES": modes, "_redir_map": list(redir_map), "_redir_names": list(redir_names)}

    # tokenizer classification sets must be what the names/maps generate
    ctx.ob("R2", f"{TK}:_redir_check_map", "IOREDIRECT2 vocabulary is exactly _redir_map", check2 == frozenset(redir_map), key="tok|check-map")
    want1 = {f"{n}>" for n in redir_names} | {f"{n}>>" for n in redir_names}
    ctx.ob("R2", f"{TK}:_redir_check_single", "IOREDIRECT1 vocabulary is exactly {name}> and {name}>> for every redirect name", check1 == frozenset(want1), key="tok|check-single")
    ctx.ob("R2", f"{TK}", "no spelling is both IOREDIRECT1 and IOREDIRECT2", not (check1 & check2), key="tok|overlap", detail=str(sorted(check1 & check2)))

    # ---- decoder decision structure
    rs = sp.func("_redirect_streams")
    st = f"{SP}:_redirect_streams"
    from ..engine import inline as _inl0

    rs_flat = _inl0.flatten(ctx.repo, rs, depth=2, skip=("_parse_redirects", "safe_open"))
    ps = [p_ for p_ in dtable.paths(rs_flat) if dtable.feasible(p_)]
    rparam, locparam = rs.args.args[0].arg, rs.args.args[1].arg
    rows = {}  # map name -> shape
    subj_ast = {}  # row -> AST of the expression that is looked up
    open_rows = {}  # (mode-atom, orig set) -> shape
    for p in ps:
        lits = dtable.literals(p)
        pos = [(e, pol) for e, pol in lits if pol]
        last = pos[-1][0] if pos else None
        if p.outcome == "raise":
            continue
        if p.outcome != "return":
            raise AnalysisError(f"{st}: path without return/raise: {p!r}")
        sh = _shape(p.value)
        if sh is None:
            raise AnalysisError(f"{st}: return value is not a 3-tuple on path {p!r}")
        if isinstance(last, ast.Compare) and isinstance(last.ops[0], ast.In):
            tbl = unparse(last.comparators[0])
            subj = unparse(last.left)
            if tbl in ("_A2P_MAP", "_E2P_MAP", "_E2O_MAP", "_O2E_MAP"):
                rows[tbl] = (sh, subj, p)
                subj_ast[tbl] = last.left
                continue
            if tbl in ("_REDIR_ALL", "_REDIR_OUT", "_REDIR_ERR"):
                open_rows[tbl] = (sh, subj, p)
                subj_ast[tbl] = last.left
                continue
        if isinstance(last, ast.Compare) and isinstance(last.ops[0], ast.Eq) and const_value(last.comparators[0]) == "r":
            open_rows["<"] = (sh, unparse(last.left), p)
            continue
        raise AnalysisError(f"{st}: unrecognised decision path {p!r}")
    need = {"_A2P_MAP", "_E2P_MAP", "_E2O_MAP", "_O2E_MAP"}
    if set(rows) != need or set(open_rows) != {"_REDIR_ALL", "_REDIR_OUT", "_REDIR_ERR", "<"}:
        raise AnalysisError(f"{st}: decision rows found {sorted(rows)} / {sorted(open_rows)}")
    strip = f"{rparam}.replace('&', '')"
    want_rows = {
        "_E2O_MAP": ("None", "None", "subprocess.STDOUT"),
        "_O2E_MAP": ("None", "const:2", "None"),
        "_A2P_MAP": ("None", "_PIPE_ALL", "subprocess.STDOUT"),
        "_E2P_MAP": ("None", "None", "_PIPE_ERR"),
    }
    for tbl, (sh, subj, p) in sorted(rows.items()):
        ctx.ob("R1", st, f"a spelling in {tbl} yields (stdin, stdout, stderr) = {want_rows[tbl]}", sh == want_rows[tbl], key=f"row|{tbl}", where=loc(p.node), detail=f"found {sh}")
        ctx.ob("R2", st, f"the {tbl} row opens no file (takes no target)", not any("OPEN" in s or locparam in s for s in sh), key=f"row-arity|{tbl}", where=loc(p.node))
    OPEN = f"OPEN({locparam}, "
    for tbl, idx in (("_REDIR_OUT", (1,)), ("_REDIR_ERR", (2,)), ("_REDIR_ALL", (1, 2)), ("<", (0,))):
        sh, subj, p = open_rows[tbl]
        ok = all((sh[i].startswith(OPEN)) == (i in idx) and (sh[i] == "None" or i in idx) for i in range(3))
        ctx.ob("R1", st, f"origin in {tbl} opens the target for slot(s) {idx} only", ok, key=f"open-row|{tbl}", where=loc(p.node), detail=f"found {sh}")
        # the mode passed to safe_open is the decoded mode of _parse_redirects (index 1)
        modes_txt = {s[len(OPEN):-1] for s in sh if s.startswith(OPEN)}
        ok = len(modes_txt) == 1 and "_parse_redirects" in next(iter(modes_txt)) and next(iter(modes_txt)).endswith("[1]")
        ctx.ob("R1", st, f"origin in {tbl}: the file is opened with the decoded mode", ok, key=f"open-mode|{tbl}", where=loc(p.node), detail=str(modes_txt))
        # must be guarded by the right mode test
        lits = dtable.literals(p)
        if tbl == "<":
            pass
        else:
            g = any(pol and isinstance(e, ast.Compare) and isinstance(e.ops[0], ast.In) and unparse(e.comparators[0]) == "_WRITE_MODES" for e, pol in lits)
            ctx.ob("R1", st, f"origin in {tbl} is consulted only for write modes", g, key=f"open-guard|{tbl}", where=loc(p.node))
    # subjects: map rows test r (pipe maps) / r without '&' (merge maps); open rows test the decoded origin
    del strip
    parse_arg = None
    for tbl in ("_REDIR_OUT", "_REDIR_ERR", "_REDIR_ALL"):
        s = open_rows[tbl][1]
        sa = subj_ast[tbl]
        okp = isinstance(sa, ast.Subscript) and const_value(sa.slice) == 0 and isinstance(sa.value, ast.Call) and call_name(sa.value) == "_parse_redirects" and len(sa.value.args) >= 1
        ctx.ob("R1", st, f"{tbl} is tested on the decoded origin", okp, key=f"open-subject|{tbl}", detail=s)
        if okp:
            parse_arg = sa.value.args[0]
    if parse_arg is None:
        raise AnalysisError(f"{st}: cannot find what is handed to _parse_redirects")

    # ---- decoder tables: disjointness (so the order of tests cannot matter)
    maps = ["_A2P_MAP", "_E2P_MAP", "_E2O_MAP", "_O2E_MAP"]
    for i, a in enumerate(maps):
        for b in maps[i + 1 :]:
            inter = {x.replace("&", "") for x in tables[a]} & {x.replace("&", "") for x in tables[b]}
            ctx.ob("R1", f"{SP}:{a}/{b}", "decoder maps are disjoint", not inter, key=f"disjoint|{a}|{b}", detail=str(sorted(inter)))
    for a, b in (("_REDIR_ALL", "_REDIR_ERR"), ("_REDIR_ALL", "_REDIR_OUT"), ("_REDIR_ERR", "_REDIR_OUT")):
        inter = tables[a] & tables[b]
        ctx.ob("R1", f"{SP}:{a}/{b}", "origin classes are disjoint", not inter, key=f"disjoint|{a}|{b}", detail=str(sorted(inter)))
    ctx.ob("R1", f"{SP}:_MODES", f"file modes are {MODES}", modes == MODES, key="modes", detail=str(modes))
    ctx.ob("R1", f"{SP}:_WRITE_MODES", "write modes are w and a", tables["_WRITE_MODES"] == {"w", "a"}, key="write-modes")

    # ---- the regex that splits origin / operator / destination
    rx = sp.func("_REDIR_REGEX")
    rp = [p for p in dtable.paths(rx) if p.outcome == "return"]
    if len(rp) != 1 or not isinstance(rp[0].value, ast.Call) or not rp[0].value.args:
        raise AnalysisError(f"{SP}:_REDIR_REGEX is not `return re.compile(<pattern>)`")
    try:
        pattern = Folder(sp).fold(rp[0].value.args[0], {})
    except NotConstant as e:
        raise AnalysisError(f"{SP}:_REDIR_REGEX pattern not constant: {e}")
    groups = [g for g in regexlang.top_groups(pattern)]
    cap = [lang for num, lang in groups if num is not None]
    if len(cap) != 3:
        raise AnalysisError(f"{SP}:_REDIR_REGEX: expected 3 capturing groups, found {len(cap)}")
    L_orig, L_op, L_dest = cap
    ctx.extra["regex"] = {"pattern": pattern, "origins": sorted(L_orig), "operators": sorted(L_op)}
    sep_free = all(">" not in s and "<" not in s for s in L_orig | L_dest)
    ctx.ob("R1", f"{SP}:_REDIR_REGEX", "origin/destination languages contain no operator character (the split is unambiguous)", sep_free, key="regex|ambiguous")
    ctx.ob("R1", f"{SP}:_REDIR_REGEX", f"operator group is exactly {sorted(MODES)}", L_op == set(MODES), key="regex|operators", detail=str(sorted(L_op)))
    anchored = groups and groups[-1][0] is None and groups[-1][1] == {""}
    ctx.ob("R1", f"{SP}:_REDIR_REGEX", "the pattern is anchored at the end", bool(anchored), key="regex|anchor")

    # ---- vocabulary, spelling by spelling
    V1 = sorted(want1 | {">", ">>", "<"})
    V2 = sorted(redir_map)
    rowsets = {}
    def claims(m, v):
        return _apply(subj_ast[m], rparam, v) in tables[m]

    for v in V1:
        op = ">>" if v.endswith(">>") else v[-1]
        orig = v[: -len(op)]
        site_ = f"spelling {v!r}"
        cls = ORIG_CLASS.get(orig)
        # what the decoder actually splits: the spelling after the transformation applied before _parse_redirects
        seen_by_parser = _apply(parse_arg, rparam, v)
        d_orig, d_op, d_dest = _split_spelling(seen_by_parser)
        ctx.ob("R1", site_, f"_parse_redirects receives the spelling with its origin and operator intact (it sees {seen_by_parser!r})", (d_orig, d_op, d_dest) == (orig, op, ""), key=f"vocab1|mangled-before-parse|{v}")
        ctx.ob("R1", site_, "the tokenizer's redirect name is a documented origin", cls is not None, key=f"vocab1|unknown-origin|{v}")
        if cls is None:
            continue
        ctx.ob("R1", site_, "the decoder's regex accepts the origin and the operator", orig in L_orig and op in L_op and "" in L_dest, key=f"vocab1|regex-rejects|{v}")
        tblname = {"out": "_REDIR_OUT", "err": "_REDIR_ERR", "all": "_REDIR_ALL"}[cls]
        if op == "<":
            ctx.ob("R1", site_, "`<` takes no origin", orig == "", key=f"vocab1|lt-origin|{v}")
            continue
        ctx.ob("R1", site_, f"origin {orig!r} is in {tblname} (documented stream: {cls})", orig in tables[tblname], key=f"vocab1|wrong-class|{v}")
        ctx.ob("R1", site_, f"operator {op!r} decodes to mode {MODES[op]!r}", modes.get(op) == MODES[op], key=f"vocab1|mode|{v}")
        rowsets.setdefault((cls, MODES[op]), []).append(v)
        # an IOREDIRECT1 spelling must not be captured by a merge/pipe map
        hit = [m for m in maps if claims(m, v)]
        ctx.ob("R1", site_, "a file redirect is not shadowed by a merge/pipe map", not hit, key=f"vocab1|shadowed|{v}", detail=str(hit))
    for v in V2:
        site_ = f"spelling {v!r}"
        if v.count(">") != 1:
            ctx.ob("R1", site_, "merge spelling has the form <origin>><destination>", False, key=f"vocab2|form|{v}")
            continue
        orig, dest = v.split(">")
        oc, dc = ORIG_CLASS.get(orig), DEST_CLASS.get(dest)
        row = MERGE_ROW.get((oc, dc))
        ctx.ob("R1", site_, f"documented meaning exists for ({oc} -> {dc})", row is not None, key=f"vocab2|undocumented|{v}")
        if row is None:
            continue
        ctx.ob("R1", site_, f"decoded by {row} (documented: {oc} -> {dc})", claims(row, v), key=f"vocab2|not-decoded|{v}")
        others = [m for m in maps if m != row and claims(m, v)]
        ctx.ob("R1", site_, "no other decoder map claims the spelling", not others, key=f"vocab2|ambiguous|{v}", detail=str(others))
        rowsets.setdefault(row, []).append(v)
    ctx.extra["equivalence_classes"] = {str(k): v for k, v in rowsets.items()}
    # every decoder-map entry should be tokenisable (reader-only spellings are dead but harmless): recorded only
    dead = sorted(x for m in maps for x in tables[m] if x not in check2 and not any(x == w.replace("&", "") for w in check2))
    if dead:
        ctx.note(f"decoder entries no tokenizer spelling reaches: {dead}")

    # ---- R2 grammar arity
    bp = ctx.repo.module(BP)
    gr = bp.func("BaseParser.p_subproc_atom_redirect")
    doc = ast.get_docstring(gr) or ""
    alts = [a.strip() for a in doc.replace("subproc_atom :", "|").split("|") if a.strip()]
    arity = {a.split()[0]: len(a.split()) for a in alts}
    ctx.ob("R2", f"{BP}:p_subproc_atom_redirect", "IOREDIRECT2 stands alone in the grammar", arity.get("IOREDIRECT2") == 1, key="grammar|io2-arity", detail=str(arity))
    for t in ("IOREDIRECT1", "GT", "LT", "RSHIFT"):
        ctx.ob("R2", f"{BP}:p_subproc_atom_redirect", f"{t} is followed by WS and a target", arity.get(t) == 3, key=f"grammar|{t}-arity", detail=str(arity))
    # resolve_redirects feeds the tuple (operator[, target]) positionally
    rr = sp.func("SubprocSpec.resolve_redirects")
    calls = [c for c in calls_in(rr) if call_name(c) == "_redirect_streams"]
    ok = bool(calls) and all(len(c.args) == 1 and isinstance(c.args[0], ast.Starred) for c in calls)
    ctx.ob("R2", f"{SP}:SubprocSpec.resolve_redirects", "the (operator[, target]) tuple is passed positionally to the decoder", ok, key="resolve_redirects|call-shape")
    asg = [n for n in walk_local(rr) if isinstance(n, ast.Assign) and isinstance(n.targets[0], ast.Tuple)]
    ok = any([unparse(t) for t in n.targets[0].elts] == ["self.stdin", "self.stdout", "self.stderr"] for n in asg)
    ctx.ob("R3", f"{SP}:SubprocSpec.resolve_redirects", "decoded streams are stored through the single-assignment properties in (stdin, stdout, stderr) order", ok, key="resolve_redirects|store-order")

    # ---- R3 setters
    cls = sp.cls("SubprocSpec")
    for slot in ("stdin", "stdout", "stderr"):
        setter = None
        for n in cls.body:
            if isinstance(n, ast.FunctionDef) and n.name == slot and any(unparse(d) == f"{slot}.setter" for d in n.decorator_list):
                setter = n
        if setter is None:
            raise AnchorMissing(f"{SP}:SubprocSpec.{slot} setter")
        from ..engine import inline as _inl

        fsetter = _inl.flatten(ctx.repo, setter, depth=2, skip=("safe_close", "get_command_str"))
        sps = [p for p in dtable.paths(fsetter, stores=True) if dtable.feasible(p)]
        val = setter.args.args[1].arg
        priv = f"self._{slot}"
        ok_first = ok_none = ok_raise = False
        bad = None
        for p in sps:
            lits = set()
            for e, pol in p.conds:
                for e2, p2 in dtable.branches(e, pol)[0] if len(dtable.branches(e, pol)) == 1 else [dtable.normalise(e, pol)]:
                    lits.add((unparse(e2), p2))
            writes = [e for e in p.effects if isinstance(e, ast.Assign) and unparse(e.targets[0]) == priv]
            empty = (f"{priv} is None", True) in lits
            if empty:
                # the first value is stored (exactly the value handed in)
                ok_first = ok_first or (len(writes) == 1 and unparse(writes[0].value) == val and p.outcome == "fall")
                if not (len(writes) == 1 and unparse(writes[0].value) == val):
                    bad = p
                continue
            if writes:
                bad = p  # the slot is overwritten although it is taken
                continue
            if (f"{val} is None", True) in lits:
                ok_none = p.outcome == "fall"
                if p.outcome != "fall":
                    bad = p
                continue
            if p.outcome == "raise" and "XonshError" in unparse(p.value):
                closes = any("safe_close" in unparse(e) for e in p.effects)
                ok_raise = closes
                if not closes:
                    bad = p
                continue
            bad = p
        ctx.ob("R3", f"{SP}:SubprocSpec.{slot}.setter", "first value wins; None is ignored; a second value is closed and reported as XonshError", ok_first and ok_none and ok_raise and bad is None, key=f"setter|{slot}", where=loc(setter), detail=f"first={ok_first} none={ok_none} raise+close={ok_raise} other={bad!r}")
    # private writers (a helper whose every call site lies inside a documented writer counts as part of it)
    def only_called_from(m_, q_, allowed_, depth=2):
        bare = q_.split(".")[-1]
        callers = [q2 for q2, f2 in m_.functions() if q2 != q_ and any((call_name(c) or "").split(".")[-1] == bare for c in calls_in(f2))]
        other_mods = [m2.rel for m2 in ctx.repo.modules("xonsh", containing=bare) if m2.rel != m_.rel and any((call_name(c) or "").split(".")[-1] == bare for c in ast.walk(m2.tree) if isinstance(c, ast.Call))]
        if not callers or other_mods or bare.startswith("__"):
            return False
        return all(c_ in allowed_ or (depth > 0 and only_called_from(m_, c_, allowed_, depth - 1)) for c_ in callers)

    allowed = {"SubprocSpec.__init__", "SubprocSpec.stdin", "SubprocSpec.stdout", "SubprocSpec.stderr", "cmds_to_specs", "_make_last_spec_captured"}
    for m in ctx.repo.modules("xonsh/procs"):
        for q, fn in m.functions():
            for n in walk_local(fn):
                if isinstance(n, (ast.Assign, ast.AugAssign)):
                    tg = n.targets if isinstance(n, ast.Assign) else [n.target]
                    for t in tg:
                        for tt in (t.elts if isinstance(t, ast.Tuple) else [t]):
                            if isinstance(tt, ast.Attribute) and tt.attr in ("_stdin", "_stdout", "_stderr") and not (isinstance(tt.value, ast.Name) and tt.value.id == "self" and m.rel != SP):
                                ok = m.rel == SP and (q in allowed or only_called_from(m, q, allowed))
                                ctx.ob("R3", f"{m.rel}:{q}", f"`{short(n, 60)}` bypasses the single-assignment setter only at a documented site", ok, key=f"{m.rel}:{q}|private-slot-write|{tt.attr}", where=loc(n))
    # in cmds_to_specs the private writes only clear a sentinel that was just tested
    c2s = sp.func("cmds_to_specs")
    ccfg = CFG(c2s)
    for n in ccfg.nodes:
        if n.kind == "stmt" and isinstance(n.ast, ast.Assign):
            for t in n.ast.targets:
                if isinstance(t, ast.Attribute) and t.attr in ("_stdout", "_stderr"):
                    facts = facts_text(facts_at(ccfg, n))
                    sent = {"_stdout": "_PIPE_ALL", "_stderr": "_PIPE_ERR"}[t.attr]
                    ok = const_value(n.ast.value, 0) is None and (f"{unparse(t)} is {sent}", True) in nfacts(ccfg, n)
                    ctx.ob("R4", f"{SP}:cmds_to_specs", f"`{short(n.ast)}` clears exactly the tested pipe sentinel", ok, key=f"cmds_to_specs|sentinel-clear|{t.attr}", where=loc(n.ast), detail="; ".join(facts))
    # ---- R4 residual sentinel check dominates the normal return
    raises = [n for n in ccfg.nodes if n.kind == "stmt" and isinstance(n.ast, ast.Raise) and "requires a following pipe" in unparse(n.ast)]
    resid = None
    for n in ccfg.nodes:
        if n.kind == "if":
            ts = unparse(n.ast.test)
            if "_PIPE_ALL" in ts and "_PIPE_ERR" in ts and isinstance(n.ast.test, ast.BoolOp) and isinstance(n.ast.test.op, ast.Or):
                resid = n
    ok = resid is not None and bool(raises) and any(isinstance(s, ast.Raise) for s in resid.ast.body)
    ctx.ob("R4", f"{SP}:cmds_to_specs", "a residual-sentinel test (`_stdout is _PIPE_ALL or _stderr is _PIPE_ERR`) raises XonshError", ok, key="cmds_to_specs|no-residual-check", where=loc(c2s))
    if resid is not None:
        loop = next((a for a in ancestors(resid.ast) if isinstance(a, ast.For)), None)
        over_specs = loop is not None and isinstance(loop.iter, ast.Name) and loop.iter.id in returned_names(c2s)
        ctx.ob("R4", f"{SP}:cmds_to_specs", "the residual check visits every spec", over_specs, key="cmds_to_specs|residual-not-all-specs", where=loc(resid.ast))
        rets = [n for n in ccfg.nodes if n.kind == "stmt" and isinstance(n.ast, ast.Return)]
        ln = node_in(ccfg, loop) if loop is not None else [resid]
        ok = bool(rets) and all(ccfg.dominated(r, lambda m_: m_ in ln) for r in rets)
        ctx.ob("R4", f"{SP}:cmds_to_specs", "every normal return passes the residual check", ok, key="cmds_to_specs|return-bypasses-residual", where=loc(c2s))
        # and the check comes after the wiring loop (so that resolved sentinels are gone)
        def makes_pipe(c, depth=2):
            if "from_pipe" in unparse(c.func):
                return True
            nm_ = (call_name(c) or "").split(".")[-1]
            return depth > 0 and sp.has(nm_) and isinstance(sp.quals[nm_], FuncTypes) and any(makes_pipe(c2_, depth - 1) for c2_ in calls_in(sp.quals[nm_], local=False))

        wiring = [n for n in ccfg.nodes if n.kind == "for" and any(makes_pipe(c) for c in calls_in(n.ast, local=False))]
        ok = bool(wiring) and all(ccfg.dominated(x, lambda m_: m_ in wiring) for x in ln)
        ctx.ob("R4", f"{SP}:cmds_to_specs", "the residual check runs after the pipes were wired", ok, key="cmds_to_specs|residual-before-wiring", where=loc(c2s))

    # ---- R5 sibling handlers
    px = ctx.repo.module(PX)
    gh = px.func("ProcProxyThread._get_handles")
    pb = px.func("ProcProxy._pick_buf")
    wt = px.func("ProcProxy.wait")

    def mentions_stdout_flag(fn):
        return any(isinstance(n, ast.Compare) and "subprocess.STDOUT" in unparse(n) for n in ast.walk(fn))

    ctx.ob("R5", f"{PX}:ProcProxyThread._get_handles", "threaded-alias handle resolution has a branch for stderr == subprocess.STDOUT (e>o)", mentions_stdout_flag(gh), key="_get_handles|no-STDOUT-branch", where=loc(gh))
    ctx.ob("R5", f"{PX}:ProcProxy._pick_buf", "unthreaded-alias buffer selection has a branch for stderr == subprocess.STDOUT (e>o), like its sibling _get_handles", mentions_stdout_flag(pb) or mentions_stdout_flag(wt), key="_pick_buf|no-STDOUT-branch", where=loc(pb))
    # the `2` flag on stdout: an int below 3 must select the stream by *value*, not the slot's own sys buffer
    by_value = False
    for n in ast.walk(pb):
        if isinstance(n, ast.Compare) and isinstance(n.ops[0], (ast.Eq, ast.Is)) and const_value(n.comparators[0], None) in (1, 2):
            by_value = True
    for n in ast.walk(wt):
        if isinstance(n, ast.Compare) and isinstance(n.ops[0], (ast.Eq, ast.Is)) and const_value(n.comparators[0], None) == 2 and ("self.stdout" in unparse(n) or (isinstance(n.left, ast.Name) and any("out" in unparse(d_.value) and "self." in unparse(d_.value) for d_ in df.all_defs(wt).get(n.left.id, []) if d_.value is not None))):
            # (the stdout handle, under its own name or a local copy of it, is tested for the flag before a buffer is picked)
            by_value = True
    ctx.ob("R5", f"{PX}:ProcProxy._pick_buf", "an integer handle 0-2 selects the standard stream by its value (stdout slot holding the `2` flag of o>e means stderr)", by_value, key="_pick_buf|fd-flag-2-not-distinguished", where=loc(pb))


    # ------------------------------------------------------------------ R6
    # conflicts are reported by the public slot setters (R3).  Where a pipe takes a slot, the
    # assignment must therefore go through the setter on every path; the one documented exemption is
    # stdout under `e>p` (the pipe then carries stderr only when stdout was diverted).  A wiring that
    # tests the private slot and silently skips the setter accepts `cmd > file | next`.
    from ..engine import inline, dtable as _dt

    flat_c2s = inline.flatten(ctx.repo, c2s, depth=1, skip=("_redirect_streams", "_parse_redirects", "_flatten_cmd_redirects"))
    pipe_ifs = [n for n in ast.walk(flat_c2s) if isinstance(n, ast.If) and isinstance(n.test, ast.Compare) and any(const_value(x) == "|" for x in [n.test.left] + n.test.comparators) and any("from_pipe" in unparse(c.func) for c in calls_in(n, local=False))]
    if len(pipe_ifs) != 1:
        raise AnalysisError(f"{SP}:cmds_to_specs: expected one `redirect == '|'` wiring branch, found {len(pipe_ifs)}")
    n_paths = 0
    for pth in _dt.paths(pipe_ifs[0].body, stores=True, loops="skip"):
        if pth.outcome != "fall" or not _dt.feasible(pth):
            continue
        n_paths += 1
        stores_ = [e for e in pth.effects if isinstance(e, ast.Assign) and isinstance(e.targets[0], ast.Attribute)]
        pub_out = any(e.targets[0].attr == "stdout" and "write_fd" in unparse(e.value) for e in stores_)
        pub_in = any(e.targets[0].attr == "stdin" and "read_fd" in unparse(e.value) for e in stores_)
        conds_ = [(unparse(e), pol) for e, pol in pth.conds]
        epipe = any(t.endswith("._stderr is _PIPE_ERR") and pol for t, pol in conds_)
        desc = "; ".join(("" if pol else "not ") + t for t, pol in conds_) or "unconditional"
        ctx.ob("R6", f"{SP}:cmds_to_specs", f"pipe wiring, path [{desc}]: the upstream stdout slot is taken through the conflict-checking setter (or the pipe carries only stderr: e>p)", pub_out or epipe, key="pipe-wiring|stdout-setter-skipped", where=loc(pipe_ifs[0]))
        ctx.ob("R6", f"{SP}:cmds_to_specs", f"pipe wiring, path [{desc}]: the downstream stdin slot is taken through the conflict-checking setter", pub_in, key="pipe-wiring|stdin-setter-skipped", where=loc(pipe_ifs[0]))
    if n_paths < 2:
        raise AnalysisError(f"{SP}:cmds_to_specs: only {n_paths} feasible wiring path(s)")

    _capture_marker(ctx)
    _alias_stream_selection(ctx)
    _reader_attr_siblings(ctx)
    _alias_param_binding(ctx)
    _streams_wired_independently(ctx)
    _merge_spelling_boundary(ctx, tk, tf, redir_map)
    # ---- R8: how redirect targets are opened
    spm = ctx.repo.module(SP)
    so = flat(ctx, spm.func("safe_open"), 2)
    n8 = 0
    for c in calls_in(so):
        if getattr(stmt_of(c), "_xv_call_marker", False):
            continue
        nm = call_name(c) or ""
        if nm == "open":
            n8 += 1
            op = kwarg(c, "opener")
            ctx.ob("R8", f"{SP}:safe_open", f"`{short(c, 60)}` uses the interpreter's own opener", op is None or const_value(op, 0) is None, key="safe_open|custom-opener", where=loc(c), detail=None if op is None else f"opener={short(op)}: whatever flags it sets stay on the open file description the stage inherits")
        elif nm == "os.open":
            n8 += 1
            fl = unparse(c.args[1]) if len(c.args) > 1 else ""
            bad = [f for f in ("O_NONBLOCK", "O_NDELAY") if f in fl]
            ctx.ob("R8", f"{SP}:safe_open", f"`{short(c, 60)}` sets no non-blocking flag", not bad, key="safe_open|nonblocking-target", where=loc(c), detail=f"{bad}" if bad else None)
    # the same for any os.open in the module whose flags say non-blocking and whose result can become a stage's stream
    for q8, f8 in spm.functions():
        for c in calls_in(f8):
            if call_name(c) == "os.open" and len(c.args) > 1 and any(f in unparse(c.args[1]) for f in ("O_NONBLOCK", "O_NDELAY")):
                ctx.ob("R8", f"{SP}:{q8}", f"`{short(c, 60)}` opens something non-blocking in the module that wires the stages' streams", False, key=f"{q8}|nonblocking-open", where=loc(c))
    if not n8:
        raise AnchorMissing(f"{SP}:safe_open: the open call")



def _streams_wired_independently(ctx):
    """R13: every normal path of the last stage's capture wiring decides about stdout and about stderr."""
    sp = ctx.repo.module("xonsh/procs/specs.py")
    # by role: the function that opens the capture pipes of a stage - it stores into `.captured_stdout` and
    # `.captured_stderr` of its parameter
    cands = []
    for q, f in sp.functions():
        if "." in q or not f.args.args:
            continue
        fv = flat(ctx, f, 2)
        tg = {t.attr for a in walk_local(fv) if isinstance(a, ast.Assign) and isinstance(a.value, ast.Call) and (call_name(a.value) or "").endswith("open_reader") for t in a.targets if isinstance(t, ast.Attribute)}
        if {"captured_stdout", "captured_stderr"} <= tg:
            cands.append((q, f))
    # the innermost one: it calls no other candidate (callers see both stores through it)
    names = {q for q, _ in cands}
    cands = [(q, f) for q, f in cands if not any((call_name(c) or "") in names - {q} for c in calls_in(f))]
    if len(cands) != 1:
        raise AnalysisError(f"xonsh/procs/specs.py: the function that wires the capture of the last stage not identified ({[q for q, _ in cands]})")
    q, fn = cands[0]
    fn = flat(ctx, fn, 2)
    st = f"xonsh/procs/specs.py:{q}"
    spec = fn.args.args[0].arg
    cfg = CFG(fn)
    for stream in ("stdout", "stderr"):
        # the decision nodes of this stream: tests that read <spec>.<stream>, and stores into it / its capture slot
        dec = [n for n in cfg.nodes if n.kind == "if" and any(isinstance(x, ast.Attribute) and x.attr == stream and unparse(x.value) == spec for x in ast.walk(n.ast.test)) and any(isinstance(a, ast.Assign) and any(isinstance(t, ast.Attribute) and t.attr in (stream, f"captured_{stream}") for t in a.targets) for a in ast.walk(n.ast))]
        if not dec:
            raise AnalysisError(f"{st}: no decision about {stream} found")
        ok, path = cfg.must_pass(cfg.entry, lambda m, dec=dec: m in dec, exits=("exit",))
        ctx.ob("R13", st, f"every normal path decides how {stream} of the last stage is wired", ok, key=f"{q}|{stream}-decision-skippable", where=loc(dec[0].ast), path=cfg.fmt_path(path) if path else None, detail=None if ok else f"a way out of the function goes round the decision about {stream}: under the capture forms that wire it (`!()`), the stream stays inherited - it reaches the terminal and never the capture")


def _alias_stream_selection(ctx):
    """ProcProxyThread.run turns (c2pwrite, errwrite) - resolved by _get_handles - into the objects the alias writes to.
    _get_handles encodes `e>o` as errwrite = c2pwrite, which is -1 == -1 when stdout has no handle: the selection can
    tell 'merge requested' from 'nothing requested' only through what __init__ remembered of the request."""
    from ..engine import dtable as _dt

    px = ctx.repo.module(PX)
    # helper-transparent view: the selection may live in a method run() calls (`a, b, c = self._helper(..)`); the helper's
    # body is spliced in, its returned tuple takes the place of the call and is unpacked element-wise by dtable.paths
    run = flat(ctx, px.func("ProcProxyThread.run"), 2)
    st = f"{PX}:ProcProxyThread.run"
    init = px.func("ProcProxyThread.__init__", raw=True)
    errp = next((a.arg for a in init.args.args + init.args.kwonlyargs if a.arg == "stderr"), None)
    # what __init__ remembers of the request: self.<attr> = <... stderr == subprocess.STDOUT ...>
    merge_attrs = set()
    for n in walk_local(init):
        if isinstance(n, ast.Assign) and any(isinstance(c, ast.Compare) and "subprocess.STDOUT" in unparse(c) and errp and errp in df.names_read(c) for c in ast.walk(n.value)):
            merge_attrs |= {unparse(t) for t in n.targets if isinstance(t, ast.Attribute) and unparse(t.value) == "self"}
    OUT = ERR = None
    k = None
    for i, s_ in enumerate(run.body):
        for c in calls_in(s_):
            nm = call_name(c) or ""
            if nm.endswith("STDOUT_DISPATCHER.register") and c.args and isinstance(c.args[0], ast.Name):
                OUT, k = c.args[0].id, i if k is None else k
            if nm.endswith("STDERR_DISPATCHER.register") and c.args and isinstance(c.args[0], ast.Name):
                ERR, k = c.args[0].id, i if k is None else k
    if OUT is None or ERR is None:
        raise AnalysisError(f"{st}: the objects registered with the stdout/stderr dispatchers were not found")
    paths_ = [p_ for p_ in _dt.paths(run.body[:k], loops="skip") if p_.outcome == "fall"]
    if not paths_:
        raise AnalysisError(f"{st}: no path reaches the alias call")

    def ev(e, env):
        if isinstance(e, ast.Constant):
            return e.value
        if isinstance(e, ast.UnaryOp) and isinstance(e.op, ast.USub) and isinstance(e.operand, ast.Constant):
            return -e.operand.value
        if isinstance(e, ast.UnaryOp) and isinstance(e.op, ast.Not):
            v = ev(e.operand, env)
            return None if v is None else (not v)
        if isinstance(e, (ast.Attribute, ast.Name)):
            return env.get(unparse(e))
        if isinstance(e, ast.BoolOp):
            vs = [ev(v, env) for v in e.values]
            if isinstance(e.op, ast.And):
                return False if any(v is False for v in vs) else (None if any(v is None for v in vs) else True)
            return True if any(v is True for v in vs) else (None if any(v is None for v in vs) else False)
        if isinstance(e, ast.Compare) and len(e.ops) == 1:
            a, b = ev(e.left, env), ev(e.comparators[0], env)
            if a is None or b is None:
                return None
            op = e.ops[0]
            if isinstance(op, (ast.Eq, ast.Is)):
                return a == b
            if isinstance(op, (ast.NotEq, ast.IsNot)):
                return a != b
            if isinstance(op, ast.Gt):
                return a > b
            if isinstance(op, ast.GtE):
                return a >= b
            if isinstance(op, ast.Lt):
                return a < b
            if isinstance(op, ast.LtE):
                return a <= b
        return None

    def kind(p_):
        e, o = p_.env.get(ERR), p_.env.get(OUT)
        if e is None:
            return "unknown"
        te = unparse(e)
        if o is not None and te == unparse(o):
            return "stdout-object"
        if te == "sys.stderr":
            return "session-stderr"
        if any(isinstance(c, ast.Call) and call_name(c) in ("open", "io.open", "os.fdopen") and c.args and unparse(c.args[0]) == "self.errwrite" for c in ast.walk(e)):
            return "own-writer"
        return "other:" + te[:40]

    SCEN = (
        ("merge requested, stdout has no handle (`$[al e>o]`)", dict(c=-1, e=-1, m=True), {"stdout-object"}),
        ("merge requested, stdout has a handle (`al e>o | next`)", dict(c=7, e=7, m=True), {"stdout-object"}),
        ("nothing requested, no handles (`$[al]`)", dict(c=-1, e=-1, m=False), {"session-stderr"}),
        ("stderr has its own handle, stdout none (`$[al e> f]`)", dict(c=-1, e=9, m=False), {"own-writer"}),
        ("both have their own handles", dict(c=7, e=9, m=False), {"own-writer"}),
        ("only stdout has a handle (`al > f`)", dict(c=7, e=-1, m=False), {"session-stderr"}),
        ("one descriptor behind both (`al a> f`)", dict(c=7, e=7, m=False), {"stdout-object", "own-writer"}),
    )
    for text, sc, want in SCEN:
        env = {"self.c2pwrite": sc["c"], "self.errwrite": sc["e"]}
        for a_ in merge_attrs:
            env[a_] = sc["m"]
        got = set()
        for p_ in paths_:
            if any(ev(e_, env) is (not pol_) for e_, pol_ in p_.conds):
                continue
            got.add(kind(p_))
        ok = bool(got) and got <= want
        ctx.ob("R10", st, f"{text}: the alias's stderr is {' or '.join(sorted(want))}", ok, key=f"alias-stderr|{sorted(sc.items())}", where=loc(run), detail=None if ok else f"selected: {sorted(got)}" + ("" if merge_attrs else "; __init__ keeps no record of `stderr == subprocess.STDOUT`, so a requested merge without a stdout handle and no request at all are the same -1 == -1 to the selection"))



def _reader_attr_siblings(ctx):
    px = ctx.repo.module(PX)
    init = px.func("ProcProxyThread.__init__")
    st = f"{PX}:ProcProxyThread.__init__"
    import re as _re

    def chain(n):
        out = []
        while True:
            out.append((n.test, n.body))
            if len(n.orelse) == 1 and isinstance(n.orelse[0], ast.If):
                n = n.orelse[0]
            else:
                if n.orelse:
                    out.append((None, n.orelse))
                return out

    def norm(txt, attr, rd):
        return _re.sub(rf"\b{rd}\b", "<READ-FD>", _re.sub(rf"\b{attr}\b", "<STREAM>", txt))

    found = {}
    for attr, rd in (("stdout", "c2pread"), ("stderr", "errread")):
        for n in walk_local(init):
            if isinstance(n, ast.If) and not (isinstance(parent(n), ast.If) and n in parent(n).orelse) and f"self.{rd}" in unparse(n.test):
                cases = []
                for test, body in chain(n):
                    stores = sorted(norm(unparse(b), attr, rd) for b in body if isinstance(b, ast.Assign) and any(unparse(t) == f"self.{attr}" for t in b.targets))
                    if any(isinstance(x, ast.If) for b in body for x in ast.walk(b)):
                        stores.append("<nested>")
                    cases.append((norm(unparse(test), attr, rd) if test is not None else "<else>", tuple(stores)))
                found[attr] = (n, cases)
    if set(found) != {"stdout", "stderr"}:
        raise AnalysisError(f"{st}: the normalisation chains of .stdout/.stderr were not found ({sorted(found)})")
    so, se = found["stdout"][1], found["stderr"][1]
    tests_o, tests_e = [c[0] for c in so], [c[0] for c in se]
    for t in tests_o:
        ctx.ob("R11", st, f"the case `{t}` of the .stdout normalisation has its sibling in the .stderr normalisation", t in tests_e, key=f"reader-attr|stderr-lacks|{t}", where=loc(found["stderr"][0]))
    for t in tests_e:
        if t not in tests_o:
            ctx.ob("R11", st, f"the case `{t}` of the .stderr normalisation has its sibling in the .stdout normalisation", False, key=f"reader-attr|stdout-lacks|{t}", where=loc(found["stdout"][0]))



def _alias_param_binding(ctx):
    AL = "xonsh/aliases.py"
    am = ctx.repo.module(AL)
    fn = flat(ctx, am.func("run_alias_by_params"), 1)
    st = f"{AL}:run_alias_by_params"
    defs = df.all_defs(fn)
    # the positional-mode switch: the `if` whose body rebinds the keyword mapping from a zip over the signature order
    sw = [n for n in walk_local(fn) if isinstance(n, ast.If) and any(isinstance(c, ast.Call) and call_name(c) == "zip" for b_ in n.body for c in ast.walk(b_)) and not any(isinstance(a, ast.If) and any(isinstance(c, ast.Call) and call_name(c) == "zip" for b_ in a.body for c in ast.walk(b_)) for a in ancestors(n) if isinstance(a, ast.If))]
    if len(sw) != 1:
        raise AnalysisError(f"{st}: the positional-mode switch was not found ({len(sw)})")
    t = sw[0].test
    # everything the test is computed from, locals resolved
    exprs = [t]
    seen_ = set()
    todo = [x.id for x in ast.walk(t) if isinstance(x, ast.Name)]
    while todo:
        nm = todo.pop()
        if nm in seen_:
            continue
        seen_.add(nm)
        for d in defs.get(nm, []):
            if d.value is not None and d.kind == "assign":
                exprs.append(d.value)
                todo += [x.id for x in ast.walk(d.value) if isinstance(x, ast.Name)]
    # (a mapping / list the test depends on may be filled by a loop instead of a comprehension: its guards count as filters)
    for l_ in [x for x in walk_local(fn) if isinstance(x, ast.For)]:
        fills = {t.value.id for a in ast.walk(l_) if isinstance(a, ast.Assign) for t in a.targets if isinstance(t, ast.Subscript) and isinstance(t.value, ast.Name)} | {c.func.value.id for c in ast.walk(l_) if isinstance(c, ast.Call) and isinstance(c.func, ast.Attribute) and c.func.attr in ("append", "add") and isinstance(c.func.value, ast.Name)}
        if fills & seen_:
            exprs += [g.test for g in ast.walk(l_) if isinstance(g, ast.If)]
    # a filter on the parameters other than the name test exempts some of them
    exempt = []
    for e in exprs:
        for g in [x for x in ast.walk(e) if isinstance(x, ast.comprehension)]:
            for cond in g.ifs:
                for a in ast.walk(cond):
                    if isinstance(a, ast.Attribute) and a.attr in ("default", "kind", "annotation", "empty", "VAR_POSITIONAL", "VAR_KEYWORD", "KEYWORD_ONLY"):
                        exempt.append(cond)
        for a in ast.walk(e):
            if isinstance(a, ast.Attribute) and a.attr in ("default", "kind") and not any(a in ast.walk(c_) for c_ in exempt):
                exempt.append(a)
    ctx.ob("R12", st, f"`if {short(t, 50)}:` (switch to positional binding) is computed from the names of all parameters - none is exempted by its default value or kind", not exempt, key="run_alias_by_params|positional-switch-exempts-parameters", where=loc(exempt[0]) if exempt else loc(sw[0]), detail=f"`{short(exempt[0], 60)}`" if exempt else None)


def _merge_spelling_boundary(ctx, tk, tf, redir_map):
    """The alternation of the two-sided spellings in the tokenizer's IORedirect pattern must be followed by a look-ahead: the
    regex engine takes the leftmost alternative that matches, and every spelling is a prefix of some file name."""
    import re._parser as _rp
    import re._constants as _rc

    def ev(e):
        """the pattern text of an expression built from string literals, +, f-strings, names of such and group(...)"""
        if isinstance(e, ast.Constant) and isinstance(e.value, str):
            return e.value
        if isinstance(e, ast.BinOp) and isinstance(e.op, ast.Add):
            return ev(e.left) + ev(e.right)
        if isinstance(e, ast.JoinedStr):
            return "".join(v.value if isinstance(v, ast.Constant) else ev(v.value) for v in e.values)
        if isinstance(e, ast.Name):
            if e.id in tk.assigns:
                return ev(tk.assigns[e.id][-1].value)
            raise NotConstant(e.id)
        if isinstance(e, ast.Call) and call_name(e) == "group" and not e.keywords:
            parts = []
            for a in e.args:
                if isinstance(a, ast.Starred):
                    parts += [re.escape(x) if False else x for x in tf.fold(a.value, {})]
                else:
                    parts.append(ev(a))
            return "(" + "|".join(parts) + ")"
        raise NotConstant(unparse(e)[:40])

    import re

    if "IORedirect" not in tk.assigns:
        raise AnchorMissing(f"{TK}: IORedirect")
    try:
        pat = ev(tk.assigns["IORedirect"][-1].value)
        tree = _rp.parse(pat)
    except (NotConstant, re.error, AnalysisError) as e:
        raise AnalysisError(f"{TK}: IORedirect pattern not foldable ({e})")
    words = set(redir_map)

    def literal_word(seq):
        out = ""
        for op, av in seq:
            if op is _rc.LITERAL:
                out += chr(av)
            else:
                return None
        return out

    found = []

    def walk(seq):
        items = list(seq)
        for i, (op, av) in enumerate(items):
            if op is _rc.SUBPATTERN:
                inner = av[3]
                sub = list(inner)
                if len(sub) == 1 and sub[0][0] is _rc.BRANCH:
                    alts = [literal_word(a) for a in sub[0][1][1]]
                    if all(a is not None for a in alts) and set(alts) & words and set(alts) <= words | {a for a in alts}:
                        if set(alts) >= words:
                            nxt = items[i + 1][0] if i + 1 < len(items) else None
                            found.append(nxt in (_rc.ASSERT, _rc.ASSERT_NOT))
                            continue
                walk(inner)
            elif op is _rc.BRANCH:
                for a in av[1]:
                    walk(a)
            elif op in (_rc.MAX_REPEAT, _rc.MIN_REPEAT):
                walk(av[2])

    walk(tree)
    if not found:
        raise AnalysisError(f"{TK}: the alternation of the two-sided redirect spellings was not found in the IORedirect pattern")
    ctx.ob("R9", f"{TK}:IORedirect", f"the alternation of the {len(words)} two-sided spellings is followed by a look-ahead (word end)", all(found), key="tok|merge-spelling-matches-as-prefix", detail=None if all(found) else "without it `2>out.log` is tokenised as the merge `2>out` plus a stray argument `.log`; `a>perf.log` as `a>p` plus `erf.log`")


def _capture_marker(ctx):
    from ..engine import dtable

    sp = ctx.repo.module(SP)

    def marker_loops(f):
        # a loop over stages that touches `<stage>.env`, in a function that names an upper-case *CAPTURE* key
        has_key = any(isinstance(c, ast.Constant) and isinstance(c.value, str) and c.value.isupper() and "CAPTURE" in c.value for c in ast.walk(f))
        return [n for n in walk_local(f) if has_key and isinstance(n, ast.For) and isinstance(n.target, ast.Name) and any(isinstance(a_, ast.Attribute) and a_.attr == "env" and unparse(a_.value) == n.target.id and isinstance(a_.ctx, ast.Store) for b in n.body for a_ in ast.walk(b))]

    # the helper, or - when it was inlined - the loop where it was called
    fn = sp.quals.get("_set_specs_capture_always") or sp.func("cmds_to_specs")
    st = f"{SP}:{fn.name}"
    loops = marker_loops(fn)
    if len(loops) != 1:
        raise AnchorMissing(f"{st}: one loop that marks the stages for capture")
    loop = loops[0]
    v = loop.target.id
    keys = {c.value for c in ast.walk(fn) if isinstance(c, ast.Constant) and isinstance(c.value, str) and c.value.isupper() and "CAPTURE_ALWAYS" in c.value}
    if len(keys) != 1:
        raise AnchorMissing(f"{st}: the marker key ({sorted(keys)})")
    key = next(iter(keys))
    # locals that hold the key (`name = "XONSH_CAPTURE_ALWAYS"` in front of the loop)
    fdefs = df.all_defs(fn)
    keynames = {n_ for n_, ds_ in fdefs.items() if ds_ and all(d_.kind == "assign" and const_value(d_.value, None) == key for d_ in ds_)}

    def is_key(e):
        return const_value(e, None) == key or (isinstance(e, ast.Name) and e.id in keynames)

    def sets_marker(e):
        if isinstance(e, ast.Assign):
            for t in e.targets:
                if isinstance(t, ast.Attribute) and t.attr == "env" and unparse(t.value) == v and isinstance(e.value, ast.Dict) and any(is_key(k) for k in e.value.keys if k is not None):
                    return True
                if isinstance(t, ast.Subscript) and is_key(t.slice) and unparse(t.value) == f"{v}.env":
                    return True
            return False
        c = e.value if isinstance(e, ast.Expr) else e
        if isinstance(c, ast.Call) and isinstance(c.func, ast.Attribute) and unparse(c.func.value) == f"{v}.env":
            if c.func.attr in ("setdefault", "__setitem__") and c.args and is_key(c.args[0]):
                return True
            if c.func.attr == "update" and any(isinstance(a, ast.Dict) and any(is_key(k) for k in a.keys if k is not None) for a in c.args):
                return True
        return False

    n = 0
    for p_ in dtable.paths(loop.body, stores=True, loops="skip"):
        if not dtable.feasible(p_) or p_.outcome in ("raise",):
            continue
        n += 1
        ok = any(sets_marker(e) for e in p_.effects)
        ctx.ob("R7", st, f"under [{'; '.join(p_.cond_texts())[:80]}] the stage's overlay receives `{key}`", ok, key=f"capture-marker|not-set|{'; '.join(p_.cond_texts())[:60]}", where=loc(loop), detail=None if ok else "effects: " + "; ".join(short(e, 60) for e in p_.effects))
    if n < 1:
        raise AnalysisError(f"{st}: no path through the loop body")
    # ... and cmds_to_specs applies it to all stages when the output is captured or redirected, to all but the last otherwise
    c2s = sp.func("cmds_to_specs")
    calls = [c for c in calls_in(c2s) if call_name(c) == "_set_specs_capture_always"]
    inline_ = fn is c2s
    ctx.ob("R7", f"{SP}:cmds_to_specs", "the marker is applied while building the pipeline (unless $XONSH_CAPTURE_ALWAYS is on anyway)", len(calls) == 1 or inline_, key="capture-marker|not-applied", where=loc(calls[0]) if calls else loc(c2s))


META = {
    "technique": "static analysis: constant folding of the tokenizer/decoder tables, finite-language reading of the redirect regex syntax tree, decision-table extraction of _redirect_streams and the slot setters, CFG dominance for the sentinel lifecycle",
    "text": "Writer's and reader's tables agreeing is decided completely: for every one of the ~50 spellings the "
    "tokenizer can emit (names x {>,>>}, the merge/pipe map, bare >, >>, <) the check derives, from the folded "
    "tables, the regex's group languages and the extracted decision table of _redirect_streams, which row decodes "
    "it, and compares with the documented meaning (stream class, w/a/r mode, e>o / o>e / a>p / e>p); maps are "
    "shown disjoint so test order is irrelevant; arity agrees between tokenizer classes, grammar production and "
    "decoder; slot setters have the first-wins/None-ignored/close-and-raise shape on all paths and private slot "
    "writes occur only at the documented sites; the spelling reaches the decoder unmodified (each re-binding "
    "before _parse_redirects is interpreted through the decoder's own subject transformations); in the pipe wiring every feasible path takes the upstream stdout and the downstream stdin through the "
    "public conflict-checking setters (stdout exempt only under e>p); every normal return of cmds_to_specs passes the residual-sentinel "
    "check; sibling stage-kind handlers are cross-checked for the merge flags. Actual byte delivery is not decided.",
    "note": "Decides the listed structural clauses, not the behaviour. Oracle table (origin/destination classes, "
    "modes) is written from the property statement and docs..",
    "more": 'Also decided: every stage that is captured, piped or redirected receives the capture-always marker whatever per-command overlay it already has. Redirect targets are opened with the interpreter\'s own blocking opener; the two-sided redirect spellings are tokens only as whole words (look-ahead in the tokenizer\'s pattern). The stream objects a threaded alias stage writes to are decided by a table over the resolved handles (own handle / shared handle / none, merge requested or not): a requested e>o shares stdout\'s object even without a stdout handle, no request and no handle is the session\'s own stderr; `.stdout` and `.stderr` are normalised alike (no request flag left in either). run_alias_by_params switches to positional binding from the names of all parameters (no exemption by default value), so an alias receives the stage\'s streams under every naming of its parameters.',
}

META["more"] += ' Every normal path of the function that opens the capture pipes of the last stage decides about stdout and about stderr (no way out after the stdout half).'
