"""C06 — captured output is complete, ordered and exactly what the command wrote.

The quantifier is over schedules and payloads: the behaviour is NOT decided.  What is
decided are ordering/typestate conditions without which output is lost or duplicated
for *some* schedule: producers never enqueue after declaring EOF and always declare it;
EOF for the consumer means closed AND producer dead AND queue drained; a final drain
follows the last wait; writer ends are closed before the blocking drain; raw bytes are
recorded before shaping and only the documented shaping is applied; the single-line
newline strip is confined to the one-line case; captured data is not echoed and stderr
is not mixed into a stdout capture.
"""

from __future__ import annotations

import ast

from .common import *
from ..engine.loader import class_methods

RD = "xonsh/procs/readers.py"
PL = "xonsh/procs/pipelines.py"
PXY = "xonsh/procs/proxies.py"
PO = "xonsh/procs/posix.py"
SP = "xonsh/procs/specs.py"


def check(ctx):
    ctx.not_decided += [
        "byte-exact delivery for all payloads, chunkings and thread schedules (run time)",
        "absence of deadlock under all schedules",
        "CR in the middle of a line; decoding errors",
    ]
    ctx.rule("R1", "reader threads never enqueue/write after declaring EOF, and every exit of the copy loop declares it", floor=4)
    ctx.rule("R2", "EOF for the consumer is the conjunction closed AND producer thread not alive AND queue empty, with the queue sampled last", floor=4)
    ctx.rule("R3", "a final drain of stdout follows the last wait; writer ends are closed before the blocking drain", floor=5)
    ctx.rule("R4", "raw bytes are recorded before shaping; only CR/CRLF->LF, decode and escape stripping are applied; the trailing newline is stripped only for one-line output", floor=5)
    ctx.rule("R5", "the reported return code is read from the last stage", floor=1)
    ctx.rule("R7", "writers that share the capture pipe through different layers (text dispatcher, raw buffer) never leave text pending", floor=3)
    ctx.rule("R8", "the reader ends of the pipes between stages are closed only once the last stage is over: every call of the closer that releases them is made where the last stage is known to have finished (an alias stage runs on a thread of this process and reads through the very descriptor)", floor=3)
    ctx.rule("R9", "the thread that reaps a stage with the raw waitpid records the status it obtained - exit status or minus the signal - unconditionally: another watcher's Popen.poll() may already have stored the ECHILD placeholder 0 there", floor=2)
    ctx.rule("R10", "the reader thread never waits for the consumer: the chunk queue between them is unbounded and put() is a plain blocking-free call - iterraw's synchronous branch (R3) waits for the last stage to exit *before* it reads, so a producer that can block on a full queue stops draining the pipe, the stage blocks on write and the capture never returns for outputs above the bound", floor=2)
    ctx.rule("R11", "a pipe end is closed once whatever the schedule of closers (the PrevProcCloser thread against the main thread's _close_prev_procs): the descriptor handed to os.close is read inside the same locked block that clears the field - a second, stale close of a recycled descriptor number hits an unrelated $() capture pipe, whose reader gets EBADF and the capture silently comes back empty (obligation shared with C09.R5)", floor=6)
    ctx.rule("R6", "captured stdout is not echoed to the terminal and stderr is not mixed into a stdout capture", floor=3)

    rd = ctx.repo.module(RD)
    for q, sink in (("populate_fd_queue", "put"), ("populate_buffer", "write")):
        fn = rd.func(q)
        cfg = CFG(fn)
        close = [n for n in cfg.nodes if n.kind == "stmt" and isinstance(n.ast, ast.Assign) and unparse(n.ast.targets[0]).endswith(".closed") and const_value(n.ast.value) is True]
        puts = [n for n in cfg.nodes if n.kind == "stmt" and any(last_attr(c) == sink for c in calls_in(n.ast))]
        if not close or not puts:
            raise AnchorMissing(f"{RD}:{q}: closed=True / {sink} not found")
        ok, path = cfg.never_after(close, lambda m: m in puts)
        ctx.ob("R1", f"{RD}:{q}", f"no {sink}() is reachable after `closed = True` (a chunk enqueued after EOF was declared can be missed by the consumer)", ok, key=f"{q}|put-after-close", where=loc(fn), path=cfg.fmt_path(path) if path else None)
        ok, path = cfg.must_pass(cfg.entry, lambda m: m in close, exits=("exit",))
        ctx.ob("R1", f"{RD}:{q}", "every normal exit of the copy loop sets `closed = True` (otherwise the consumer waits forever)", ok, key=f"{q}|exit-without-close", where=loc(fn), path=cfg.fmt_path(path) if path else None)
        # the data that is enqueued is exactly what was read
        rdefs = df.all_defs(fn)
        for p in puts:
            c = next(c for c in calls_in(p.ast) if last_attr(c) == sink)
            a = c.args[0] if c.args else None
            ds = rdefs.get(unparse(a), []) if isinstance(a, ast.Name) else []
            reads_ = [d for d in ds if isinstance(d.value, ast.Call) and (call_name(d.value) or "") in ("os.read", "os.pread")]
            empties = [d for d in ds if isinstance(d.value, ast.Constant) and d.value.value in (b"", "")]
            ok = len(reads_) == 1 and len(reads_) + len(empties) == len(ds)  # an empty constant (EOF stand-in) carries no data
            ctx.ob("R1", f"{RD}:{q}", f"`{short(c)}` forwards exactly the chunk returned by os.read/os.pread", ok, key=f"{q}|chunk-source", where=loc(c))
    qr = class_methods(rd.cls("QueueReader"))
    ifr = qr.get("is_fully_read")
    if ifr is None:
        raise AnchorMissing(f"{RD}:QueueReader.is_fully_read")
    # decision table of is_fully_read: every way of answering True carries the three facts, and
    # the queue is sampled only after a fact that implies the producer has made its last put()
    # (populate_*: put happens before `closed = True`, R1) — the other order lets the last chunk
    # slip in between the two reads.
    from ..engine import dtable as _dt

    if any(isinstance(n, (ast.IfExp, ast.Lambda, ast.ListComp, ast.GeneratorExp)) for n in walk_local(ifr)):
        raise AnalysisError(f"{RD}:QueueReader.is_fully_read: evaluation order is not source order (conditional expression / comprehension)")
    true_ways = []
    for pth in _dt.paths(ifr):
        if pth.outcome != "return" or pth.value is None:
            continue
        alts = [[]]
        for e_, pol_ in pth.conds:
            alts = [a_ + b_ for a_ in alts for b_ in _dt.branches(e_, pol_)]
        alts = [a_ + b_ for a_ in alts for b_ in _dt.branches(pth.value, True)]
        for lits in alts:
            if any(isinstance(e_, ast.Constant) and bool(e_.value) != pol_ for e_, pol_ in lits):
                continue  # `return False`
            true_ways.append([(unparse(e_), pol_) for e_, pol_ in lits])
    if not true_ways:
        raise AnalysisError(f"{RD}:QueueReader.is_fully_read never answers True")

    def has(way, pred):
        return any(pred(t, pol) for t, pol in way)

    need = (
        ("closed", "EOF requires the reader to be closed", lambda t, pol: t == "self.closed" and pol),
        ("thread", "EOF requires the producer thread to have finished (it may still hold a chunk)", lambda t, pol: (t.endswith(".is_alive()") and not pol) or (t == "self.thread is None" and pol)),
        ("queue-empty", "EOF requires the queue to be empty (chunks queued before EOF are still unread)", lambda t, pol: (t == "self.queue.empty()" and pol) or (t in ("self.queue.qsize()", "self.queue.qsize() > 0", "self.queue.qsize() != 0") and not pol) or (t == "self.queue.qsize() == 0" and pol)),
    )
    for k_, text_, pred_ in need:
        bad = [w for w in true_ways if not has(w, pred_)]
        ctx.ob("R2", f"{RD}:QueueReader.is_fully_read", text_, not bad, key=f"fully_read|{k_}", detail=f"answers True under {bad[0]}" if bad else None, where=loc(ifr))
    pos = lambda n: (n.lineno, n.col_offset)
    samples = [pos(n) for n in walk_local(ifr) if isinstance(n, ast.Call) and unparse(n.func) in ("self.queue.empty", "self.queue.qsize")]
    finished = [pos(n) for n in walk_local(ifr) if (isinstance(n, ast.Attribute) and unparse(n) == "self.closed" and isinstance(n.ctx, ast.Load)) or (isinstance(n, ast.Call) and unparse(n.func).endswith(".is_alive"))]
    ok = bool(samples) and bool(finished) and min(samples) > min(finished)
    ctx.ob("R2", f"{RD}:QueueReader.is_fully_read", "the queue is sampled after `closed` / thread liveness was read (the producer puts its last chunk *before* it sets closed: sampling the queue first lets that chunk arrive between the two reads and EOF is declared over it)", ok, key="fully_read|queue-sampled-first", where=loc(ifr))
    # consumers that loop until EOF use is_fully_read (not `closed` alone)
    for name in ("_read_all_lines", "iterqueue", "read", "readline"):
        fn = qr.get(name)
        if fn is None:
            continue
        loops = [n for n in ast.walk(fn) if isinstance(n, ast.While)]
        ok = bool(loops) and all("self.is_fully_read()" in unparse(l.test) for l in loops)
        ctx.ob("R2", f"{RD}:QueueReader.{name}", "the read loop terminates on is_fully_read(), not on `closed` alone", ok, key=f"{name}|loop-test")

    # ------------------------------------------------------------------ R3
    pl = ctx.repo.module(PL)
    ir = flat(ctx, pl.func("CommandPipeline.iterraw"), depth=1, skip=("safe_readlines", "_drain_stdout", "_read_all", "stream_stderr", "_close_prev_procs", "_any_proc_running", "_procs_suspended", "_prev_procs_done", "safe_readable"))
    cfg = CFG(ir)
    # roles, not spellings: the last stage, its stdout reader, the spec
    idefs = df.all_defs(ir)
    PROC = names_bound_to_text(ir, "self.proc", idefs) | {"self.proc"}
    SPEC = names_bound_to_text(ir, "self.spec", idefs) | {"self.spec"}
    STDOUT = names_defined_by(ir, lambda v: isinstance(v, ast.Attribute) and v.attr == "stdout" and unparse(v.value) in PROC, idefs)
    STDOUT = {c_ for n_ in STDOUT for c_ in alias_class(idefs, n_)}
    if not STDOUT:
        raise AnalysisError(f"{PL}:iterraw: no local bound to the last stage's stdout")
    waits = [n for n in cfg.nodes if n.kind == "stmt" and any(isinstance(c.func, ast.Attribute) and c.func.attr == "wait" and unparse(c.func.value) in PROC for c in calls_in(n.ast))]
    drains = [n for n in cfg.nodes if n.kind == "stmt" and any(isinstance(x, ast.YieldFrom) and isinstance(x.value, ast.Call) and call_name(x.value) == "safe_readlines" and unparse(x.value.args[0]) in STDOUT and len(x.value.args) == 1 for x in ast.walk(n.ast))]
    main_loop = [n for n in cfg.nodes if n.kind == "while" and any(isinstance(c, ast.Call) and isinstance(c.func, ast.Attribute) and c.func.attr == "poll" and unparse(c.func.value) in PROC for c in ast.walk(n.ast.test))]
    if len(waits) < 2 or not drains or not main_loop:
        raise AnalysisError(f"{PL}:iterraw: anchors not found (waits={len(waits)} drains={len(drains)} loop={len(main_loop)})")
    threaded_waits = [w for w in waits if cfg.dominated(w, lambda m: m in main_loop)]
    blocking_waits = [w for w in waits if w not in threaded_waits]
    for w in threaded_waits:
        ok, path = cfg.must_pass([w], lambda m: m in drains, exits=("exit",))
        ctx.ob("R3", f"{PL}:CommandPipeline.iterraw", "threaded branch: after the last proc.wait() a full drain `yield from safe_readlines(stdout)` is reached before the normal exit (the tail written just before exit would be lost)", ok, key="iterraw|no-drain-after-wait", where=loc(w.ast), path=cfg.fmt_path(path) if path else None)
    # also a drain between loop exit and wait (bytes already available are not delayed)
    closers = [n for n in cfg.nodes if n.kind == "for" and isinstance(n.ast.iter, ast.Attribute) and n.ast.iter.attr == "pipe_channels" and unparse(n.ast.iter.value) in SPEC and any(last_attr(c) == "close_writer" for s in n.ast.body for c in calls_in(s))]
    reads = [n for n in cfg.nodes if n.kind == "stmt" and any(call_name(c) in ("_drain_stdout", "_read_all") for c in calls_in(n.ast))]
    if not reads or not blocking_waits:
        raise AnalysisError(f"{PL}:iterraw: blocking-branch anchors not found")
    for r in reads:
        ok = any(cfg.dominated(r, lambda m, w=w: m is w) for w in blocking_waits)
        ctx.ob("R3", f"{PL}:CommandPipeline.iterraw", f"blocking branch: `{short(r.ast, 50)}` reads everything only after proc.wait()", ok, key="iterraw|read-before-wait", where=loc(r.ast))
        # the writer-closing `if not spec.threadable` statement precedes the read
        ifs = [n for n in cfg.nodes if n.kind == "if" and any(unparse(n.ast.test) == f"not {sp_}.threadable" for sp_ in SPEC) and any(c.ast in ast.walk(n.ast) for c in closers)]
        ok = bool(ifs) and cfg.dominated(r, lambda m: m in ifs)
        ctx.ob("R3", f"{PL}:CommandPipeline.iterraw", f"blocking branch: the parent's write ends are closed (non-threadable specs) before `{short(r.ast, 40)}` (otherwise the reader never sees EOF)", ok, key="iterraw|read-before-close-writer", where=loc(r.ast))
    po = ctx.repo.module(PO)
    run = po.func("PopenThread.run")
    rcfg = CFG(run)
    fin = [n for n in rcfg.nodes if n.kind == "while" and "is_fully_read()" in unparse(n.ast.test)]
    c1 = [n for n in rcfg.nodes if n.kind == "stmt" and any(call_name(c) == "safe_fdclose" and c.args and unparse(c.args[0]) == "self.orig_stdout" for c in calls_in(n.ast))]
    c2 = [n for n in rcfg.nodes if n.kind == "for" and isinstance(n.ast.iter, ast.Attribute) and n.ast.iter.attr == "pipe_channels" and any(last_attr(c) == "close_writer" for s in n.ast.body for c in calls_in(s))]
    ok = bool(fin) and bool(c1) and bool(c2) and all(rcfg.dominated(f, lambda m: m in c1) and rcfg.dominated(f, lambda m: m in c2) for f in fin)
    ctx.ob("R3", f"{PO}:PopenThread.run", "the parent's copies of the write ends are closed before the blocking is_fully_read() drain loop", ok, key="PopenThread.run|drain-before-close", where=loc(run))
    # the drain loop copies both streams each round
    ok = bool(fin) and all(sum(1 for s in f.ast.body for c in calls_in(s) if call_name(c) == "self._read_write") >= 2 for f in fin)
    ctx.ob("R3", f"{PO}:PopenThread.run", "the final drain loop copies stdout and stderr", ok, key="PopenThread.run|drain-body")

    # ------------------------------------------------------------------ R4
    ts = pl.func("CommandPipeline.tee_stdout")
    _tee_shaping(ctx, ts)
    gf = pl.func("CommandPipeline.get_formatted_lines")
    gcfg = CFG(gf)
    n_strip = 0
    lp_ = param_name(gf, 0)
    for n in gcfg.nodes:
        if n.kind == "stmt" and isinstance(n.ast, ast.Return) and n.ast.value is not None:
            v = n.ast.value
            # the format is selected by an if/elif chain or by the arms of a `match` on it: same facts either way
            known = facts_at(gcfg, n) + _case_facts(gcfg, n)
            facts = facts_text(known)
            nf_ = _norm_facts(known)
            if any("stream_lines" in t and pol for t, pol in nf_):
                if "rstrip" in unparse(v):
                    n_strip += 1
                    ok = (f"len({lp_}) == 1", True) in nf_ and unparse(v) == f"{lp_}[0].rstrip('\\n')"
                    ctx.ob("R4", f"{PL}:CommandPipeline.get_formatted_lines", "the trailing newline is stripped only when there is exactly one line, and only newlines are stripped", ok, key="format|strip-condition", where=loc(n.ast), detail="; ".join(facts))
                else:
                    ok = unparse(v) == f"''.join({lp_})"
                    ctx.ob("R4", f"{PL}:CommandPipeline.get_formatted_lines", "multi-line output is the plain concatenation of the lines", ok, key="format|join", where=loc(n.ast))
    if n_strip != 1:
        raise AnalysisError(f"{PL}:get_formatted_lines: expected one stripping return for stream_lines, found {n_strip}")

    # ------------------------------------------------------------------ R5
    cp = class_methods(pl.cls("CommandPipeline"))
    rc = cp.get("returncode")
    if rc is None:
        raise AnchorMissing(f"{PL}:CommandPipeline.returncode")
    rdefs = df.all_defs(rc)
    bad = []
    n_ret = 0
    for n in walk_local(rc):
        if isinstance(n, ast.Return) and n.value is not None:
            n_ret += 1
            for kind, txt in df.leaves(rdefs, n.value):
                if kind == "const":
                    continue
                if kind in ("attr", "call") and (txt.startswith("self.proc.") or txt == "self.proc"):
                    continue
                bad.append((kind, txt))
    ctx.ob("R5", f"{PL}:CommandPipeline.returncode", "every value the property returns is derived from self.proc (the last stage) or is a constant fallback", not bad and n_ret >= 1, key="returncode|source", detail=str(bad))

    # ------------------------------------------------------------------ R6
    tcfg = CFG(ts)
    sdefs = df.all_defs(ts)
    # roles: the terminal target, and the echo flag = the one plain name that guards every write to it
    TARGET = names_defined_by(ts, lambda v: any(unparse(x) in ("STDOUT_DISPATCHER.handle", "sys.stdout") for x in ([v.body, v.orelse] if isinstance(v, ast.IfExp) else [v])), sdefs)
    writes = [n for n in tcfg.nodes if n.kind == "stmt" and any((call_name(c) or "").split(".")[0] in TARGET and last_attr(c) == "write" for c in calls_in(n.ast))]
    if not writes:
        raise AnalysisError(f"{PL}:tee_stdout: no write to the terminal target found")
    guards_ = [{unparse(e) for e, pol in facts_at(tcfg, w) if pol and isinstance(e, ast.Name)} for w in writes]
    common = set.intersection(*guards_) if guards_ else set()
    ctx.ob("R6", f"{PL}:CommandPipeline.tee_stdout", "every write to the terminal target is guarded by the echo flag", len(common) >= 1, key="tee|unguarded-echo")
    for STREAM in sorted(common)[:1]:
        sd = [d for d in sdefs.get(STREAM, []) if d.kind == "assign"]
        first = sd[0].value if sd else None
        ok = first is not None and "self.captured not in STDOUT_CAPTURE_KINDS" in [unparse(c_) for c_ in conjuncts(first)] and all(isinstance(d.value, ast.Constant) and d.value.value is False for d in sd[1:])
        ctx.ob("R6", f"{PL}:CommandPipeline.tee_stdout", "echoing is enabled only for non-capturing kinds and can only be switched off afterwards", ok, key="tee|stream-flag", detail=str([unparse(d.value) for d in sd]))
    sp = ctx.repo.module(SP)
    mk = flat(ctx, sp.func("_make_last_spec_captured"), depth=2, skip=("_safe_pipe_properties", "from_pipe", "from_pty", "open_writer", "open_reader"))
    mcfg = CFG(mk)
    lastp = param_name(mk, 0, skip_self=False)
    CAPT = names_bound_to_text(mk, f"{lastp}.captured") | {f"{lastp}.captured"}
    for n in mcfg.nodes:
        if n.kind == "stmt" and isinstance(n.ast, ast.Assign) and unparse(n.ast.targets[0]) == f"{lastp}.stderr":
            facts = facts_text(facts_at(mcfg, n))
            ok = any(f"not {c_} == 'stdout'" in facts for c_ in CAPT)
            ctx.ob("R6", f"{SP}:_make_last_spec_captured", f"`{short(n.ast, 50)}`: stderr is re-plumbed only when the capture kind is not 'stdout' ($() leaves stderr alone)", ok, key="capture|stderr-touched-for-stdout", where=loc(n.ast), detail="; ".join(facts))
    # stdout capture pipe is created for the capturing kinds
    ok = any(n.kind == "if" and any(f"{c_} in STDOUT_CAPTURE_KINDS" in unparse(n.ast.test) for c_ in CAPT) for n in mcfg.nodes)
    ctx.ob("R6", f"{SP}:_make_last_spec_captured", "capturing kinds get a dedicated pipe for stdout", ok, key="capture|stdout-pipe")


    # ------------------------------------------------------------------ R7
    # two layers write to the same capture pipe while an alias runs: the alias's prints go through the
    # per-thread text dispatcher (a TextIOWrapper), nested commands are streamed by tee_stdout into the
    # *buffer underneath* it.  Order is kept only if neither layer ever leaves text pending: every
    # dispatcher write is flushed before it returns, every raw write is followed by a flush.
    px = ctx.repo.module(PXY)
    for cls_name in ("FileThreadDispatcher",):
        wfn = px.func(f"{cls_name}.write")
        wcfg = CFG(wfn)
        wdefs = df.all_defs(wfn)
        H = names_bound_to_text(wfn, "self.handle", wdefs) | {"self.handle"}
        wr = [n for n in wcfg.nodes if n.kind == "stmt" and any(isinstance(c.func, ast.Attribute) and c.func.attr == "write" and unparse(c.func.value) in H for c in calls_in(n.ast))]
        fl = [n for n in wcfg.nodes if n.kind == "stmt" and any(isinstance(c.func, ast.Attribute) and c.func.attr == "flush" and unparse(c.func.value) in H for c in calls_in(n.ast))]
        if not wr:
            raise AnchorMissing(f"{PXY}:{cls_name}.write: no write to the thread's handle")
        for w in wr:
            ok, path = wcfg.must_pass([w], lambda m: m in fl, exits=("exit",), skip_edge=lambda a_, b_, l_: l_ == "exc") if fl else (False, None)
            ctx.ob("R7", f"{PXY}:{cls_name}.write", "every text written through the per-thread dispatcher is flushed before write() returns, unconditionally (tee_stdout writes nested output straight into the buffer underneath: pending text would be overtaken)", ok, key=f"{cls_name}.write|pending-text", where=loc(w.ast), path=wcfg.fmt_path(path) if path else None)
    bw = [n for n in tcfg.nodes if n.kind == "stmt" and any(isinstance(c.func, ast.Attribute) and c.func.attr == "write" and (call_name(c) or "").split(".")[0] in TARGET for c in calls_in(n.ast))]
    tf = [n for n in tcfg.nodes if n.kind == "stmt" and any(isinstance(c.func, ast.Attribute) and c.func.attr == "flush" and (call_name(c) or "").split(".")[0] in TARGET for c in calls_in(n.ast))]
    for w in bw:
        ok, path = tcfg.must_pass([w], lambda m: m in tf, exits=("exit",), skip_edge=lambda a_, b_, l_: l_ == "exc") if tf else (False, None)
        ctx.ob("R7", f"{PL}:CommandPipeline.tee_stdout", f"`{short(w.ast, 50)}` is followed by a flush of the target before the next line", ok, key="tee|echo-not-flushed", where=loc(w.ast))

    _reader_ends(ctx)
    _reaper_records(ctx)
    _queue_unbounded(ctx)
    from .c09 import pipe_end_closed_once

    pipe_end_closed_once(ctx, "R11")
    _strip_patterns_bounded(ctx)


def _case_facts(cfg, node):
    """facts_at for the arms of a `match` statement (cfg.guards knows only if/while): for every `case` whose true /
    false edge dominates ``node`` the atoms that edge implies, in the spelling of the equivalent if/elif chain.  A
    literal value pattern compares with `==` (None/True/False with `is`), an or-pattern is the disjunction, a capture
    or wildcard always matches, `case P if g` is `P and g`.  Any other pattern (sequence, mapping, class) gives no
    fact at all on either edge - fewer facts, never a wrong one.  The subject has to be a plain name / attribute
    chain (it is evaluated once; only then does the comparison written out mean the same thing)."""
    from ..engine.dtable import clone

    full = cfg.reach([cfg.entry])
    if node not in full:
        return []

    def atom(subj, p):
        """(expr, exact) - expr is None if the pattern says nothing that can be written as a comparison"""
        if isinstance(p, ast.MatchValue) and isinstance(p.value, (ast.Constant, ast.Attribute)):
            return ast.Compare(left=clone(subj), ops=[ast.Eq()], comparators=[clone(p.value)])
        if isinstance(p, ast.MatchSingleton):
            return ast.Compare(left=clone(subj), ops=[ast.Is()], comparators=[ast.Constant(value=p.value)])
        if isinstance(p, ast.MatchAs):
            return ast.Constant(value=True) if p.pattern is None else atom(subj, p.pattern)
        if isinstance(p, ast.MatchOr):
            alts = [atom(subj, q) for q in p.patterns]
            if any(a is None for a in alts):
                return None
            if any(isinstance(a, ast.Constant) for a in alts):
                return ast.Constant(value=True)
            return ast.BoolOp(op=ast.Or(), values=alts)
        return None

    out = []
    for c in cfg.nodes:
        if c.kind != "case" or c is node:
            continue
        m = next((x.ast for x in cfg.nodes if x.kind == "match" and any(k is c.ast for k in x.ast.cases)), None)
        if m is None or dotted(m.subject) is None:
            continue
        pat, guard = atom(m.subject, c.ast.pattern), c.ast.guard
        always = isinstance(pat, ast.Constant)
        for label, pol in (("true", True), ("false", False)):
            if not any(l == label for _, l in c.succ):
                continue
            if node in cfg.reach([cfg.entry], skip_edge=lambda a, b, l, c=c, label=label: a is c and l == label):
                continue
            if pol:
                tests = [t for t in (None if always else pat, guard) if t is not None]
            elif guard is None:
                tests = [] if (pat is None or always) else [pat]
            else:
                tests = [guard] if always else []  # `P if g` failed: P or g, not known which
            for t in tests:
                if getattr(t, "lineno", None) is None:  # written out here: located at the pattern it stands for
                    t = ast.fix_missing_locations(ast.copy_location(t, c.ast.pattern))
                out += implied_facts(t, pol)
    return out


def _norm_facts(facts):
    from ..engine.dtable import normalise

    out = set()
    for e, pol in facts:
        e2, p2 = normalise(e, pol)
        out.add((unparse(e2), p2))
    return out


def _tee_shaping(ctx, ts):
    """R4 on tee_stdout.  Judged on the helper-transparent view, where the assignments a shaping helper makes to the
    line appear in place.  The *line* is a role: the loop variable over iterraw() and every local of the loop body that
    is bound from a line by a plain copy (a helper's parameter) or by one of the documented shapings.  Every other
    binding of such a local is an undocumented shaping; what is stored and yielded has to be such a local."""
    from ..engine.inline import _can_fall_through, is_inline_block

    st = f"{PL}:CommandPipeline.tee_stdout"
    fn = flat(ctx, ts, depth=2, skip=("iterraw",))
    loop = next((n for n in walk_local(fn) if isinstance(n, ast.For) and "self.iterraw()" in unparse(n.iter)), None)
    if loop is None:
        raise AnchorMissing(f"{PL}:tee_stdout: loop over iterraw()")
    if not isinstance(loop.target, ast.Name):
        raise AnalysisError(f"{PL}:tee_stdout: the loop over iterraw() does not bind one name")
    var = loop.target.id
    bcfg = CFG(loop.body)
    tdefs = df.all_defs(fn)
    closure = lambda names: {c_ for n_ in names for c_ in copies_of(tdefs, n_)}
    # roles: the raw list is what is joined into self._raw_output; constants are identified by value
    RAWL = {unparse(c.args[0]) for n in walk_local(fn) if isinstance(n, ast.Assign) and unparse(n.targets[0]) == "self._raw_output" for c in [n.value] if isinstance(c, ast.Call) and last_attr(c) == "join" and c.args}
    LINES = closure(names_bound_to_text(fn, "self.lines", tdefs)) | {"self.lines"}
    byval = lambda b_: closure(names_defined_by(fn, lambda v, b_=b_: isinstance(v, ast.Constant) and v.value == b_, tdefs))
    NL, CR, CRNL = byval(b"\n"), byval(b"\r"), byval(b"\r\n")
    ENC = closure(names_defined_by(fn, lambda v: isinstance(v, ast.Call) and last_attr(v) == "get" and v.args and const_value(v.args[0]) == "XONSH_ENCODING", tdefs))
    ERR = closure(names_defined_by(fn, lambda v: isinstance(v, ast.Call) and last_attr(v) == "get" and v.args and const_value(v.args[0]) == "XONSH_ENCODING_ERRORS", tdefs))
    # a role is a name bound to the value or the literal itself
    NL, CR, CRNL = NL | {repr(b"\n")}, CR | {repr(b"\r")}, CRNL | {repr(b"\r\n")}
    if not (RAWL and ENC and ERR):
        raise AnalysisError(f"{PL}:tee_stdout: roles not found (raw={RAWL} enc={ENC} err={ERR})")

    LINE = {var}

    def shaping(v):
        """[(kind, source name, cut)] if ``v`` is a line (a local in that role) under documented shapings only - the
        empty list for the plain copy - else None.  The conditions under which a cut is documented are judged at the
        statement (they are branch facts)."""
        if isinstance(v, ast.Name):
            return [] if v.id in LINE else None
        if isinstance(v, ast.BinOp) and isinstance(v.op, ast.Add) and isinstance(v.left, ast.Subscript) and isinstance(v.left.value, ast.Name) and v.left.value.id in LINE and unparse(v.right) in NL:
            sl = v.left.slice
            if isinstance(sl, ast.Slice) and sl.lower is None and sl.step is None and isinstance(sl.upper, ast.UnaryOp) and isinstance(sl.upper.op, ast.USub) and isinstance(const_value(sl.upper.operand), int):
                return [("cut", v.left.value.id, const_value(sl.upper.operand))]
            return None
        if isinstance(v, ast.Call) and isinstance(v.func, ast.Attribute) and v.func.attr == "decode" and not v.args and {k.arg for k in v.keywords} == {"encoding", "errors"} and len(v.keywords) == 2 and unparse(kwarg(v, "encoding")) in ENC and unparse(kwarg(v, "errors")) in ERR:
            inner = shaping(v.func.value)
            return None if inner is None else inner + [("decode", None, None)]
        if isinstance(v, ast.Call) and unparse(v.func) == "RE_HIDE_ESCAPE.sub" and len(v.args) == 2 and not v.keywords and const_value(v.args[0], None) == "":
            inner = shaping(v.args[1])
            return None if inner is None else inner + [("strip", None, None)]
        return None

    plain = lambda s: (s.targets[0] if isinstance(s, ast.Assign) and len(s.targets) == 1 else s.target if isinstance(s, ast.AnnAssign) and s.value is not None else None)
    body_stmts = [n for s in loop.body for n in walk_local(s) if isinstance(n, ast.stmt)]
    grew = True
    while grew:
        grew = False
        for s in body_stmts:
            t = plain(s)
            if isinstance(t, ast.Name) and t.id not in LINE and shaping(s.value) is not None:
                LINE.add(t.id)
                grew = True

    def dead_return_slot(s):
        """`__xv_retK = None` in front of the block a helper with several returns was expanded into, and no path falls
        out of that block's end: the None is never read (a helper that *can* fall off its end does return None)"""
        if not (isinstance(s, ast.Assign) and isinstance(s.targets[0], ast.Name) and s.targets[0].id.startswith("__xv_ret") and const_value(s.value, 0) is None):
            return False
        for field in ("body", "orelse", "finalbody"):
            sibs = getattr(parent(s), field, None)
            if isinstance(sibs, list) and any(x is s for x in sibs):
                i = next(i for i, x in enumerate(sibs) if x is s)
                return i + 1 < len(sibs) and is_inline_block(sibs[i + 1]) and not _can_fall_through(sibs[i + 1].body)
        return False

    # every binding of a local in the line role, inside the loop
    shapes = []  # (statement, steps or None)
    for name in sorted(LINE):
        for d in tdefs.get(name, []):
            if d.stmt is loop and name == var:
                continue
            if not lexically_inside(d.stmt, loop):
                if name == var:
                    continue  # rebound by the loop on every round
                raise AnalysisError(f"{PL}:tee_stdout: `{name}` holds the line inside the loop and something else outside it")
            s = d.stmt
            t = plain(s) if d.kind == "assign" else None
            if dead_return_slot(s):
                continue
            steps = shaping(s.value) if isinstance(t, ast.Name) else None
            if steps == []:
                continue  # plain copy between two locals in the role
            shapes.append((s, steps))
    raw = [n for n in bcfg.nodes if n.kind == "stmt" and any(isinstance(c.func, ast.Attribute) and c.func.attr == "append" and unparse(c.func.value) in RAWL and c.args and unparse(c.args[0]) in LINE for c in calls_in(n.ast))]
    reas = [n for s, _ in shapes for n in node_in(bcfg, s if isinstance(s, ast.stmt) else stmt_of(s), "a binding of the line")]
    ok = len(raw) == 1 and all(bcfg.dominated(r, lambda m: m in raw) for r in reas)
    ctx.ob("R4", st, "the raw line is appended to raw_out_lines before the line is reshaped", ok, key="tee|raw-after-shaping", where=loc(loop))
    ok, _ = bcfg.must_pass(bcfg.entry, lambda m: m in raw, exits=("exit",)) if raw else (False, None)
    ctx.ob("R4", st, "every line that is yielded was recorded raw (no path skips the append)", ok, key="tee|raw-skipped", where=loc(loop))
    for s, steps in shapes:
        txt = unparse(s.value) if getattr(s, "value", None) is not None else unparse(s)
        ok = steps is not None
        for kind, src, cut in steps or []:
            if kind == "cut":
                facts = set.intersection(*[nfacts(bcfg, nd) for nd in node_in(bcfg, s, "a binding of the line")])
                ok = ok and ((cut == 2 and any((f"{src}.endswith({c_})", True) in facts for c_ in CRNL)) or (cut == 1 and any((f"{src}.endswith({c_})", True) in facts for c_ in CR)))
        ctx.ob("R4", st, f"`{short(s, 60)}` is one of the documented shapings (CRLF/CR->LF at line end, decode, escape stripping)", ok, key=f"tee|undocumented-shaping|{txt[:50]}", where=loc(s))
    app = [n for n in bcfg.nodes if n.kind == "stmt" and any(isinstance(c.func, ast.Attribute) and c.func.attr == "append" and unparse(c.func.value) in LINES for c in calls_in(n.ast))]
    yl = [n for n in bcfg.nodes if n.kind == "stmt" and any(isinstance(x, ast.Yield) for x in ast.walk(n.ast))]
    ok = len(app) == 1 and len(yl) == 1 and bcfg.dominated(yl[0], lambda m: m in app)
    ctx.ob("R4", st, "each shaped line is appended to `lines` exactly once, before it is yielded", ok, key="tee|lines-append", where=loc(loop))
    # ... and it is the line that is delivered, not an expression over it
    given = [c.args[0] if len(c.args) == 1 and not c.keywords else None for n in app for c in calls_in(n.ast) if isinstance(c.func, ast.Attribute) and c.func.attr == "append" and unparse(c.func.value) in LINES]
    given += [x.value for n in yl for x in ast.walk(n.ast) if isinstance(x, ast.Yield)]
    bad = [g for g in given if not (isinstance(g, ast.Name) and g.id in LINE)]
    ctx.ob("R4", st, "what is appended to `lines` and yielded is the shaped line itself (a local that holds the line under the documented shapings), not a further expression over it", bool(given) and not bad, key="tee|delivered-not-the-line", where=loc(loop), detail="; ".join(unparse(g) if g is not None else "?" for g in bad) or None)


def _reaper_records(ctx, rule="R9"):
    from ..engine import dtable as _dt

    JB = "xonsh/procs/jobs.py"
    jm = ctx.repo.module(JB)
    fn = flat(ctx, jm.func("proc_untraced_waitpid"), 2, skip=("get_signal_name", "_safe_wait_for_active_job"))
    st = f"{JB}:proc_untraced_waitpid"
    procp = param_name(fn, 0, skip_self=False)
    n = 0
    for p_ in _dt.paths(fn, stores=True, loops="skip"):
        if not _dt.feasible(p_) or p_.outcome == "raise":
            continue
        conds = {(unparse(e), pol) for e, pol in p_.conds}
        reaped = any("wpid" in t and "== 0" in t and not pol for t, pol in conds) or any(t.endswith("== 0") and not pol and "pid" in t for t, pol in conds)
        stopped = any("WIFSTOPPED" in t and pol for t, pol in conds)
        if not reaped or stopped:
            continue
        n += 1
        stored = [e for e in p_.effects if isinstance(e, ast.Assign) and any(isinstance(t, ast.Attribute) and t.attr == "returncode" and unparse(t.value) == procp for t in e.targets)]
        kind = "signalled" if any("WIFSIGNALED" in t and pol for t, pol in conds) else "exited"
        # ... and the right part of it: a signalled child has no exit status (WEXITSTATUS of its wait status is 0 = success)
        want = ("WTERMSIG", "waitstatus_to_exitcode") if kind == "signalled" else ("WEXITSTATUS", "waitstatus_to_exitcode")
        from_status = bool(stored) and all(any(isinstance(c, ast.Call) and (call_name(c) or "").split(".")[-1] in want for c in ast.walk(e.value)) for e in stored[-1:])
        ctx.ob(rule, st, f"a path on which the child was reaped ({kind}) stores the status in {procp}.returncode ({'minus the signal number' if kind == 'signalled' else 'the exit status'}: what the chain's truthiness and the raise decision read)", from_status, key=f"waitpid|status-not-recorded|{kind}", where=loc(fn), detail=None if from_status else "path: " + "; ".join(sorted(("" if pol else "not ") + t for t, pol in conds))[:300])
    if n < 2:
        raise AnalysisError(f"{st}: only {n} reaping paths enumerated")



def _queue_unbounded(ctx):
    rd = ctx.repo.module(RD)
    n = 0
    for q, fn in rd.functions():
        for c in calls_in(fn):
            nm = call_name(c) or ""
            if nm.split(".")[-1] in ("Queue", "LifoQueue", "PriorityQueue") and (nm.startswith("queue.") or nm.startswith("Queue") or "." not in nm):
                n += 1
                ms = (c.args[0] if c.args else None) or kwarg(c, "maxsize")
                v = 0 if ms is None else const_value(ms, None)
                ok = isinstance(v, int) and not isinstance(v, bool) and v <= 0
                ctx.ob("R10", f"{RD}:{q}", f"`{short(c, 50)}` is unbounded (no maxsize)", ok, key=f"{q}|bounded-queue", where=loc(c), detail=None if ok else f"maxsize = {unparse(ms)}")
    for q in ("populate_fd_queue",):
        fn = rd.func(q)
        for c in calls_in(fn):
            if last_attr(c) in ("put", "put_nowait") and isinstance(c.func, ast.Attribute):
                n += 1
                ok = last_attr(c) == "put" and len(c.args) == 1 and not c.keywords
                ctx.ob("R10", f"{RD}:{q}", f"`{short(c, 40)}` hands the chunk over without a timeout or a non-blocking mode that could drop it", ok, key=f"{q}|put-can-fail", where=loc(c))
    if n < 2:
        raise AnalysisError(f"{RD}: queue construction / put sites not found ({n})")

TERMINAL_CLEANUP = "the pipeline is being ended: tee_stdout() has run the last stage to completion or an exception is unwinding"


def _runs_last_stage_out(stmts):
    """the statements consume `self.tee_stdout()` to its end (iterraw returns only once the last stage is over):
    a loop over it that is never left early, or the generator handed whole to a consumer"""
    for s in stmts:
        for n in ast.walk(s):
            if isinstance(n, ast.Call) and call_name(n) == "self.tee_stdout":
                up = parent(n)
                if isinstance(up, ast.For) and up.iter is n:
                    if not any(isinstance(x, (ast.Break, ast.Return)) for b in up.body for x in ast.walk(b)):
                        return True
                elif isinstance(up, ast.Call) and any(n is a for a in up.args):
                    return True
    return False


def _terminal_cleanup_sites(ctx, plm, closers):
    """Call sites of the closers that play the role of the pipeline's *terminal cleanup*: in the helper-transparent
    view of CommandPipeline.end() they sit in the `finally` of the try statement whose body runs tee_stdout() to its
    end, and the code they live in is reached from end() only.  Identified by (function, position) of the call in
    the source, whatever the method that holds the try statement is called and however it was split or inlined."""
    endq = "CommandPipeline.end"
    if not plm.has(endq):
        raise AnchorMissing(f"{PL}:{endq}")
    fe = flat(ctx, plm.func(endq), depth=4, skip=tuple(closers) + ("tee_stdout", "_return_terminal", "print_exception"))
    seen = {}
    for c in calls_in(fe):
        if (call_name(c) or "").split(".")[-1] not in closers:
            continue
        st = stmt_of(c)
        if getattr(st, "_xv_call_marker", False):
            continue
        origin = getattr(st, "_xv_from", (PL, endq))
        in_role = False
        node = c
        for a in ancestors(c):
            if isinstance(a, ast.Try) and any(node is x for x in a.finalbody) and _runs_last_stage_out(a.body):
                in_role = True
            node = a
        k = (origin[0], origin[1], c.lineno, c.col_offset)
        seen[k] = seen.get(k, True) and in_role
    out = set()
    for (rel, q, line, col), in_role in seen.items():
        if not in_role or rel != PL:
            continue
        if q == endq or only_called_from(ctx.repo, plm, q, {endq}, depth=3):
            out.add((q, line, col))
    return out


def _reader_ends(ctx):
    plm = ctx.repo.module(PL)
    # the closers that release reader ends of the inter-stage pipes of the *earlier* stages
    closers = set()
    for q, fn in plm.functions():
        if not q.startswith("CommandPipeline."):
            continue
        for c in calls_in(fn):
            if isinstance(c.func, ast.Attribute) and c.func.attr in ("close_reader", "close") and not c.args:
                # receiver ranges over <stage>.pipe_channels of specs[:-1] / procs[:-1]
                loop = next((a for a in ancestors(c) if isinstance(a, ast.For) and "pipe_channels" in unparse(a.iter)), None)
                outer = next((a for a in ancestors(c) if isinstance(a, ast.For) and ":-1]" in unparse(a.iter)), None)
                if loop is not None and outer is not None:
                    closers.add(q.split(".")[-1])
    if not closers:
        raise AnchorMissing(f"{PL}: no method that closes the reader ends of the earlier stages' pipes")
    # the one place where they may be closed without a poll() fact: the terminal cleanup of end(), found by its role
    terminal = _terminal_cleanup_sites(ctx, plm, closers)
    n = 0
    for q, fn in plm.functions():
        fcfg = None
        for c in calls_in(fn):
            nm = call_name(c) or ""
            if nm.split(".")[-1] not in closers or q.split(".")[-1] in closers:
                continue
            n += 1
            st = f"{PL}:{q}"
            if (q, c.lineno, c.col_offset) in terminal:
                ctx.ob("R8", st, f"`{short(c)}`: {TERMINAL_CLEANUP}", True, key=f"{q}|reader-ends-closed-while-last-stage-runs", where=loc(c))
                continue
            fcfg = fcfg or CFG(fn)
            facts = set()
            for nd in fcfg.nodes_of(stmt_of(c)):
                facts |= nfacts(fcfg, nd)
            # a local holding a poll() result counts like the call itself
            fdefs = df.all_defs(fn)
            pollvars = {nm_ for nm_, ds_ in fdefs.items() if ds_ and all(d_.kind == "assign" and isinstance(d_.value, ast.Call) and last_attr(d_.value) == "poll" for d_ in ds_)}

            def is_poll_none(t):
                return t.endswith(".poll() is None") or (t.endswith(" is None") and t[: -len(" is None")] in pollvars)

            over = any(is_poll_none(t) and not pol for t, pol in facts)
            running = [t for t, pol in facts if is_poll_none(t) and pol]
            ctx.ob("R8", st, f"`{short(c)}` is reached only where the last stage's poll() is known not to be None", over and not running, key=f"{q}|reader-ends-closed-while-last-stage-runs", where=loc(c), detail="facts: " + "; ".join(sorted(("" if pol else "not ") + t for t, pol in facts))[:300])
    if n < 3:
        raise AnalysisError(f"{PL}: only {n} call sites of {sorted(closers)} found")



def _strip_patterns_bounded(ctx):
    """R4 allows one content-removing shaping: escape sequences.  A pattern that strips them must not be able to run
    across visible text: an unbounded *greedy* repeat over 'any character' (`.*`) between an introducer and a terminator
    swallows everything up to the last terminator on the line - the text between two hyperlinks, two titles ..."""
    import re._parser as sre
    from ..engine.fold import Folder, NotConstant

    plm = ctx.repo.module(PL)
    f = Folder(plm)
    n = 0
    for name in [q for q, fn in plm.functions() if q.startswith("RE_") and any("lazyobject" in unparse(d) for d in fn.decorator_list)]:
        fn = plm.get(name)
        comps = [c for c in calls_in(fn) if call_name(c) == "re.compile" and c.args]
        for c in comps:
            try:
                env = {}
                for stt in fn.body:
                    if isinstance(stt, ast.Assign) and isinstance(stt.targets[0], ast.Name):
                        env[stt.targets[0].id] = f.fold(stt.value, dict(env))
                pat = f.fold(c.args[0], dict(env))
            except (NotConstant, AnalysisError):
                continue
            if isinstance(pat, bytes):
                pat = pat.decode("latin-1")
            if not isinstance(pat, str):
                continue
            n += 1
            greedy_any = []

            def walk(items):
                for op, av in items:
                    o = str(op)
                    if o in ("MAX_REPEAT", "POSSESSIVE_REPEAT"):
                        lo, hi, sub = av
                        if str(hi) == "MAXREPEAT" and any(str(so) == "ANY" for so, _ in sub):
                            greedy_any.append(o)
                        walk(sub)
                    elif o == "MIN_REPEAT":
                        walk(av[2])
                    elif o == "SUBPATTERN":
                        walk(av[3])
                    elif o == "BRANCH":
                        for b_ in av[1]:
                            walk(b_)
                    elif o in ("ASSERT", "ASSERT_NOT"):
                        walk(av[1])

            try:
                walk(sre.parse(pat, plm.folded.get("__flags__", 0) if hasattr(plm, "folded") and isinstance(getattr(plm, "folded"), dict) else 0))
            except Exception as e_:
                raise AnalysisError(f"{PL}:{name}: cannot parse the pattern: {e_}")
            uses_dotall = any("DOTALL" in unparse(a) or unparse(a).endswith(".S") for a in c.args[1:])
            ctx.ob("R4", f"{PL}:{name}", "the stripping / hiding pattern has no unbounded greedy repeat over 'any character' (it cannot run across visible text to a later terminator)", not greedy_any, key=f"{name}|greedy-any-in-strip-pattern", where=loc(c), detail=f"`.*`-like repeat in {pat[:60]!r}" + (" (DOTALL)" if uses_dotall else "") if greedy_any else None)
    if n < 2:
        raise AnalysisError(f"{PL}: stripping patterns not found ({n})")

META = {
    "technique": "static analysis: typestate (no put after close), boolean-structure check of the EOF predicate, CFG dominance / must-pass-through for drain-after-wait and close-before-drain, operation whitelist on the shaping path",
    "text": "The property quantifies over schedules and payloads and is NOT decided. Decided are necessary ordering "
    "conditions, each of which loses or duplicates output for some schedule when broken and none of which a single "
    "fast run can observe: in both copy loops no put/write is reachable after `closed = True` and every exit sets it; "
    "every way is_fully_read can answer True (decision table over all its return paths) carries closed AND "
    "thread-not-alive AND queue-empty, and the queue is sampled only after closed/thread liveness was read (the "
    "producer puts its last chunk before it sets closed); all read loops use it; in "
    "iterraw a full drain follows the last proc.wait() of the threaded branch, and in the blocking branch the "
    "read-all is dominated by proc.wait() and by closing the parent's write ends; PopenThread.run closes its copies "
    "of the write ends before the blocking drain; tee_stdout records the raw line before any reshaping, applies only "
    "the three documented shapings, appends once before yielding; the newline strip is confined to the one-line case; "
    "echo is guarded by a flag that is false for capturing kinds; $() never re-plumbs stderr; the per-thread text "
    "dispatcher flushes every write unconditionally and every raw echo is followed by a flush (two layers share "
    "the capture pipe while an alias runs).",
    "note": "Decides the listed structural clauses, not the behaviour; marginal reach by design (DESIGN section 4).",
    "more": 'Also decided: the reader ends of the inter-stage pipes are closed only where the last stage is known to be over (an alias stage reads through the descriptor in this process). The raw-waitpid helper stores the status it reaped on every reaping path. The chunk queue between the reader thread and the consumer is unbounded (the synchronous branch waits for the stage before it reads). The stripping / hiding patterns contain no unbounded greedy repeat over \'any character\' (regex syntax tree); the reaper records the right part of the wait status.',
}

META["more"] += ' A pipe end is closed once whatever the schedule of closers (read-and-clear of the descriptor under one lock; obligation shared with C09.R5).'
