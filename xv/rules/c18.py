"""C18 — completed paths mean the path.

The round trip "quote a name, read it back" is a property of string values and is not
decided.  Decided is one table agreement that is a necessary condition of it: every
character whose lexer token the grammar *excludes from subprocess argument parts*
(it would split or re-interpret the word) is in the character class that triggers
quoting; and both completers decide quoting through that one shared helper.
"""

from __future__ import annotations

import ast

from .common import *
from ..engine import regexlang

CQ = "xonsh/lib/completion_quoting.py"
LX = "xonsh/parsers/lexer.py"
BP = "xonsh/parsers/base.py"
PC = "xonsh/completers/path.py"
BC = "xonsh/completers/bash_completion.py"

# excluded token types that no file-name character can produce on its own (layout, literal kinds)
NOT_A_CHARACTER = {"INDENT", "DEDENT", "FSTRING_START", "FSTRING_MIDDLE", "FSTRING_END", "SEARCHPATH", "NOT", "IOREDIRECT1", "IOREDIRECT2"}


def _pattern_text(mod):
    """The POSIX value of _PATTERN's pattern string (string concatenation; the
    `if platform.system() == 'Windows'` alternative is resolved to its else branch)."""
    v = mod.assign_value("_PATTERN")
    if not (isinstance(v, ast.Call) and call_name(v) == "re.compile" and v.args):
        raise AnchorMissing(f"{CQ}: _PATTERN is not re.compile(<pattern>)")

    def ev(e):
        if isinstance(e, ast.Constant) and isinstance(e.value, str):
            return e.value
        if isinstance(e, ast.BinOp) and isinstance(e.op, ast.Add):
            return ev(e.left) + ev(e.right)
        if isinstance(e, ast.IfExp) and "Windows" in unparse(e.test):
            return ev(e.orelse)
        raise AnalysisError(f"{CQ}: cannot evaluate the pattern expression `{short(e)}`")

    return ev(v.args[0])


def spelling_table(repo):
    """single spelling -> PLY token types, read from the lexer's literal tables and handlers."""
    lx = repo.module(LX)
    out = {}

    def add(sp, typ):
        out.setdefault(sp, set()).add(typ)

    tm = lx.func("token_map")
    for n in ast.walk(tm):
        if isinstance(n, ast.Dict):
            for k, v in zip(n.keys, n.values):
                if isinstance(const_value(k), str) and isinstance(const_value(v), str):
                    add(const_value(k), const_value(v))
    sh = lx.func("special_handlers")
    for c in calls_in(sh):
        if call_name(c) == "_make_matcher_handler" and len(c.args) >= 4:
            add(const_value(c.args[0]), const_value(c.args[1]))
    # closing brackets & friends: (OP, ")") : handler  ->  token types the handler emits
    for n in ast.walk(sh):
        if isinstance(n, ast.Dict):
            for k, v in zip(n.keys, n.values):
                if isinstance(k, ast.Tuple) and len(k.elts) == 2 and isinstance(const_value(k.elts[1]), str) and isinstance(v, ast.Name) and lx.has(v.id):
                    h = lx.func(v.id)
                    for c in calls_in(h):
                        if call_name(c) == "_new_token" and c.args and isinstance(const_value(c.args[0]), str):
                            add(const_value(k.elts[1]), const_value(c.args[0]))
    # error tokens: `if token.string == "!": typ = "BANG"`
    het = lx.func("handle_error_token")
    for n in ast.walk(het):
        if isinstance(n, ast.If) and isinstance(n.test, ast.Compare) and isinstance(n.test.ops[0], ast.Eq) and isinstance(const_value(n.test.comparators[0]), str):
            for s in n.body:
                if isinstance(s, ast.Assign) and isinstance(const_value(s.value), str):
                    add(const_value(n.test.comparators[0]), const_value(s.value))
    # whitespace error tokens
    hes = lx.func("handle_error_space")
    if any(call_name(c) == "_new_token" and c.args and const_value(c.args[0]) == "WS" for c in calls_in(hes)):
        add(" ", "WS")
    return out


def check(ctx):
    ctx.not_decided += [
        "the round trip quote -> parse for every file name (string values: backslashes, mixed quotes, control characters)",
        "that CompletionContextParser.parse never raises for any text and cursor position",
    ]
    ctx.rule("R1", "every character whose token the grammar excludes from subprocess argument parts triggers quoting (is in completion_quoting._PATTERN)", floor=14)
    ctx.rule("R2", "path completer and bash-completion bridge decide quoting through the one shared helper (no drifting private copies)", floor=2)

    cq = ctx.repo.module(CQ)
    pattern = _pattern_text(cq)
    members = regexlang.char_class_members(pattern)
    chars = {m for m in members if isinstance(m, str)}
    has_space_class = any(isinstance(m, tuple) and m[0] == "category" and "SPACE" in m[1] for m in members)
    ctx.extra["pattern"] = pattern
    bp = ctx.repo.module(BP)
    fn = bp.func("BaseParser._attach_subproc_arg_part_rules")
    excl = None
    for n in ast.walk(fn):
        if isinstance(n, ast.AugAssign) and isinstance(n.op, ast.Sub) and isinstance(n.value, ast.Set):
            excl = {const_value(e) for e in n.value.elts}
    if not excl:
        raise AnchorMissing(f"{BP}: exclusion set of _attach_subproc_arg_part_rules")
    table = spelling_table(ctx.repo)
    if len(table) < 40:
        raise AnalysisError(f"only {len(table)} spellings recovered from the lexer tables")
    ctx.extra["excluded_token_types"] = sorted(excl)
    covered_types = set()
    for sp, types in sorted(table.items()):
        hit = types & excl
        if not hit:
            continue
        covered_types |= hit
        # a multi-character spelling is covered if one of its characters triggers quoting
        ok = any(ch in chars or (ch.isspace() and has_space_class) for ch in sp)
        ctx.ob("R1", f"spelling {sp!r} -> {sorted(hit)}", f"a name containing {sp!r} (token excluded from argument parts: it would split or re-interpret the word) is quoted", ok, key=f"unquoted-special|{sp}", where=f"{CQ}:_PATTERN")
    # keyword tokens and/or: word-boundary alternatives
    for kw, typ in (("and", "AND"), ("or", "OR")):
        if typ in excl:
            covered_types.add(typ)
            ctx.ob("R1", f"word {kw!r} -> {typ}", f"a name that is the word `{kw}` is quoted", f"\\b{kw}\\b" in pattern, key=f"unquoted-word|{kw}", where=f"{CQ}:_PATTERN")
    unexplained = sorted(excl - covered_types - NOT_A_CHARACTER)
    ctx.ob("R1", f"{BP}:_attach_subproc_arg_part_rules", "every excluded token type is traced to a spelling (or is not producible by a file-name character)", not unexplained, key="excluded-type-without-spelling|" + ",".join(unexplained), detail=str(unexplained))
    # the helper applies the pattern with search (anywhere in the name)
    nq = cq.func("name_needs_quotes")
    ok = any(call_name(c) == "_PATTERN.search" for c in calls_in(nq))
    ctx.ob("R1", f"{CQ}:name_needs_quotes", "the pattern is searched anywhere in the name", ok, key="helper|not-search")

    # ------------------------------------------------------------------ R2
    for rel in (PC, BC):
        m = ctx.repo.module(rel)
        uses = any(isinstance(n, ast.Call) and last_attr(n) == "name_needs_quotes" for n in ast.walk(m.tree))
        ctx.ob("R2", rel, "quoting is decided by completion_quoting.name_needs_quotes", uses, key=f"{rel}|helper-not-used", where=rel)


META = {
    "technique": "static analysis: lexer spelling tables and handlers -> token types, grammar exclusion set, regex syntax-tree character class; set inclusion",
    "text": "Decides one necessary table agreement of the property over all characters: the single- and multi-character "
    "spellings whose PLY token the grammar excludes from subprocess argument parts (read from token_map, "
    "special_handlers/_make_matcher_handler, the bracket handlers and handle_error_token) must each contain a "
    "character of the quoting trigger class of completion_quoting._PATTERN (read from its regex syntax tree), plus "
    "the and/or word alternatives; and both completers use that single helper. The string-level round trip through "
    "_quote_paths and the analyser's totality are value properties and are not decided.",
    "note": "Decides the listed structural clause, not the behaviour. POSIX branch of the pattern is analysed. "
    "Known finding: `!` (BANG) is excluded from argument parts but does not trigger quoting.",
}
