"""C18 — completed paths mean the path.

The round trip "quote a name, read it back" is a property of string values and is not
decided.  Decided is one table agreement that is a necessary condition of it: every
character whose lexer token the grammar *excludes from subprocess argument parts*
(it would split or re-interpret the word) is in the character class that triggers
quoting; and both completers decide quoting through that one shared helper.
"""

from __future__ import annotations

import ast

from .common import *
from ..engine import regexlang

CQ = "xonsh/lib/completion_quoting.py"
LX = "xonsh/parsers/lexer.py"
BP = "xonsh/parsers/base.py"
PC = "xonsh/completers/path.py"
BC = "xonsh/completers/bash_completion.py"

# excluded token types that no file-name character can produce on its own (layout, literal kinds)
NOT_A_CHARACTER = {"INDENT", "DEDENT", "FSTRING_START", "FSTRING_MIDDLE", "FSTRING_END", "SEARCHPATH", "NOT", "IOREDIRECT1", "IOREDIRECT2"}


def _pattern_text(mod):
    """The POSIX value of _PATTERN's pattern string (string concatenation; the
    `if platform.system() == 'Windows'` alternative is resolved to its else branch)."""
    v = mod.assign_value("_PATTERN")
    if not (isinstance(v, ast.Call) and call_name(v) == "re.compile" and v.args):
        raise AnchorMissing(f"{CQ}: _PATTERN is not re.compile(<pattern>)")

    def ev(e, depth=0):
        if isinstance(e, ast.Constant) and isinstance(e.value, str):
            return e.value
        if isinstance(e, ast.Name) and e.id in mod.assigns and depth < 6:
            return ev(mod.assigns[e.id][-1].value, depth + 1)  # a sub-expression hoisted into a module constant
        if isinstance(e, ast.BinOp) and isinstance(e.op, ast.Add):
            return ev(e.left) + ev(e.right)
        if isinstance(e, ast.IfExp) and "Windows" in unparse(e.test):
            return ev(e.orelse)
        raise AnalysisError(f"{CQ}: cannot evaluate the pattern expression `{short(e)}`")

    return ev(v.args[0])


def spelling_table(repo):
    """single spelling -> PLY token types, read from the lexer's literal tables and handlers."""
    lx = repo.module(LX)
    out = {}

    def add(sp, typ):
        out.setdefault(sp, set()).add(typ)

    tm = lx.func("token_map")
    for n in ast.walk(tm):
        if isinstance(n, ast.Dict):
            for k, v in zip(n.keys, n.values):
                if isinstance(const_value(k), str) and isinstance(const_value(v), str):
                    add(const_value(k), const_value(v))
    sh = lx.func("special_handlers")
    for c in calls_in(sh):
        if call_name(c) == "_make_matcher_handler" and len(c.args) >= 4:
            add(const_value(c.args[0]), const_value(c.args[1]))
    # closing brackets & friends: (OP, ")") : handler  ->  token types the handler emits
    for n in ast.walk(sh):
        if isinstance(n, ast.Dict):
            for k, v in zip(n.keys, n.values):
                if isinstance(k, ast.Tuple) and len(k.elts) == 2 and isinstance(const_value(k.elts[1]), str) and isinstance(v, ast.Name) and lx.has(v.id):
                    h = lx.func(v.id)
                    for c in calls_in(h):
                        if call_name(c) == "_new_token" and c.args and isinstance(const_value(c.args[0]), str):
                            add(const_value(k.elts[1]), const_value(c.args[0]))
    # error tokens: `if token.string == "!": typ = "BANG"`
    het = lx.func("handle_error_token")
    for n in ast.walk(het):
        if isinstance(n, ast.If) and isinstance(n.test, ast.Compare) and isinstance(n.test.ops[0], ast.Eq) and isinstance(const_value(n.test.comparators[0]), str):
            for s in n.body:
                if isinstance(s, ast.Assign) and isinstance(const_value(s.value), str):
                    add(const_value(n.test.comparators[0]), const_value(s.value))
    # whitespace error tokens
    hes = lx.func("handle_error_space")
    if any(call_name(c) == "_new_token" and c.args and const_value(c.args[0]) == "WS" for c in calls_in(hes)):
        add(" ", "WS")
    return out


def check(ctx):
    ctx.not_decided += [
        "the round trip quote -> parse for every file name (string values: backslashes, mixed quotes, control characters)",
        "that CompletionContextParser.parse never raises for any text and cursor position",
    ]
    ctx.rule("R1", "every character whose token the grammar excludes from subprocess argument parts triggers quoting (is in completion_quoting._PATTERN)", floor=14)
    ctx.rule("R2", "path completer and bash-completion bridge decide quoting through the one shared helper (no drifting private copies)", floor=2)
    ctx.rule("R5", "the tokenizer's column scans make progress on every cycle (the analyser, which runs it in tolerant mode over any text, returns)", floor=2)
    ctx.rule("R4", "the completion-context analyser's line-start table agrees with the lexer's notion of a line (\\n only)", floor=1)
    ctx.rule("R6", "the names the path completer offers are the names the file system reports: the glob walker's listing helper returns os.listdir entries themselves (filtered or sorted at most, never rewritten)", floor=1)
    ctx.rule("R7", "the completion context a request works with is analysed from that request's whole text and cursor position: Completer.parse computes it by calling the analyser in this call on every path and keeps nothing from earlier requests (suffix and closing quote depend on the text *after* the cursor)", floor=2)
    ctx.rule("R9", "the completion context is cut at the cursor: where the analyser folds backslash-newline continuations inside a segment, the cursor is shifted by what was folded *before the cursor* only - every measurement on the segment that enters the shift is bounded by the cursor position (a shift by all continuations of the segment puts the cursor in the wrong word: prefix and suffix no longer reproduce the text around it)", floor=1)
    ctx.rule("R8", "the scanner that finds the string the cursor is in (tools.check_for_partial_string) judges 'this quote is inside a comment' only from text *after the last string it scanned*: the search for `#` never looks back into an earlier, already closed string on the same line (`@('a#b', 'my fi<Tab>` must still see the second quote open)", floor=1)
    ctx.rule("R3", "both emitters escape the closing delimiter in force, on every path, after backslash doubling and before the assembly start+name+end", floor=10)

    cq = ctx.repo.module(CQ)
    pattern = _pattern_text(cq)
    members = regexlang.char_class_members(pattern)
    chars = {m for m in members if isinstance(m, str)}
    has_space_class = any(isinstance(m, tuple) and m[0] == "category" and "SPACE" in m[1] for m in members)
    ctx.extra["pattern"] = pattern
    bp = ctx.repo.module(BP)
    fn = bp.func("BaseParser._attach_subproc_arg_part_rules")
    excl = None
    for n in ast.walk(fn):
        if isinstance(n, ast.AugAssign) and isinstance(n.op, ast.Sub) and isinstance(n.value, ast.Set):
            excl = {const_value(e) for e in n.value.elts}
    if not excl:
        raise AnchorMissing(f"{BP}: exclusion set of _attach_subproc_arg_part_rules")
    table = spelling_table(ctx.repo)
    if len(table) < 40:
        raise AnalysisError(f"only {len(table)} spellings recovered from the lexer tables")
    ctx.extra["excluded_token_types"] = sorted(excl)
    covered_types = set()
    for sp, types in sorted(table.items()):
        hit = types & excl
        if not hit:
            continue
        covered_types |= hit
        # a multi-character spelling is covered if one of its characters triggers quoting
        ok = any(ch in chars or (ch.isspace() and has_space_class) for ch in sp)
        ctx.ob("R1", f"spelling {sp!r} -> {sorted(hit)}", f"a name containing {sp!r} (token excluded from argument parts: it would split or re-interpret the word) is quoted", ok, key=f"unquoted-special|{sp}", where=f"{CQ}:_PATTERN")
    # keyword tokens and/or: word-boundary alternatives
    for kw, typ in (("and", "AND"), ("or", "OR")):
        if typ in excl:
            covered_types.add(typ)
            ctx.ob("R1", f"word {kw!r} -> {typ}", f"a name that is the word `{kw}` is quoted", f"\\b{kw}\\b" in pattern, key=f"unquoted-word|{kw}", where=f"{CQ}:_PATTERN")
    unexplained = sorted(excl - covered_types - NOT_A_CHARACTER)
    ctx.ob("R1", f"{BP}:_attach_subproc_arg_part_rules", "every excluded token type is traced to a spelling (or is not producible by a file-name character)", not unexplained, key="excluded-type-without-spelling|" + ",".join(unexplained), detail=str(unexplained))
    # the category class `\s` means Unicode whitespace only if the pattern is compiled in Unicode mode, the mode the
    # tokenizer compiles its own patterns in (re.UNICODE): under re.ASCII / (?a) a name ending in NBSP, U+2003,
    # U+3000, \x1c ... is not quoted although the tokenizer does not read that character as part of a word
    pv = cq.assign_value("_PATTERN")
    flag_exprs = list(pv.args[1:]) + [k.value for k in pv.keywords if k.arg == "flags"]
    narrowed = [unparse(f) for f in flag_exprs if any(isinstance(x, ast.Attribute) and x.attr in ("ASCII", "A") for x in ast.walk(f)) or any(isinstance(x, ast.Name) and x.id in ("ASCII", "A") for x in ast.walk(f))]
    unknown = [unparse(f) for f in flag_exprs if not all(isinstance(x, (ast.Attribute, ast.Name, ast.BinOp, ast.BitOr, ast.Load, ast.Constant)) for x in ast.walk(f))]
    if unknown:
        raise AnalysisError(f"{CQ}: cannot read the compile flags of _PATTERN: {unknown}")
    inline_a = bool(__import__("re").match(r"\(\?[a-zA-Z]*a", pattern))
    tk_mod = ctx.repo.module("xonsh/parsers/tokenize.py")
    tk_unicode = any(isinstance(c, ast.Call) and call_name(c) == "re.compile" and any("UNICODE" in unparse(a) for a in c.args[1:]) for c in ast.walk(tk_mod.func("_compile")))
    if not tk_unicode:
        raise AnalysisError("xonsh/parsers/tokenize.py:_compile no longer compiles the token patterns with re.UNICODE: the sibling comparison has lost its reference")
    if has_space_class:
        ctx.ob("R1", f"{CQ}:_PATTERN", "the whitespace class of the quoting trigger is the Unicode one, as in the tokenizer's patterns (no re.ASCII / (?a) narrowing it to six ASCII characters)", not narrowed and not inline_a, key="pattern|ascii-only-classes", where=loc(pv), detail=str(narrowed) if narrowed else None)
    # the helper applies the pattern with search (anywhere in the name)
    nq = cq.func("name_needs_quotes")
    ok = any(call_name(c) == "_PATTERN.search" for c in calls_in(nq))
    ctx.ob("R1", f"{CQ}:name_needs_quotes", "the pattern is searched anywhere in the name", ok, key="helper|not-search")

    # ------------------------------------------------------------------ R2
    for rel in (PC, BC):
        m = ctx.repo.module(rel)
        uses = any(isinstance(n, ast.Call) and last_attr(n) == "name_needs_quotes" for n in ast.walk(m.tree))
        ctx.ob("R2", rel, "quoting is decided by completion_quoting.name_needs_quotes", uses, key=f"{rel}|helper-not-used", where=rel)

    # ------------------------------------------------------------------ R3
    # the two sibling emitters assemble `start + s + end`; what stands between the delimiters must
    # have the *current* closing delimiter escaped (a delimiter chosen per name: the escape text
    # cannot be computed before the choice), backslashes doubled first.
    from ..engine import dataflow as df
    from ..engine.cfg import CFG

    for rel, fname in ((PC, "_quote_paths"), (BC, "_bash_quote_paths")):
        m = ctx.repo.module(rel)
        fn = flat(ctx, m.func(fname), depth=1, skip=("name_needs_quotes", "_quote_to_use", "_bash_quote_to_use", "quote_to_use", "_has_control_chars", "_is_directory_in_cdpath", "_bash_unescape", "_bash_expand_path"))
        site = f"{rel}:{fname}"
        cfg = CFG(fn)
        defs = df.all_defs(fn)

        def is_concat3(e):
            return isinstance(e, ast.BinOp) and isinstance(e.op, ast.Add) and isinstance(e.left, ast.BinOp) and isinstance(e.left.op, ast.Add) and all(isinstance(x, ast.Name) for x in (e.left.left, e.left.right, e.right))

        asm = []
        for n in cfg.nodes:
            if n.kind == "stmt" and isinstance(n.ast, ast.Assign):
                for x in ast.walk(n.ast.value):
                    if is_concat3(x) and isinstance(n.ast.targets[0], ast.Name) and x.left.right.id == n.ast.targets[0].id:
                        asm.append((n, x.left.left.id, x.left.right.id, x.right.id))
        if not asm:
            # two-step assembly: `name = start + name`, later `name = name + end` - `end` being the name that is chosen
            # together with `start` (`start = end = <quote>`)
            def step(n, prefix):
                a = n.ast
                if n.kind == "stmt" and isinstance(a, ast.Assign) and len(a.targets) == 1 and isinstance(a.targets[0], ast.Name) and isinstance(a.value, ast.BinOp) and isinstance(a.value.op, ast.Add) and isinstance(a.value.left, ast.Name) and isinstance(a.value.right, ast.Name):
                    x = a.targets[0].id
                    l, r = a.value.left.id, a.value.right.id
                    if prefix and r == x and l != x:
                        return (x, l)
                    if not prefix and l == x and r != x:
                        return (x, r)
                return None

            pres = [(n, step(n, True)) for n in cfg.nodes if step(n, True)]
            if len(pres) == 1:
                pn, (body_, open_) = pres[0]
                co = {t.id for n in walk_local(fn) if isinstance(n, ast.Assign) and len(n.targets) > 1 and any(isinstance(t, ast.Name) and t.id == open_ for t in n.targets) for t in n.targets if isinstance(t, ast.Name) and t.id != open_}
                sufs = [(n, step(n, False)) for n in cfg.nodes if step(n, False) and step(n, False)[0] == body_ and step(n, False)[1] in co]
                if len(sufs) == 1:
                    asm.append((sufs[0][0], open_, body_, sufs[0][1][1]))
        if len(asm) != 1:
            raise AnchorMissing(f"{site}: the assembly `<start> + <name> + <end>` was not found exactly once ({len(asm)})")
        anode, OPEN, BODY, CLOSE = asm[0]

        # the text between the delimiters may travel through other locals (a helper's parameter `body = s + tail`,
        # `s = body` on the way back): every name connected with BODY by assignments that read one another
        BODYSET = {BODY}
        for _ in range(4):
            for n_, ds_ in defs.items():
                if "." in n_:
                    continue
                for d_ in ds_:
                    if d_.value is None or d_.kind not in ("assign", "aug"):
                        continue
                    reads_ = df.names_read(d_.value)
                    if n_ in BODYSET and isinstance(d_.value, (ast.Name, ast.BinOp)) and not isinstance(d_.value, ast.Call):
                        BODYSET |= {r_ for r_ in reads_ if r_ in defs and any(isinstance(dd.value, (ast.Name, ast.BinOp, ast.Call)) for dd in defs[r_] if dd.value is not None) and r_ not in (OPEN, CLOSE)} if isinstance(d_.value, ast.Name) else set()
                    if (reads_ & BODYSET) and isinstance(d_.value, (ast.Name, ast.BinOp)) and n_ not in (OPEN, CLOSE):
                        BODYSET.add(n_)

        def repl_of(n, what):
            """the `X = X.replace(<what>, E)` call of a node (X one of the body's names), or None"""
            if n.kind == "stmt" and isinstance(n.ast, ast.Assign) and unparse(n.ast.targets[0]) in BODYSET:
                c = n.ast.value
                if isinstance(c, ast.Call) and isinstance(c.func, ast.Attribute) and c.func.attr == "replace" and unparse(c.func.value) == unparse(n.ast.targets[0]) and len(c.args) == 2 and unparse(c.args[0]) == what:
                    return c
            return None

        esc_nodes = [n for n in cfg.nodes if repl_of(n, CLOSE) is not None]
        ok = bool(esc_nodes)
        ctx.ob("R3", site, f"occurrences of the closing delimiter `{CLOSE}` inside the name are escaped (`{BODY}.replace({CLOSE}, ...)`)", ok, key=f"{fname}|no-delimiter-escape", where=loc(fn))
        if not ok:
            continue
        # every path to the assembly tests `CLOSE in BODY`, and the true edge leads to the escape
        # every path to the assembly passes the escape - except paths on which there is nothing to escape: the
        # delimiter is empty, or is known not to occur in the text (`end in s` false)
        def nothing_to_escape(a_, b_, label):
            if a_.kind not in ("if", "while") or label not in ("true", "false"):
                return False
            for e_, pol_ in implied_facts(a_.ast.test, label == "true"):
                from ..engine.dtable import normalise as _nm

                e2_, p2_ = _nm(e_, pol_)
                t_ = unparse(e2_)
                if t_ == f"{CLOSE} == ''" and p2_:
                    return True
                if any(t_ == f"{CLOSE} in {x_}" for x_ in BODYSET) and not p2_:
                    return True
            return False

        loop_ = next((l for l in walk_local(fn) if isinstance(l, ast.For) and any(anode.ast is y for y in ast.walk(l))), None)
        inner_ = CFG(loop_.body) if loop_ is not None else cfg
        esc_in = [n for n in inner_.nodes if repl_of(n, CLOSE) is not None]
        asm_in = [n for n in inner_.nodes if n.ast is anode.ast]
        ok = bool(esc_in) and bool(asm_in)
        if ok:
            seen_ = inner_.reach([inner_.entry], stop=lambda x: x in esc_in, skip_edge=nothing_to_escape)
            ok = not any(a_ in seen_ for a_ in asm_in)
        ctx.ob("R3", site, f"every path to the assembly passes the escape of `{CLOSE}` unless there is nothing to escape (empty delimiter, or `{CLOSE} in <text>` false)", ok, key=f"{fname}|escape-skipped", where=loc(anode.ast))
        # nothing rebinds the delimiter (or the name) between the escape and the assembly
        # (within one iteration: the next path starts with a fresh delimiter; an arm of the assembly that does not append
        # the delimiter at all has nothing to protect)
        for e0 in esc_nodes:
            in_loop = loop_ is not None and e0.ast is not None and lexically_inside(e0.ast, loop_)
            g_ = inner_ if in_loop else cfg
            e = e0
            e_in = next((x for x in g_.nodes if x.ast is e0.ast), e0)
            seen = g_.reach([e_in], stop=lambda x: x.ast is anode.ast)
            bad = [x for x in seen if x.ast is not anode.ast and x.kind == "stmt" and isinstance(x.ast, (ast.Assign, ast.AugAssign)) and any(isinstance(t, ast.Name) and t.id == CLOSE for tt in (x.ast.targets if isinstance(x.ast, ast.Assign) else [x.ast.target]) for t in ast.walk(tt))]
            ctx.ob("R3", site, f"`{CLOSE}` is not rebound between the escape and the assembly", not bad, key=f"{fname}|delimiter-rebound-after-escape", where=loc(bad[0].ast) if bad else loc(e.ast))
            # the escape text is a function of the delimiter *in force at the escape*
            c = repl_of(e, CLOSE)
            bound = {t.id for g in ast.walk(c.args[1]) if isinstance(g, ast.comprehension) for t in ast.walk(g.target) if isinstance(t, ast.Name)}
            names = [x for x in ast.walk(c.args[1]) if isinstance(x, ast.Name) and x.id not in bound and isinstance(x.ctx, ast.Load)]
            fresh = any(x.id == CLOSE for x in names)
            stale = None
            derived = fresh
            close_defs = [cn for d in defs.get(CLOSE, []) if d.kind != "param" for cn in cfg.nodes_of(d.stmt)]
            for x in names:
                if x.id == CLOSE:
                    continue
                for d in defs.get(x.id, []):
                    if d.value is None or CLOSE not in {y.id for y in ast.walk(d.value) if isinstance(y, ast.Name)}:
                        continue
                    derived = True
                    dn = cfg.nodes_of(d.stmt)
                    after = cfg.reach(dn, stop=lambda y: y in dn)
                    for r in close_defs:
                        if r in after and e in cfg.reach([r], stop=lambda y: y in dn):
                            stale = (x.id, d, r)
            ctx.ob("R3", site, f"the escape text `{short(c.args[1], 50)}` is computed from the closing delimiter", derived, key=f"{fname}|escape-not-derived", where=loc(c))
            ctx.ob(
                "R3",
                site,
                f"the escape text is computed from the delimiter in force at the escape (the delimiter is chosen per name: a value derived before `{CLOSE}` is rebound escapes the wrong character)",
                stale is None,
                key=f"{fname}|stale-escape",
                where=loc(c),
                detail=(f"`{stale[0]}` is computed at line {stale[1].stmt.lineno}; `{CLOSE}` is rebound at line {stale[2].ast.lineno} before the escape uses it" if stale else None),
            )
            # backslashes are doubled before the delimiter escape introduces its own
            bs = [n for n in cfg.nodes if n.kind == "stmt" and isinstance(n.ast, ast.Assign) and isinstance(n.ast.value, ast.Call) and unparse(n.ast.value.func) == f"{BODY}.replace" and len(n.ast.value.args) == 2 and "backslash" in unparse(n.ast.value.args[0])]
            if bs:
                loop = next((l for l in ast.walk(fn) if isinstance(l, ast.For) and any(e.ast is y for y in ast.walk(l))), None)
                inner = CFG(loop.body) if loop is not None else cfg
                e2 = inner.nodes_of(e.ast)
                okb, pth = inner.never_after(e2, lambda y: any(y.ast is b.ast for b in bs))
                ctx.ob("R3", site, "backslash doubling never follows the delimiter escape (its introduced backslashes would be doubled)", okb, key=f"{fname}|backslash-after-escape", where=loc(e.ast))


    # ------------------------------------------------------------------ R4
    # the completion-context analyser converts the lexer's per-line positions into absolute ones through a table
    # of line starts indexed by the lexer's line number.  The lexer advances its line number at "\n" only; a
    # table built with str.splitlines() also breaks at \r, \v, \f, \x1c-\x1e, \x85, U+2028/9 and shifts every
    # later token: the word under the cursor is mis-measured and the completion is spliced into the wrong place.
    cc_rel = "xonsh/parsers/completion_context.py"
    ccm = ctx.repo.module(cc_rel)
    tables = set()
    for q_, fn_ in ccm.functions():
        for n_ in walk_local(fn_):
            if isinstance(n_, ast.Subscript) and isinstance(n_.value, ast.Attribute) and isinstance(n_.value.value, ast.Name) and n_.value.value.id == "self" and not isinstance(n_.slice, ast.Slice) and "lineno" in unparse(n_.slice):
                tables.add(n_.value.attr)
    if not tables:
        raise AnalysisError(f"{cc_rel}: no table indexed by the lexer's line number found")
    n_tab = 0
    for q_, fn_ in ccm.functions():
        for n_ in walk_local(fn_):
            if isinstance(n_, (ast.Assign, ast.AnnAssign)) and n_.value is not None:
                tg = n_.targets if isinstance(n_, ast.Assign) else [n_.target]
                if not any(isinstance(t, ast.Attribute) and isinstance(t.value, ast.Name) and t.value.id == "self" and t.attr in tables for t in tg):
                    continue
                v = n_.value
                if isinstance(v, (ast.Tuple, ast.List)) and not v.elts:
                    continue  # initial empty table
                n_tab += 1
                uses_splitlines = any(isinstance(x, ast.Call) and last_attr(x) == "splitlines" for x in ast.walk(v))
                # newline-only mechanisms: a "\n" literal, or a module-level regex compiled from exactly "\n"
                nl_only = any(isinstance(x, ast.Constant) and x.value == "\n" for x in ast.walk(v))
                for x in ast.walk(v):
                    if isinstance(x, ast.Name) and ccm.has(x.id) and isinstance(ccm.quals[x.id], FuncTypes):
                        body_ = ccm.quals[x.id]
                        if any(isinstance(c, ast.Call) and call_name(c) == "re.compile" and c.args and const_value(c.args[0]) == "\n" for c in ast.walk(body_)):
                            nl_only = True
                if not uses_splitlines and not nl_only:
                    raise AnalysisError(f"{cc_rel}:{q_}: `{short(n_, 60)}`: cannot decide how the line-start table is computed")
                ctx.ob("R4", f"{cc_rel}:{q_}", f"`{short(n_, 60)}`: the line-start table (indexed by the lexer's line number, which advances at \\n only) is computed from \\n only, not with splitlines()", not uses_splitlines and nl_only, key=f"{q_}|line-table-splitlines", where=loc(n_))
    if n_tab < 1:
        raise AnalysisError(f"{cc_rel}: no construction of the line-start table found")


    # ------------------------------------------------------------------ R5
    # "analysing a command line never fails" includes "returns": the analyser runs xonsh's tokenizer in tolerant
    # mode over whatever is in the buffer.  Its column scans (`while pos < max`) must make progress on every cycle:
    # a way back to the loop head that neither moves `pos` nor changes the scanner state that selected the branch
    # (f-string stack / in_expr / in_format_spec) repeats for ever on the same character.
    tkm = ctx.repo.module("xonsh/parsers/tokenize.py")
    tzf = tkm.func("_tokenize")
    zcfg = CFG(tzf)
    zdefs = df.all_defs(tzf)
    # the column variable: compared with a bound in the loop tests and used to index the line
    scan_loops = [n for n in zcfg.nodes if n.kind == "while" and isinstance(n.ast.test, ast.Compare) and isinstance(n.ast.test.left, ast.Name) and isinstance(n.ast.test.ops[0], ast.Lt) and isinstance(n.ast.test.comparators[0], ast.Name)]
    by_var = {}
    for n in scan_loops:
        by_var.setdefault(n.ast.test.left.id, []).append(n)
    POS = max(by_var, key=lambda k_: len(by_var[k_])) if by_var else None
    if POS is None or len(by_var[POS]) < 2:
        raise AnalysisError(f"xonsh/parsers/tokenize.py:_tokenize: column scans (`while <pos> < <max>`) not found ({ {k_: len(v_) for k_, v_ in by_var.items()} })")
    # the f-string stack: the local whose top frame's mode flag is tested (`<stack>[-1]["in_expr"]`)
    STACKS = {x.value.value.id for x in ast.walk(tzf) if isinstance(x, ast.Subscript) and const_value(x.slice) in ("in_expr", "in_format_spec") and isinstance(x.value, ast.Subscript) and unparse(x.value.slice) == "-1" and isinstance(x.value.value, ast.Name)}
    if not STACKS:
        raise AnalysisError("xonsh/parsers/tokenize.py:_tokenize: f-string stack not identified")
    FRAMES = names_defined_by(tzf, lambda v: isinstance(v, ast.Subscript) and unparse(v.value) in STACKS and unparse(v.slice) == "-1", zdefs)
    MODE_KEYS = {"in_expr", "in_format_spec"}

    def progress(n_):
        if n_.kind != "stmt":
            return False
        a_ = n_.ast
        if isinstance(a_, (ast.Assign, ast.AugAssign)):
            tg = a_.targets if isinstance(a_, ast.Assign) else [a_.target]
            for t in tg:
                for x in ast.walk(t):
                    if isinstance(x, ast.Name) and x.id == POS and isinstance(x.ctx, ast.Store):
                        return True
                if isinstance(t, ast.Subscript) and const_value(t.slice) in MODE_KEYS and (unparse(t.value) in FRAMES or any(unparse(t.value) == f"{s_}[-1]" for s_ in STACKS)):
                    return True
        for c in calls_in(a_):
            if isinstance(c.func, ast.Attribute) and c.func.attr in ("pop", "append") and unparse(c.func.value) in STACKS:
                return True
        return False

    for w in by_var[POS]:
        inside = lambda m_, w=w: m_.ast is not None and (m_.ast is w.ast or lexically_inside(m_.ast, w.ast))
        starts = [m_ for m_, l_ in w.succ if l_ == "true"]
        seen = zcfg.reach([s_ for s_ in starts if not progress(s_)], stop=progress, skip_edge=lambda a_, b_, l_, inside=inside, w=w: not inside(b_) or l_ == "exc" or (a_.kind == "while" and a_ is not w and l_ == "false" and unparse(a_.ast.test) == unparse(w.ast.test)), include_starts=True)  # an inner scan that ran off the end of the line ends the outer scan too
        cyc = w in seen
        ctx.ob(
            "R5",
            "xonsh/parsers/tokenize.py:_tokenize",
            f"`while {short(w.ast.test)}` (line {w.ast.lineno}): every way back to the loop head moves `{POS}` or changes the scanner state (f-string stack / mode flags) - tolerant mode included",
            not cyc,
            key=f"tokenize|cycle-without-progress|{'outer' if not any(isinstance(a_, ast.While) and a_ is not w.ast and isinstance(a_.test, ast.Compare) and unparse(a_.test) == unparse(w.ast.test) for a_ in ancestors(w.ast)) else 'inner'}|{[x.ast.lineno for x in by_var[POS]].index(w.ast.lineno)}",
            where=loc(w.ast),
            path=zcfg.fmt_path(zcfg.path_to(seen, w), limit=22) if cyc else None,
        )

    _listing_verbatim(ctx)
    _fresh_context(ctx)
    _partial_string_comment_window(ctx)
    _cursor_shift_bounded(ctx)


def _fresh_context(ctx):
    cm = ctx.repo.module("xonsh/completer.py")
    fn = flat(ctx, cm.func("Completer.parse"), 1, skip=("parse", "with_ctx"))
    st = "xonsh/completer.py:Completer.parse"
    cfg = CFG(fn)
    defs = df.all_defs(fn)
    text_p, cur_p = param_name(fn, 0), param_name(fn, 1)
    calls = [n for n in cfg.nodes if n.kind == "stmt" and any(last_attr(c) == "parse" and isinstance(c.func, ast.Attribute) and "parser" in unparse(c.func.value) for c in calls_in(n.ast))]
    if not calls:
        raise AnchorMissing(f"{st}: the call of the context analyser")
    # whole text, this request's cursor
    for n in calls:
        for c in calls_in(n.ast):
            if last_attr(c) == "parse" and "parser" in unparse(c.func.value):
                a0 = c.args[0] if c.args else None
                a1 = c.args[1] if len(c.args) > 1 else None
                ok0 = isinstance(a0, ast.Name) and a0.id == text_p and all(d.kind == "param" for d in defs.get(text_p, []))
                ok1 = a1 is not None and cur_p in {x.id for x in ast.walk(a1) if isinstance(x, ast.Name)}
                ctx.ob("R7", st, f"`{short(c, 60)}` analyses the request's whole text at its cursor position", ok0 and ok1, key="completer-parse|analyser-gets-other-than-request", where=loc(c))
    rets = [n for n in cfg.nodes if n.kind == "stmt" and isinstance(n.ast, ast.Return) and n.ast.value is not None and const_value(n.ast.value, 0) is not None]
    fresh = bool(rets) and all(r in calls or cfg.dominated(r, lambda m: m in calls) for r in rets)
    ctx.ob("R7", st, "every context returned was analysed in this call (no path serves one from an earlier request)", fresh, key="completer-parse|context-not-from-this-call", where=loc(rets[0].ast) if rets else loc(fn))
    stores = [n for n in walk_local(fn) if isinstance(n, (ast.Assign, ast.AugAssign)) and any(isinstance(x, ast.Attribute) and unparse(x.value) == "self" and isinstance(x.ctx, ast.Store) for t in (n.targets if isinstance(n, ast.Assign) else [n.target]) for x in ast.walk(t))]
    ctx.ob("R7", st, "the method keeps nothing on the completer between requests", not stores, key="completer-parse|keeps-state", where=loc(stores[0]) if stores else loc(fn), detail=f"`{short(stores[0], 60)}`" if stores else None)


def _listing_verbatim(ctx):
    tl = ctx.repo.module("xonsh/tools.py")
    outer = tl.func("_case_insensitive_iglob")
    st = "xonsh/tools.py:_case_insensitive_iglob"
    LIST = ("os.listdir", "os.scandir", "listdir", "scandir")
    helpers = [n for n in ast.walk(outer) if isinstance(n, (ast.FunctionDef, ast.Lambda)) and n is not outer and any(call_name(c) in LIST for c in ast.walk(n) if isinstance(c, ast.Call))]
    if not helpers:
        # the listing helper may live at module level (`_glob_listdir(dirname, part, ..)`): functions of this module that
        # the walker calls and that list a directory
        called = {(call_name(c) or "") for c in ast.walk(outer) if isinstance(c, ast.Call)}
        helpers = [f for q, f in tl.functions() if "." not in q and q in called and any(call_name(c) in LIST for c in ast.walk(f) if isinstance(c, ast.Call))]
    scopes = helpers or [outer]
    n_ret = 0
    for h in scopes:
        if isinstance(h, ast.Lambda):
            raise AnalysisError(f"{st}: listing helper is a lambda")
        defs = df.all_defs(h)

        def verbatim(e, seen=frozenset()):
            """e evaluates to a sequence whose elements are listing entries themselves"""
            if isinstance(e, ast.Constant) and e.value is None:
                return True
            if isinstance(e, ast.Call) and call_name(e) in LIST:
                return True
            if isinstance(e, ast.Name):
                if e.id in seen:
                    return True
                ds = defs.get(e.id, [])
                return bool(ds) and all(d.kind == "assign" and d.value is not None and verbatim(d.value, seen | {e.id}) for d in ds)
            if isinstance(e, (ast.ListComp, ast.GeneratorExp, ast.SetComp)) and len(e.generators) == 1:
                g = e.generators[0]
                return isinstance(g.target, ast.Name) and isinstance(e.elt, ast.Name) and e.elt.id == g.target.id and verbatim(g.iter, seen)
            if isinstance(e, ast.Call) and call_name(e) in ("sorted", "list", "tuple", "reversed", "set", "frozenset") and e.args:
                return verbatim(e.args[0], seen)
            if isinstance(e, ast.Call) and call_name(e) == "filter" and len(e.args) == 2:
                return verbatim(e.args[1], seen)
            if isinstance(e, ast.IfExp):
                return verbatim(e.body, seen) and verbatim(e.orelse, seen)
            if isinstance(e, (ast.List, ast.Tuple)) and not e.elts:
                return True
            return False

        for r in [n for n in walk_local(h) if isinstance(n, ast.Return) and n.value is not None] if h is not outer else []:
            n_ret += 1
            ok = verbatim(r.value)
            ctx.ob("R6", f"{st}.{h.name}", f"`{short(r, 60)}` hands on directory entries as listed (a rewritten name - normalised, case-folded, stripped - is not the file's name)", ok, key=f"listing|{h.name}|entries-rewritten", where=loc(r))
    if not n_ret:
        raise AnchorMissing(f"{st}: a listing helper with os.listdir and a return")



def _partial_string_comment_window(ctx):
    TL_ = "xonsh/tools.py"
    tm = ctx.repo.module(TL_)
    fn = flat(ctx, tm.func("check_for_partial_string"), 2)
    st = f"{TL_}:check_for_partial_string"
    xp = param_name(fn, 0, skip_self=False)
    defs = df.all_defs(fn)
    loops = [l for l in walk_local(fn) if isinstance(l, ast.While)]
    if not loops:
        raise AnalysisError(f"{st}: no scan loop")
    lp = loops[0]
    reslices = [a for a in ast.walk(lp) if isinstance(a, ast.Assign) and any(isinstance(t, ast.Name) and t.id == xp for t in a.targets) and isinstance(a.value, ast.Subscript) and unparse(a.value.value) == xp and isinstance(a.value.slice, ast.Slice) and a.value.slice.lower is not None and a.value.slice.upper is None]
    hashes = []
    for c in ast.walk(lp):
        if isinstance(c, ast.Call) and isinstance(c.func, ast.Attribute) and c.func.attr in ("find", "rfind", "index", "count") and c.args and const_value(c.args[0], None) == "#":
            hashes.append(c)
        if isinstance(c, ast.Compare) and len(c.ops) == 1 and isinstance(c.ops[0], (ast.In, ast.NotIn)) and const_value(c.left, None) == "#":
            hashes.append(c)
    if not hashes:
        ctx.ob("R8", st, "the scanner has no comment test (nothing to get wrong)", True, key="partial-string|no-comment-test")
        return
    if reslices:
        # re-slicing style: the text variable always is the unscanned tail, any window inside it starts after the last string
        for h in hashes:
            ctx.ob("R8", st, f"`{short(h, 40)}` looks at the unscanned tail only (the text variable is cut behind every scanned string)", True, key="partial-string|comment-window-reaches-back", where=loc(h))
        return
    # absolute-position style: the scan position is what the opening-quote search starts from
    P = {unparse(c.args[1]) for c in ast.walk(lp) if isinstance(c, ast.Call) and isinstance(c.func, ast.Attribute) and c.func.attr == "search" and len(c.args) >= 2 and unparse(c.args[0]) == xp}
    if not P:
        raise AnalysisError(f"{st}: neither re-slicing nor an absolute scan position recognised")

    def depends_on_pos(e, depth=0):
        if depth > 5 or e is None:
            return False
        if unparse(e) in P:
            return True
        if isinstance(e, ast.Name):
            return any(d.value is not None and depends_on_pos(d.value, depth + 1) for d in defs.get(e.id, []))
        if isinstance(e, ast.Call) and call_name(e) == "max":
            return any(depends_on_pos(a, depth + 1) for a in e.args)
        if isinstance(e, ast.BinOp):
            return depends_on_pos(e.left, depth + 1) or depends_on_pos(e.right, depth + 1)
        if isinstance(e, ast.Call) and isinstance(e.func, ast.Attribute) and e.func.attr in ("rfind", "find") and len(e.args) >= 2:
            # x.rfind("\n", lo, hi): the result is >= lo - 1; it is bounded by the scan position only if lo is
            return depends_on_pos(e.args[1], depth + 1)
        return False

    for h in hashes:
        if isinstance(h, ast.Call):
            lo = h.args[1] if len(h.args) >= 2 else None
            ok = unparse(h.func.value) == xp and depends_on_pos(lo)
        else:
            hay = h.comparators[0]
            if isinstance(hay, ast.Name) and len(defs.get(hay.id, [])) == 1 and defs[hay.id][0].value is not None:
                hay = defs[hay.id][0].value
            ok = isinstance(hay, ast.Subscript) and isinstance(hay.slice, ast.Slice) and depends_on_pos(hay.slice.lower)
        ctx.ob("R8", st, f"`{short(h, 50)}`: the window searched for `#` starts at or after the scan position ({sorted(P)})", ok, key="partial-string|comment-window-reaches-back", where=loc(h), detail=None if ok else "the window starts at the line start of the whole text: a `#` inside an earlier closed string on that line hides the quote")


def _cursor_shift_bounded(ctx):
    CCX = "xonsh/parsers/completion_context.py"
    cm = ctx.repo.module(CCX)
    fn = cm.func("CompletionContextParser.process_string_segment")
    st = f"{CCX}:CompletionContextParser.process_string_segment"
    sp = param_name(fn, 0)
    defs = df.all_defs(fn)
    rets = [r for r in walk_local(fn) if isinstance(r, ast.Return) and isinstance(r.value, ast.Tuple) and len(r.value.elts) == 2 and isinstance(r.value.elts[1], ast.Name)]
    if not rets:
        raise AnalysisError(f"{st}: the (text, relative cursor) result was not found")
    RC = {r.value.elts[1].id for r in rets}
    STR = {sp} | {nm for nm, ds in defs.items() if any(d.value is not None and sp in df.names_read(d.value) and isinstance(d.value, ast.Call) and isinstance(d.value.func, ast.Attribute) and d.value.func.attr in ("replace", "strip", "lstrip", "rstrip") for d in ds)}
    shifts = [a for a in walk_local(fn) if (isinstance(a, ast.AugAssign) and isinstance(a.target, ast.Name) and a.target.id in RC) or (isinstance(a, ast.Assign) and any(isinstance(t, ast.Name) and t.id in RC for t in a.targets) and any(isinstance(x, ast.Name) and x.id in RC for x in ast.walk(a.value)))]
    if not shifts:
        ctx.ob("R9", st, "the relative cursor is not shifted (nothing is folded)", True, key="segment|no-shift")
        return
    for a in shifts:
        e = a.value
        # every measurement on the segment text inside the shift
        unbounded = []
        exprs = [e]
        for x in ast.walk(e):
            if isinstance(x, ast.Name) and x.id not in RC and x.id not in STR:
                for d in defs.get(x.id, []):
                    if d.value is not None:
                        exprs.append(d.value)
        for ex in exprs:
            for c in ast.walk(ex):
                if isinstance(c, ast.Call) and isinstance(c.func, ast.Attribute) and isinstance(c.func.value, ast.Name) and c.func.value.id in STR and c.func.attr in ("count", "find", "rfind", "index"):
                    hi = c.args[2] if len(c.args) >= 3 else None
                    if hi is None or not (RC & df.names_read(hi)):
                        unbounded.append(c)
                if isinstance(c, ast.Call) and call_name(c) == "len" and c.args:
                    a0 = c.args[0]
                    if isinstance(a0, ast.Name) and a0.id in STR:
                        unbounded.append(c)
                    elif isinstance(a0, ast.Subscript) and isinstance(a0.value, ast.Name) and a0.value.id in STR and not (isinstance(a0.slice, ast.Slice) and a0.slice.upper is not None and RC & df.names_read(a0.slice.upper)):
                        unbounded.append(c)
        ctx.ob("R9", st, f"`{short(a, 60)}`: the shift measures the segment only up to the cursor", not unbounded, key="segment|shift-measures-whole-segment", where=loc(unbounded[0]) if unbounded else loc(a), detail=f"`{short(unbounded[0], 50)}` looks at the whole segment" if unbounded else None)

META = {
    "technique": "static analysis: lexer spelling tables and handlers -> token types, grammar exclusion set, regex syntax-tree character class; set inclusion; CFG dominance / reaching-definition (stale copy) check of the two quote emitters",
    "text": "Decides one necessary table agreement of the property over all characters: the single- and multi-character "
    "spellings whose PLY token the grammar excludes from subprocess argument parts (read from token_map, "
    "special_handlers/_make_matcher_handler, the bracket handlers and handle_error_token) must each contain a "
    "character of the quoting trigger class of completion_quoting._PATTERN (read from its regex syntax tree), plus "
    "the and/or word alternatives; both completers use that single helper; and the two sibling emitters "
    "(_quote_paths, _bash_quote_paths) follow one emission discipline on every path: the closing delimiter in force "
    "is escaped inside the name (escape text derived from the delimiter *after* the per-name choice, never a stale "
    "copy), under a test every path to the assembly passes, after backslash doubling and before start+name+end. "
    "The string-level round trip and the analyser's totality are value properties and are not decided.",
    "note": "Decides the listed structural clause, not the behaviour. POSIX branch of the pattern is analysed. "
    "Known finding: `!` (BANG) is excluded from argument parts but does not trigger quoting.",
    "more": "Also decided: the glob walker behind the path completer hands on os.listdir entries unmodified (the offered name is the file's name). Completer.parse analyses each request's whole text in that call and keeps nothing between requests. The quoting trigger's whitespace class is the Unicode one, as in the tokenizer's patterns (no re.ASCII). The scanner that finds the string the cursor is in judges 'inside a comment' only from text after the last string it scanned.",
}

META["more"] += ' The cursor shift for folded line continuations is measured on the segment cut at the cursor, not on the whole segment.'
