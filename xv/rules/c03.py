"""C03 — a bare command line means its explicit ``![...]`` form; detection terminates.

Decided: every ``while`` loop in the functions reachable from ``Execer.parse`` has a
variant the checker can see — a budget decremented on every cycle with a raising guard,
a monotone index moved towards its bound on every cycle, or a consumer of a finite
stream that leaves on exhaustion — and no ``for`` loop there grows the collection it
iterates; the self-recursion of ``_parse_ctx_free`` is bounded by a flag; the recovery
loop raises only the parser's own SyntaxError; the text returned by
``tools.subproc_toks`` is built only from slices of the source line and the two
literals ``![`` and ``]``.  Not decided: that the column window chosen is the right
one for every line (value-level arithmetic), termination of PLY's LR driver and of the
tokenizer (trusted), absence of implicit IndexErrors.
"""

from __future__ import annotations

import ast

from .common import *
from ..engine.callgraph import CallGraph
from ..engine.loader import class_methods

EX = "xonsh/execer.py"
TL = "xonsh/tools.py"
AS = "xonsh/parsers/ast.py"
LX = "xonsh/parsers/lexer.py"

# dynamic dispatch the call graph cannot see (confirmed by reading)
EXTRA = {
    (TL, "subproc_toks"): [(LX, "Lexer.__iter__"), (LX, "Lexer.input"), (LX, "Lexer.reset")],
    (TL, "find_next_break"): [(LX, "Lexer.__iter__"), (LX, "Lexer.input")],
    (TL, "balanced_parens"): [(LX, "Lexer.__iter__"), (LX, "Lexer.input")],
    (LX, "Lexer.input"): [(LX, "get_tokens")],
    (LX, "Lexer.__iter__"): [(LX, "Lexer.token")],
    (LX, "get_tokens"): [(LX, "handle_token")],
    (EX, "Execer.parse"): [(AS, "CtxAwareTransformer.ctxvisit"), (AS, "CtxAwareTransformer.try_subproc_toks"), (AS, "CtxAwareTransformer.visit_Expr"), (AS, "CtxAwareTransformer.visit_BoolOp")],
}

# Frozen catalogue: (function, normalised loop test) -> variant.
#   index : `var` moves strictly towards the bound on every cycle.  `dir` +1/-1.  Progress statements
#           are `var += k` / `var -= k` (k > 0 constant) plus the listed assignments, each with the
#           companion fact that makes it strict (confirmed by reading).
#   budget: `var` is decremented on every cycle, guarded by a raise when exhausted, never re-assigned.
#   consumer: every cycle consumes one element of a finite stream (`next(...)`, `.token()`), and the
#           loop leaves when the stream is exhausted.
# Keys are spelled without local names: the variant variable is `$v`, every other local of the function is `_`
# (globals, builtins, attribute names stay) - renaming a local is a behaviour-preserving edit.
# An index entry also stands for the same counter and bound under a test with further top-level conjuncts
# (`$v > 0 and (...)`): they only let the loop leave earlier (see _classify).  Budget, consumer and descent
# entries are matched by the whole test.
LOOPS = {
    ("Execer._parse_ctx_free._try_parse", "not _"): dict(kind="budget"),
    ("_have_open_triple_quotes", "$v < _"): dict(
        kind="index", dir=+1,
        also={
            "$v = _ if _ < 0 else _ + 1": "j = s.find('\\n', i) is >= i when found, so j + 1 > i; otherwise i jumps to the bound n",
            "$v = _": "`i = end`: end starts at i + 1 or i + 3 and is only increased by the inner scans",
        },
    ),
    ("_have_open_triple_quotes", "$v >= 0 and len(_) < 2 and (_[$v] in _STR_PREFIX_CHARS)"): dict(kind="index", dir=-1),
    ("_ends_with_line_continuation", "$v < _"): dict(kind="index", dir=+1),
    ("get_logical_line", "$v > 0"): dict(kind="index", dir=-1),
    ("get_logical_line", "(_ends_with_line_continuation(_, _) or _) and $v < _ - 1"): dict(kind="index", dir=+1),
    ("CtxAwareTransformer._looks_like_flag_subproc", "isinstance($v, UnaryOp) and isinstance($v.op, USub)"): dict(
        kind="descent", dir=-1,
        also={"$v = $v.operand": "each cycle descends into a strict sub-tree of a finite syntax tree"},
    ),
    ("Lexer.__iter__", "_ is not None"): dict(kind="consumer", consume=("self.token",), reason="each cycle pulls one token from the finite token stream; None ends it"),
    ("get_tokens", "True"): dict(kind="consumer", consume=("next",), reason="each cycle pulls one tokenize token; StopIteration/TokenError/IndentationError break out"),
}


class _Abstract(ast.NodeTransformer):
    def __init__(self, locals_, var):
        self.l, self.v = locals_, var

    def visit_IfExp(self, node):
        # canonical arm order: the test in positive form (`a if not t else b` == `b if t else a`)
        self.generic_visit(node)
        t, a, b = node.test, node.body, node.orelse
        changed = True
        while changed:
            changed = False
            if isinstance(t, ast.UnaryOp) and isinstance(t.op, ast.Not):
                t, a, b, changed = t.operand, b, a, True
            elif isinstance(t, ast.Compare) and len(t.ops) == 1 and isinstance(t.ops[0], (ast.IsNot, ast.NotEq, ast.NotIn)):
                pos = {ast.IsNot: ast.Is, ast.NotEq: ast.Eq, ast.NotIn: ast.In}[type(t.ops[0])]()
                t, a, b, changed = ast.Compare(left=t.left, ops=[pos], comparators=t.comparators), b, a, True
        return ast.copy_location(ast.IfExp(test=t, body=a, orelse=b), node)

    def visit_Name(self, node):
        if node.id == self.v:
            return ast.copy_location(ast.Name(id="$v", ctx=node.ctx), node)
        if node.id in self.l:
            return ast.copy_location(ast.Name(id="_", ctx=node.ctx), node)
        return node


def _abstract(node, locals_, var):
    """source text of node with the variant variable spelled `$v` and every other local `_`"""
    from ..engine.dtable import clone

    return " ".join(unparse(_Abstract(locals_, var).visit(clone(node))).split())


def _bounding_conjuncts(test, var, direction):
    """The top-level conjuncts of a loop test that bound ``var`` in the progress direction: (conjunct, bound expression, strict)."""
    out = []
    for c in conjuncts(test):
        if isinstance(c, ast.Compare) and len(c.ops) == 1:
            l, op, r = unparse(c.left), c.ops[0], unparse(c.comparators[0])
            if direction > 0 and l == var and isinstance(op, (ast.Lt, ast.LtE)):
                out.append((c, c.comparators[0], isinstance(op, ast.Lt)))
            elif direction > 0 and r == var and isinstance(op, (ast.Gt, ast.GtE)):
                out.append((c, c.left, isinstance(op, ast.Gt)))
            elif direction < 0 and l == var and isinstance(op, (ast.Gt, ast.GtE)):
                out.append((c, c.comparators[0], isinstance(op, ast.Gt)))
            elif direction < 0 and r == var and isinstance(op, (ast.Lt, ast.LtE)):
                out.append((c, c.left, isinstance(op, ast.Lt)))
    return out


def _bounds_var(test, var, direction):
    """Some conjunct of the loop test bounds ``var`` in the progress direction."""
    return bool(_bounding_conjuncts(test, var, direction))


_PLACEHOLDER = "V__variant__"
_catalogued_bounds_memo = {}


def _catalogued_bounds(key, direction):
    """The bound(s) a catalogued index test puts on its counter: (strict, bound in the catalogue's spelling) - (True, `0`)
    for `$v > 0`, (True, `_ - 1`) for `... and $v < _ - 1`.  Which side of the comparison the counter stands on is not part of it."""
    if (key, direction) not in _catalogued_bounds_memo:
        tree = ast.parse(key.replace("$v", _PLACEHOLDER), mode="eval").body
        _catalogued_bounds_memo[(key, direction)] = [
            (strict, " ".join(unparse(b).split()).replace(_PLACEHOLDER, "$v")) for _c, b, strict in _bounding_conjuncts(tree, _PLACEHOLDER, direction)
        ]
    return _catalogued_bounds_memo[(key, direction)]


def _bound_is_fixed(w, var, bound):
    """The bound of an index loop stands still while the loop runs: it is built from constants and plain names by
    arithmetic alone (no call, attribute or subscript whose value the loop could change behind the name), none of
    these names is bound anywhere inside the loop - test included - and the test does not itself store the counter."""
    names = set()
    for n in ast.walk(bound):
        if isinstance(n, ast.Name):
            names.add(n.id)
        elif not isinstance(n, (ast.Constant, ast.BinOp, ast.UnaryOp, ast.operator, ast.unaryop, ast.expr_context)):
            return False
    if var in names:
        return False
    for n in ast.walk(w):
        if isinstance(n, ast.Name) and not isinstance(n.ctx, ast.Load) and n.id in names:
            return False
        if isinstance(n, (ast.Global, ast.Nonlocal)) and set(n.names) & (names | {var}):
            return False
    return not any(isinstance(n, ast.Name) and not isinstance(n.ctx, ast.Load) and n.id == var for n in ast.walk(w.test))


def _classify(short_q, w, locals_):
    """(entry, variant variable or None, key) for a while loop, by trying each local of the test as `$v`"""
    names = []
    for n in ast.walk(w.test):
        if isinstance(n, ast.Name) and n.id in locals_ and n.id not in names:
            names.append(n.id)
    for v in names:
        k = _abstract(w.test, locals_, v)
        ent = LOOPS.get((short_q, k))
        if ent is not None and ent["kind"] in ("index", "descent"):
            return ent, v, k
    k = _abstract(w.test, locals_, None)
    ent = LOOPS.get((short_q, k))
    if ent is not None and ent["kind"] == "budget":
        # the budget: the one local decremented by a positive constant inside the loop
        dec = sorted({unparse(x.target) for x in walk_local(w) if isinstance(x, ast.AugAssign) and isinstance(x.op, ast.Sub) and isinstance(x.target, ast.Name) and isinstance(const_value(x.value), int) and const_value(x.value) > 0})
        if len(dec) == 1:
            return ent, dec[0], k
        return None, None, k
    if ent is not None and ent["kind"] == "consumer":
        return ent, None, k
    # The same index variant under a different test.  What makes an index loop terminate is the counter, its
    # direction and the bound; the catalogue entry of the function records exactly these (plus the argued progress
    # assignments of that counter).  Every further top-level conjunct of the test can only make the loop leave
    # EARLIER - arms of the body that ended in `break` folded into the condition, or the reverse - so a test is the
    # catalogued loop when one of its top-level conjuncts is the catalogued bound on a counter (`$v > 0` as a
    # conjunct, never inside an `or` or under a `not`) and that bound stands still.  All obligations of the entry
    # (progress on every cycle, no other write, bound in the direction of progress) are then checked on this loop as
    # on the catalogued one; a test without such a conjunct stays unclassified.
    cands = []
    for v in names:
        for (fn_, key), ent in LOOPS.items():
            if fn_ != short_q or ent["kind"] != "index":
                continue
            known = _catalogued_bounds(key, ent["dir"])
            for _c, bound, strict in _bounding_conjuncts(w.test, v, ent["dir"]):
                if (strict, _abstract(bound, locals_, v)) in known and _bound_is_fixed(w, v, bound):
                    written = any(isinstance(x, ast.Name) and isinstance(x.ctx, ast.Store) and x.id == v for s_ in w.body for x in ast.walk(s_))
                    cands.append((not written, len(cands), ent, v))
    if cands:
        _nw, _i, ent, v = min(cands, key=lambda t: t[:2])
        return ent, v, _abstract(w.test, locals_, v)
    return None, None, k


def check(ctx):
    ctx.not_decided += [
        "that the column window chosen by the recovery loop is the right one for every line and position (`mkdir x || ls --color=auto` is rejected today: value-level window arithmetic)",
        "termination of PLY's LR driver and of the tokenizer (trusted base)",
        "absence of implicit IndexError/TypeError on malformed input",
        "equality of behaviour between bare and explicit form at run time",
    ]
    ctx.rule("R1", "every while loop reachable from Execer.parse has a recognised variant (budget / monotone index / stream consumer), and no for loop there grows the collection it iterates", floor=9)
    ctx.rule("R2", "the self-recursion of _parse_ctx_free is bounded: entered only when logical_input is false, and it passes logical_input=True", floor=2)
    ctx.rule("R3", "the recovery loop raises only the parser's own SyntaxError/IndentationError (no internal exception type is raised explicitly)", floor=5)
    ctx.rule("R7", "the second-phase scope question is answered from the live binding stack alone: the query methods store nothing on the transformer and read no transformer state that changes during the walk except that stack", floor=2)
    ctx.rule("R8", "the assignment-target check, whose SyntaxError is what sends `cmd --opt=value` to the recovery loop, reaches every statement position of the tree: its visitor traverses every statement-holding field the interpreter's grammar has (body, orelse, finalbody, handlers, cases ...) and every container visitor it overrides goes on into the children", floor=2)
    ctx.rule("R9", "sibling phases agree on window arithmetic: wherever a column taken from one physical line is used as a position in the joined logical line (get_logical_line), the lengths of the preceding physical lines are added when the logical line spans several", floor=2)
    ctx.rule("R10", "a cheap pre-check never answers 'no break here' for a text in which the scan would find one: the pattern tried before the token scan of find_next_break matches, as a bare substring, every spelling of every token type the scan stops at (END_TOK_TYPES) - the text it sees starts at the parser's error column, so a keyword can sit at its very beginning", floor=6)
    ctx.rule("R11", "whether a quoted word is a complete string is decided by the shared string pattern alone: every verdict of tools.check_quotes is a constant (decided by which ends carry a quote) or the match / no-match of a module-level RE_* pattern on the whole word - no second opinion computed from the text itself (endswith / count / slicing cannot tell an escaping backslash from an escaped one)", floor=1)
    ctx.rule("R12", "what the second phase remembers during one walk does not outlive it: every attribute of the transformer that a method other than the constructor and ctxvisit *fills* during the walk (item store, add / append / update / setdefault) is re-bound by ctxvisit before the walk starts - emptying it after the walk is skipped when the walk leaves by an exception (RecursionError, Ctrl-C), and the next input is then wrapped with the previous input's answers (a memo of logical lines cuts the new command out of the old text)", floor=1)
    ctx.rule("R6", "line tables indexed by the parser's line numbers are split the way the parser counts lines (\\n only)", floor=2)
    ctx.rule("R5", "every verdict of the open-triple-quote scanner comes out of its quote- and comment-aware scan (or is 'nothing open' when no marker occurs at all); the line joiners ask only the scanner", floor=4)
    ctx.rule("R4", "the line returned by tools.subproc_toks is built only from slices of the source line and the literals '![' and ']'", floor=3)

    mods = [ctx.repo.module(x) for x in (EX, TL, AS, LX)]
    cg = CallGraph(mods, EXTRA)
    reach = cg.reachable([(EX, "Execer.parse")])
    if len(reach) < 25:
        raise AnalysisError(f"only {len(reach)} functions reachable from Execer.parse (36 confirmed by hand)")
    ctx.extra["functions_on_detection_path"] = sorted(f"{r}:{q}" for r, q in reach)
    n_while = 0
    for rel, q in sorted(reach):
        fn = cg.funcs[(rel, q)]
        whiles = [n for n in walk_local(fn) if isinstance(n, ast.While)]
        fors = [n for n in walk_local(fn) if isinstance(n, (ast.For, ast.AsyncFor))]
        if not whiles and not fors:
            continue
        cfg = CFG(fn)
        short_q = q if q.startswith(("Execer", "Lexer", "CtxAware")) else q.split(".")[-1]
        for w in whiles:
            n_while += 1
            st = f"{rel}:{q}"
            locals_ = {n_ for n_ in df.all_defs(fn) if "." not in n_}
            ent, var_, test = _classify(short_q, w, locals_)
            if ent is None:
                ctx.ob("R1", st, f"`while {short(w.test, 60)}` is a loop with a confirmed variant", False, key=f"{short_q}|unclassified-loop|{test}", where=loc(w), detail="a new loop on the detection path must be argued and added to the catalogue")
                continue
            wn = node_in(cfg, w)[0]
            starts = [m for m, l in wn.succ if l == "true"]
            inside = lambda m, w=w: m.ast is not None and (m.ast is w or lexically_inside(m.ast, w))
            only_inside = lambda a, b, l, inside=inside: not inside(b)
            if ent["kind"] in ("index", "budget", "descent"):
                var = var_
                direction = ent.get("dir", -1)

                def progress(m, var=var, direction=direction, ent=ent):
                    if m.kind != "stmt":
                        return False
                    a = m.ast
                    if isinstance(a, ast.AugAssign) and unparse(a.target) == var and isinstance(const_value(a.value), int) and const_value(a.value) > 0:
                        return (isinstance(a.op, ast.Add) and direction > 0) or (isinstance(a.op, ast.Sub) and direction < 0)
                    if isinstance(a, ast.Assign) and len(a.targets) == 1 and unparse(a.targets[0]) == var:
                        v = a.value
                        if isinstance(v, ast.BinOp) and unparse(v.left) == var and isinstance(const_value(v.right), int) and const_value(v.right) > 0:
                            return (isinstance(v.op, ast.Add) and direction > 0) or (isinstance(v.op, ast.Sub) and direction < 0)
                        if _abstract(a, locals_, var) in ent.get("also", {}):
                            return True
                        # one arm of `if c: v = A else: v = B`: the catalogue knows the statement as `v = A if c else B`
                        whole = as_conditional_assign(a)
                        return whole is not None and _abstract(whole, locals_, var) in ent.get("also", {})
                    return False

                # is the loop head reachable again, staying inside the loop, without passing a progress node?
                seen2 = cfg.reach([s for s in starts if not progress(s)], stop=lambda m: progress(m), skip_edge=only_inside, include_starts=True)
                cyc = wn in seen2
                ctx.ob("R1", st, f"`while {short(w.test, 50)}`: every cycle passes a statement that moves `{var}` strictly {'up' if direction > 0 else 'down'}", not cyc, key=f"{short_q}|cycle-without-progress|{test}", where=loc(w), path=cfg.fmt_path(cfg.path_to(seen2, wn)) if cyc else None)
                # no other writes to the variable inside the loop
                others = []
                for x in walk_local(w):
                    if isinstance(x, (ast.Assign, ast.AugAssign)) and x is not w:
                        tg = x.targets if isinstance(x, ast.Assign) else [x.target]
                        for t in tg:
                            for tt in (t.elts if isinstance(t, ast.Tuple) else [t]):
                                if unparse(tt) == var:
                                    nd = cfg.nodes_of(x)
                                    if not nd or not progress(nd[0]):
                                        others.append(short(x, 50))
                ctx.ob("R1", st, f"`while {short(w.test, 50)}`: `{var}` is written inside the loop only by progress statements", not others, key=f"{short_q}|variant-rewritten|{test}", where=loc(w), detail=str(others) if others else None)
                if ent["kind"] == "descent":
                    pass
                elif ent["kind"] == "index":
                    ctx.ob("R1", st, f"`while {short(w.test, 50)}`: the loop test bounds `{var}` in the direction of progress", _bounds_var(w.test, var, direction), key=f"{short_q}|unbounded-variant|{test}", where=loc(w))
                else:
                    # budget: a guard `if var <= 0: raise` is met on every cycle before the decrement can be skipped
                    guard = [m for m in cfg.nodes if m.kind == "if" and lexically_inside(m.ast, w) and isinstance(m.ast.test, ast.Compare) and unparse(m.ast.test.left) == var and isinstance(m.ast.test.ops[0], (ast.LtE, ast.Lt)) and any(isinstance(s, ast.Raise) for s in m.ast.body)]
                    ok = bool(guard)
                    if ok:
                        seen3 = cfg.reach(starts, stop=lambda m: m in guard, skip_edge=only_inside, include_starts=True)
                        ok = wn not in seen3 or all(s in guard for s in starts)
                    ctx.ob("R1", st, f"`while {short(w.test, 50)}`: every cycle meets the guard that raises when `{var}` is exhausted", ok, key=f"{short_q}|budget-guard|{test}", where=loc(w))
                    # budget initialised from the input size (finite)
                    defs = df.all_defs(fn)
                    init = [d for d in defs.get(var, []) if d.kind == "assign"]
                    ok = len(init) == 1 and not lexically_inside(init[0].stmt, w)
                    ctx.ob("R1", st, f"the budget `{var}` is initialised once, outside the loop", ok, key=f"{short_q}|budget-init|{test}", where=loc(w))
                    # ... and it must be large enough for what the loop is for: every retry wraps ONE segment, and one line
                    # can hold any number of them (`a; b; c; ...`, `a && b && ...`).  A budget computed from the number of
                    # lines alone rejects a one-line chain of a dozen bare commands that the explicit form accepts.
                    if init:
                        iv = init[0].value
                        inp_names = {a_.arg for a_ in fn.args.args}
                        for _ in range(3):  # plain copies / slices / strips of the input text
                            for n_, ds_ in defs.items():
                                if n_ not in inp_names and ds_ and all(d_.kind == "assign" and d_.value is not None and not any(isinstance(c_, ast.Call) and last_attr(c_) in ("splitlines", "split", "source_lines") for c_ in ast.walk(d_.value)) and {x_.id for x_ in ast.walk(d_.value) if isinstance(x_, ast.Name) and isinstance(x_.ctx, ast.Load)} & inp_names and {x_.id for x_ in ast.walk(d_.value) if isinstance(x_, ast.Name) and isinstance(x_.ctx, ast.Load)} <= inp_names | {"len"} for d_ in ds_):
                                    inp_names.add(n_)
                        char_terms = [c_ for c_ in ast.walk(iv) if isinstance(c_, ast.Call) and call_name(c_) == "len" and c_.args and isinstance(c_.args[0], ast.Name) and c_.args[0].id in inp_names]
                        line_terms = [c_ for c_ in ast.walk(iv) if isinstance(c_, ast.Call) and call_name(c_) == "len" and c_.args and not isinstance(c_.args[0], ast.Name)]
                        ctx.ob("R1", st, f"the budget `{short(iv, 50)}` grows with the length of the input (a bound on the number of segments to wrap), not with the number of lines alone", bool(char_terms), key=f"{short_q}|budget-by-lines-only", where=loc(init[0].stmt), detail=f"terms: {[short(c_) for c_ in line_terms + char_terms]}")
            else:  # consumer
                cons = ent["consume"]

                def consumes(m, cons=cons):
                    if m.ast is None or m.kind not in ("stmt",):
                        return False
                    return any((call_name(c) or "") in cons for c in calls_in(m.ast))

                seen2 = cfg.reach([s for s in starts if not consumes(s)], stop=consumes, skip_edge=only_inside, include_starts=True)
                cyc = wn in seen2
                ctx.ob("R1", st, f"`while {short(w.test, 50)}`: every cycle consumes one element of the finite stream ({', '.join(cons)})", not cyc, key=f"{short_q}|cycle-without-consume|{test}", where=loc(w), path=cfg.fmt_path(cfg.path_to(seen2, wn)) if cyc else None)
        for f in fors:
            it = unparse(f.iter)
            grows = []
            for x in walk_local(f):
                if isinstance(x, ast.Call) and isinstance(x.func, ast.Attribute) and x.func.attr in ("append", "extend", "insert") and unparse(x.func.value) == it:
                    grows.append(short(x, 50))
            if isinstance(f.iter, ast.Name):
                ctx.ob("R1", f"{rel}:{q}", f"`for {short(f.target, 20)} in {it}` does not grow the collection it iterates", not grows, key=f"{short_q}|for-grows-iterable|{it}", where=loc(f), detail=str(grows) if grows else None)
    if n_while < 8:
        raise AnalysisError(f"only {n_while} while loops seen on the detection path (11 confirmed by hand)")

    # ------------------------------------------------------------------ R2
    ex = ctx.repo.module(EX)
    pcf = ex.func("Execer._parse_ctx_free")
    tp = ex.func("Execer._parse_ctx_free._try_parse")
    tcfg = CFG(tp)
    rec = [c for c in calls_in(tp) if call_name(c) == "self._parse_ctx_free"]
    if not rec:
        raise AnchorMissing(f"{EX}: recursive call of _parse_ctx_free not found")
    for c in rec:
        facts = facts_text(facts_at(tcfg, node_in(tcfg, stmt_of(c))[0]))
        ctx.ob("R2", f"{EX}:Execer._parse_ctx_free", "the recursive call is reached only when logical_input is false", "not logical_input" in facts, key="recursion|unguarded", where=loc(c), detail="; ".join(facts))
        ctx.ob("R2", f"{EX}:Execer._parse_ctx_free", "the recursive call passes logical_input=True (depth <= 2)", const_value(kwarg(c, "logical_input")) is True, key="recursion|flag-not-set", where=loc(c))
    pdefs = df.all_defs(pcf)
    ok = all(d.kind == "param" for d in pdefs.get("logical_input", []))
    ctx.ob("R2", f"{EX}:Execer._parse_ctx_free", "logical_input is never re-assigned", ok and not any(isinstance(n, ast.Name) and n.id == "logical_input" and isinstance(n.ctx, ast.Store) for n in ast.walk(tp)), key="recursion|flag-rewritten")
    # the outer fallback (greedy retry) is a straight-line second attempt, not a loop
    outer_whiles = [n for n in walk_local(pcf) if isinstance(n, ast.While)]
    ctx.ob("R2", f"{EX}:Execer._parse_ctx_free", "the greedy retry is a single second attempt (no loop around _try_parse)", not outer_whiles and sum(1 for c in calls_in(pcf) if call_name(c) == "_try_parse") == 2, key="outer-retry-shape")

    # ------------------------------------------------------------------ R3
    tdefs = df.all_defs(tp)
    handlers = {}
    for n in ast.walk(tp):
        if isinstance(n, ast.ExceptHandler) and n.name:
            handlers[n.name] = unparse(n.type) if n.type is not None else None
    n_raise = 0
    for n in walk_local(tp):
        if isinstance(n, ast.Raise) and n.exc is not None:
            n_raise += 1
            nm = unparse(n.exc)
            ok = False
            if nm in handlers:
                # must be the handler variable of an enclosing SyntaxError/IndentationError handler
                enc = [a for a in ancestors(n) if isinstance(a, ast.ExceptHandler) and a.name == nm]
                ok = bool(enc) and unparse(enc[0].type) in ("SyntaxError", "IndentationError")
            elif isinstance(n.exc, ast.Name) and tdefs.get(nm) and all(d.kind == "assign" for d in tdefs[nm]):
                # a local that remembers the parser's first error (None until then)
                vals = [d.value for d in tdefs.get(nm, []) if d.kind == "assign"]
                ok = bool(vals) and all((isinstance(v, ast.Constant) and v.value is None) or (isinstance(v, ast.Name) and v.id in handlers and any(isinstance(a, ast.ExceptHandler) and a.name == v.id and unparse(a.type) in ("SyntaxError", "IndentationError") for a in ancestors(v))) for v in vals)
            ctx.ob("R3", f"{EX}:Execer._parse_ctx_free._try_parse", f"`{short(n)}` re-raises an error the parser itself reported", ok, key="raise|" + ("handler-variable" if nm in handlers else "remembered-error" if isinstance(n.exc, ast.Name) else nm), where=loc(n))
    if n_raise < 5:
        raise AnalysisError(f"{EX}:_try_parse: only {n_raise} raise statements found")

    # ------------------------------------------------------------------ R4
    tl = ctx.repo.module(TL)
    st_ = tl.func("subproc_toks")
    sdefs = df.all_defs(st_)
    line_p = st_.args.args[0].arg
    n_ret = 0
    for n in walk_local(st_):
        if not isinstance(n, ast.Return) or n.value is None:
            continue
        v = n.value
        if isinstance(v, ast.Call) and call_name(v) == "lexer.subproc_toks":
            facts = []
            scfg = CFG(st_)
            facts = facts_text(facts_at(scfg, node_in(scfg, n)[0]))
            ok = any("hasattr(lexer, 'subproc_toks')" in f and not f.startswith("not ") for f in facts)
            ctx.ob("R4", f"{TL}:subproc_toks", "delegation to an external lexer's own subproc_toks is allow-listed (optional rd_parser lexer)", ok, key="delegation", where=loc(n))
            continue
        n_ret += 1
        # expand the returned name through all its assignments
        pieces = []
        visited = set()

        def expand(e, depth=0):
            if depth > 8:
                pieces.append(("?", unparse(e)))
                return
            if isinstance(e, ast.BinOp) and isinstance(e.op, ast.Add):
                expand(e.left, depth + 1)
                expand(e.right, depth + 1)
            elif isinstance(e, ast.Constant) and isinstance(e.value, str):
                pieces.append(("lit", e.value))
            elif isinstance(e, ast.Subscript) and unparse(e.value) == line_p and isinstance(e.slice, ast.Slice):
                pieces.append(("slice", unparse(e)))
            elif isinstance(e, ast.Name) and e.id in sdefs and not all(d.kind == "param" for d in sdefs[e.id]):
                for d in sdefs[e.id]:
                    if id(d) in visited:
                        continue  # self-referential growth (rtn = prefix + rtn + suffix): already expanded
                    visited.add(id(d))
                    if d.kind == "assign":
                        expand(d.value, depth + 1)
                    else:
                        pieces.append(("?", f"{d.kind}:{e.id}"))
            else:
                pieces.append(("?", unparse(e)))

        expand(v)
        lits = {t for k, t in pieces if k == "lit"}
        unknown = [t for k, t in pieces if k == "?"]
        ok = not unknown and lits <= {"![", "]"} and {"![", "]"} <= lits and any(k == "slice" for k, _ in pieces)
        ctx.ob("R4", f"{TL}:subproc_toks", f"`{short(n)}` is built from slices of `{line_p}` and exactly the literals '![' and ']'", ok, key="wrapper-provenance", where=loc(n), detail=f"literals={sorted(lits)} other={unknown}")
    if n_ret < 1:
        raise AnalysisError(f"{TL}:subproc_toks: no value-returning return found")
    # the transformer and the recovery loop both use this one wrapper
    for rel, q in ((EX, "Execer._parse_ctx_free._try_parse"), (AS, "CtxAwareTransformer.try_subproc_toks")):
        fn = ctx.repo.module(rel).func(q)
        ok = any(call_name(c) == "subproc_toks" for c in calls_in(fn))
        ctx.ob("R4", f"{rel}:{q}", "command text is wrapped through tools.subproc_toks (one wrapper for phase 1 and phase 2)", ok, key=f"{q}|wrapper-not-used")


    # R4 (cont.): what is put back into the source is the wrapper's result itself.  Between wrapping and
    # re-insertion the text is only *inspected*: an edit (strip, slice, replace ...) changes which branch of
    # replace_logical_line handles it - its blind re-split at blanks is not string-aware and is kept
    # dormant by the trailing newline of the recursive result.
    tpdefs = df.all_defs(tp)
    rl_calls = [c for c in calls_in(tp) if call_name(c) == "replace_logical_line"]
    if len(rl_calls) < 2:
        raise AnalysisError(f"{EX}:_try_parse: expected two replace_logical_line call sites, found {len(rl_calls)}")
    for c in rl_calls:
        arg = c.args[1] if len(c.args) > 1 else None
        ok, why = False, "the re-inserted text is not a plain local"
        if isinstance(arg, ast.Name):
            ds = tpdefs.get(arg.id, [])
            srcs = []
            for d in ds:
                v = d.value
                if isinstance(v, ast.Call) and (call_name(v) in ("subproc_toks", "self._parse_ctx_free")):
                    srcs.append(call_name(v))
                else:
                    srcs.append(f"EDIT `{short(d.stmt, 50)}`")
            ok = bool(srcs) and not any(s_.startswith("EDIT") for s_ in srcs)
            why = None if ok else "; ".join(s_ for s_ in srcs if s_.startswith("EDIT"))
        ctx.ob("R4", f"{EX}:Execer._parse_ctx_free._try_parse", f"`{short(c, 60)}` re-inserts exactly what subproc_toks / the recursive wrap returned (inspected, never edited, in between)", ok, key="reinsert|edited-wrapper-result", where=loc(c), detail=why)

    # ------------------------------------------------------------------ R5
    # logical-line joining asks one lexical question — "is a triple-quoted string open at the end
    # of this text?" — and only a left-to-right scan that knows comments, ordinary strings and the
    # other triple kind can answer it: a marker inside any of those is dead text.  Every verdict of
    # the scanner must therefore come out of the scan; the only sound answer without scanning is
    # "nothing is open" when no marker of either kind occurs at all.
    from ..engine.cfg import facts_at as _facts_at

    sc = tl.func("_have_open_triple_quotes")
    param = sc.args.args[0].arg
    scfg = CFG(sc)
    top_loops = [st for st in sc.body if isinstance(st, ast.While)]
    if len(top_loops) != 1:
        raise AnalysisError(f"{TL}:_have_open_triple_quotes: expected one scanning loop at the top level, found {len(top_loops)}")
    head = scfg.nodes_of(top_loops[0])
    n_ret5 = 0
    for r in (x for x in walk_local(sc) if isinstance(x, ast.Return)):
        n_ret5 += 1
        if lexically_inside(r, top_loops[0]):
            ok, why = True, "inside the scan"
        else:
            rn = scfg.nodes_of(r)
            if rn and all(scfg.dominated(x, lambda m: m in head) for x in rn):
                ok, why = True, "after the scan"
            else:
                from ..engine.dtable import normalise as _norm

                facts = [(unparse(e2), p2) for x in rn for e, pol in _facts_at(scfg, x) for e2, p2 in [_norm(e, pol)]]
                absent = {t for t, pol in facts if not pol}
                dq = any(t in absent for t in (f"'\"' in {param}", f"'\"\"\"' in {param}"))
                sq = any(t in absent for t in (f'"\'" in {param}', f'"\'\'\'" in {param}'))
                falsy = r.value is None or (isinstance(r.value, ast.Constant) and not r.value.value)
                ok, why = (dq and sq and falsy), "before the scan"
        ctx.ob(
            "R5",
            f"{TL}:_have_open_triple_quotes",
            f"`{short(r)}` ({why}) is a verdict of the quote- and comment-aware scan, or 'nothing open' when no quote marker of either kind occurs (counting or searching markers without context is wrong: a marker in a comment or inside another string is dead)",
            ok,
            key=f"open-triple|verdict-without-scan|{why}",
            where=loc(r),
        )
    if n_ret5 < 2:
        raise AnalysisError(f"{TL}:_have_open_triple_quotes: only {n_ret5} returns")
    # context-free marker arithmetic on the scanned text decides nothing
    for c in calls_in(sc):
        if isinstance(c.func, ast.Attribute) and c.func.attr in ("count", "rfind", "rindex", "index") and unparse(c.func.value) == param:
            ctx.ob("R5", f"{TL}:_have_open_triple_quotes", f"`{short(c)}`: no context-free counting/searching of markers in the scanned text", False, key=f"open-triple|context-free|{c.func.attr}", where=loc(c))
    # the consumers ask the scanner (no private marker counting in the joiners)
    for q, fn in tl.functions():
        if q in ("_have_open_triple_quotes",):
            continue
        if any(call_name(c) == "_have_open_triple_quotes" for c in calls_in(fn)):
            bad = [c for c in calls_in(fn) if isinstance(c.func, ast.Attribute) and c.func.attr == "count" and c.args and isinstance(const_value(c.args[0]), str) and const_value(c.args[0]) in ('"""', "'''")]
            ctx.ob("R5", f"{TL}:{q}", "the joiner decides 'inside a triple-quoted string' through the scanner only (no private marker counting)", not bad, key=f"{q}|private-marker-count", where=loc(bad[0]) if bad else loc(fn))


    # ------------------------------------------------------------------ R6
    # the recovery loop and the context-aware pass find "the line of this node / of this error" by indexing a table
    # of source lines with the parser's line number.  The parser counts lines at "\n" only; str.splitlines() also
    # breaks at form feed (^L, a legal page separator in Python source), \v, \x1c-\x1e, \x85, U+2028/9.  With such a
    # character on an earlier line the table is shifted and a later bare command is looked up on the wrong line: it is
    # never wrapped and runs as Python.
    n_tab = 0
    for rel in (EX, AS):
        m_ = ctx.repo.module(rel)
        for q_, fn_ in m_.functions():
            for c in calls_in(fn_):
                if call_name(c) != "get_logical_line" or not c.args:
                    continue
                tab = c.args[0]
                ttxt = unparse(tab)
                # definitions of the table: local assignments, or assignments to the attribute anywhere in the module
                values = []
                if isinstance(tab, ast.Name):
                    values = [d.value for d in df.all_defs(fn_).get(tab.id, []) if d.value is not None and d.kind == "assign"]
                else:
                    for n_ in ast.walk(m_.tree):
                        if isinstance(n_, ast.Assign) and any(unparse(t) == ttxt for t in n_.targets) and not (isinstance(n_.value, ast.Constant) and n_.value.value is None):
                            values.append(n_.value)
                if not values:
                    raise AnalysisError(f"{rel}:{q_}: cannot find how the line table `{ttxt}` is built")
                for v in values:
                    n_tab += 1
                    uses_splitlines = any(isinstance(x, ast.Call) and last_attr(x) == "splitlines" for x in ast.walk(v))
                    ctx.ob("R6", f"{rel}:{q_}", f"the line table `{ttxt}` = `{short(v, 50)}` (indexed by the parser's line numbers, which count \\n only) is not built with str.splitlines()", not uses_splitlines, key=f"{q_}|line-table-splitlines", where=loc(v))
    if n_tab < 2:
        raise AnalysisError(f"only {n_tab} line tables found on the detection path (2 confirmed by hand)")

    _scope_queries(ctx)
    _context_check_reach(ctx)
    _window_offsets(ctx)
    _prefilter_complete(ctx)
    _quote_verdict_by_pattern(ctx)
    _per_walk_state_reset(ctx)


def _window_offsets(ctx):
    """Phase 1 (execer) converts the parser's error column into an offset in the joined logical line (`mincol_abs`); phase 2
    (the context-aware transformer) must do the same with a node's column.  Cross-check: every user of get_logical_line that
    cuts the joined line at a column-derived `mincol`."""
    n = 0
    for rel, qual in ((EX, "Execer._parse_ctx_free._try_parse"), (AS, "CtxAwareTransformer.try_subproc_toks")):
        m = ctx.repo.module(rel)
        fn0 = m.func(qual)
        fn = flat(ctx, fn0, 2, skip=("subproc_toks", "find_next_break", "get_logical_line", "replace_logical_line", "balanced_parens", "ends_with_colon_token", "_print_debug_wrapping", "_parse_ctx_free", "source_lines", "min_col", "max_col", "get_line_continuation", "_ends_with_line_continuation"))
        defs = df.all_defs(fn)
        if not any((call_name(c) or "").split(".")[-1] == "get_logical_line" for c in calls_in(fn)):
            raise AnchorMissing(f"{rel}:{qual}: get_logical_line")
        cuts = [c for c in calls_in(fn) if (call_name(c) or "").split(".")[-1] in ("subproc_toks", "find_next_break") and kwarg(c, "mincol") is not None and not getattr(stmt_of(c), "_xv_call_marker", False)]
        if not cuts:
            raise AnchorMissing(f"{rel}:{qual}: a cut of the joined line at `mincol=`")

        def contributes(e, seen):
            """names and expressions the value of e is computed from"""
            out = [e]
            for x in ast.walk(e):
                if isinstance(x, ast.Name) and x.id not in seen:
                    seen.add(x.id)
                    for d in defs.get(x.id, []):
                        if d.value is not None:
                            out += contributes(d.value, seen)
                        if d.kind == "for" and getattr(d.stmt, "iter", None) is not None:
                            out += contributes(d.stmt.iter, seen)
            return out

        seen_keys = set()
        for c in cuts:
            mc = kwarg(c, "mincol")
            parts = contributes(mc, set())
            # the offset of a later physical line: a sum over lengths of a slice of the line table
            shifted = any(isinstance(x, ast.Call) and call_name(x) == "sum" and "len(" in unparse(x) for p_ in parts for x in ast.walk(p_))
            # ... or accumulated in a loop over a slice of the line table (`off += len(ln) - 1`)
            for nm_ in {x.id for p_ in parts for x in ast.walk(p_) if isinstance(x, ast.Name)}:
                for d in defs.get(nm_, []):
                    if d.kind == "aug" and d.value is not None and "len(" in unparse(d.value) and any(isinstance(a_, ast.For) and isinstance(a_.iter, ast.Subscript) and isinstance(a_.iter.slice, ast.Slice) for a_ in ancestors(d.stmt)):
                        shifted = True
            from_col = any(isinstance(x, ast.Call) and (call_name(x) or "").split(".")[-1] in ("min_col", "max_col") for p_ in parts for x in ast.walk(p_)) or any(isinstance(x, ast.Attribute) and x.attr in ("column", "col_offset") for p_ in parts for x in ast.walk(p_))
            if not from_col:
                continue
            k = f"{qual.split('.')[-1]}|window-from-physical-column|{call_name(c).split('.')[-1]}"
            if k in seen_keys:
                continue
            seen_keys.add(k)
            n += 1
            ctx.ob("R9", f"{rel}:{qual}", f"`{short(c, 60)}`: the column-derived `mincol` is shifted by the lengths of the preceding physical lines of a multi-line logical line", shifted, key=k, where=loc(c), detail=None if shifted else f"`mincol` = `{short(mc, 40)}` comes from a column in the node's own physical line; the text it cuts is the joined logical line")
    if n < 2:
        raise AnalysisError(f"only {n} column-derived cuts of joined logical lines found")


def _context_check_reach(ctx):
    from ..engine import asdl as _asdl
    from ..engine.fold import Folder, NotConstant

    rel = "xonsh/parsers/context_check.py"
    cm = ctx.repo.module(rel)
    cls = cm.cls("ContextCheckingVisitor")
    ms = class_methods(cls)
    # statement-holding fields of the running interpreter's grammar: fields whose elements are statements, handlers or cases
    need = set()
    holders = {}
    for kind in dir(ast):
        k = getattr(ast, kind)
        if not (isinstance(k, type) and issubclass(k, ast.AST)) or not getattr(k, "_fields", None):
            continue
        doc = k.__doc__ or ""
        for fld in k._fields:
            if any(f"{t}* {fld}" in doc for t in ("stmt", "excepthandler", "match_case")):
                need.add(fld)
                holders.setdefault(kind, set()).add(fld)
    if not {"body", "orelse", "finalbody", "handlers"} <= need:
        raise AnalysisError(f"statement-holding fields not derived from the interpreter's grammar ({sorted(need)})")
    st = f"{rel}:ContextCheckingVisitor"
    gv = ms.get("generic_visit")
    if gv is None:
        ctx.ob("R8", st, f"inherits ast.NodeVisitor.generic_visit: every child of every node is visited ({len(need)} statement-holding fields: {sorted(need)})", True, key="context-check|traversal")
    else:
        generic = any((call_name(c) or "") in ("ast.iter_child_nodes", "iter_child_nodes", "ast.iter_fields", "iter_fields", "super().generic_visit", "ast.walk") for c in calls_in(gv))
        names = set()
        folder = Folder(cm)
        for n in ast.walk(gv):
            if isinstance(n, (ast.For, ast.comprehension)):
                it = n.iter
                try:
                    v = folder.fold(it, {}) if not (isinstance(it, ast.Attribute) and unparse(it.value) in ("self", "cls", cls.name)) else folder.fold(next(a.value for a in cls.body if isinstance(a, ast.Assign) and any(isinstance(t, ast.Name) and t.id == it.attr for t in a.targets)), {})
                    if isinstance(v, (tuple, list, set, frozenset)) and all(isinstance(x, str) for x in v):
                        names |= set(v)
                except (NotConstant, StopIteration, AnalysisError):
                    pass
        missing = sorted(need - names)
        ok = generic or not missing
        ctx.ob("R8", st + ".generic_visit", "the overriding traversal follows every statement-holding field of the grammar", ok, key="context-check|traversal", where=loc(gv), detail=None if ok else f"not followed: {missing} (e.g. {sorted(k for k, v in holders.items() if set(v) & set(missing))[:4]}): a bare command in such a block is not sent to the recovery loop")
    # container statements with a visitor of their own must go on into their children
    n_over = 0
    for nm, f in ms.items():
        if not nm.startswith("visit_") or nm[6:] not in holders:
            continue
        n_over += 1
        cfg = CFG(f)
        cont = [n for n in cfg.nodes if n.kind == "stmt" and any((call_name(c) or "") in ("self.generic_visit", "self.visit", "super().generic_visit") for c in calls_in(n.ast))]
        ok = bool(cont) and cfg.must_pass(cfg.entry, lambda m: m in cont, exits=("exit",))[0]
        ctx.ob("R8", f"{st}.{nm}", f"goes on into the children ({sorted(holders[nm[6:]])}) on every path", ok, key=f"context-check|{nm}|stops-traversal", where=loc(f))
    ctx.ob("R8", st, f"{n_over} container visitors overridden; the check is applied to every parse result", True, key="context-check|overrides")


_MUTATORS = {"add", "update", "discard", "remove", "append", "pop", "clear", "extend", "insert", "setdefault", "popitem", "difference_update", "intersection_update", "symmetric_difference_update", "appendleft", "popleft", "sort", "reverse", "__setitem__", "__delitem__"}


def _scope_queries(ctx):
    """Whether `pwd` on a line of its own is a command or a variable is decided by CtxAwareTransformer from a stack of
    binding sets that is pushed and popped with function/class bodies.  An answer that survives the pop (a memo, a
    counter, a cached verdict) makes later lines depend on earlier, closed scopes."""
    am = ctx.repo.module(AS)
    cls = am.cls("CtxAwareTransformer")
    meths = class_methods(cls)
    # the stack: the attribute that def/class visitors push and pop
    pushes = {}
    for name, fn in meths.items():
        for c in calls_in(fn):
            if isinstance(c.func, ast.Attribute) and c.func.attr in ("append", "pop") and isinstance(c.func.value, ast.Attribute) and unparse(c.func.value.value) == "self":
                pushes.setdefault(c.func.value.attr, set()).add((name, c.func.attr))
    stacks = [a for a, ev in pushes.items() if {k for _, k in ev} == {"append", "pop"}]
    if len(stacks) > 1 and "is_in_scope" in meths:
        # the one the scope query consults
        stacks = [a for a in stacks if any(isinstance(n, ast.Attribute) and n.attr == a and unparse(n.value) == "self" for n in walk_local(meths["is_in_scope"]))]
    if len(stacks) != 1:
        raise AnchorMissing(f"{AS}:CtxAwareTransformer: the binding stack pushed and popped around def/class bodies ({sorted(pushes)})")
    stack = stacks[0]

    def self_attr_events(fn):
        reads, writes = [], []
        for n in walk_local(fn):
            if isinstance(n, ast.Attribute) and unparse(n.value) == "self":
                par = getattr(n, "_xv_parent", None)
                if isinstance(n.ctx, (ast.Store, ast.Del)):
                    writes.append((n.attr, n))
                elif isinstance(par, ast.Call) and par.func is n:
                    continue  # a method call
                elif isinstance(par, ast.Attribute) and par.value is n and isinstance(getattr(par, "_xv_parent", None), ast.Call) and par._xv_parent.func is par and par.attr in _MUTATORS:
                    writes.append((n.attr, n))
                    reads.append((n.attr, n))
                elif isinstance(par, ast.Subscript) and par.value is n and isinstance(par.ctx, (ast.Store, ast.Del)):
                    writes.append((n.attr, n))
                else:
                    reads.append((n.attr, n))
            elif isinstance(n, ast.AugAssign) and isinstance(n.target, ast.Attribute) and unparse(n.target.value) == "self":
                writes.append((n.target.attr, n))
        return reads, writes

    events = {name: self_attr_events(fn) for name, fn in meths.items()}
    # per-walk constants: written only by the constructor and the walk's entry point (the method that creates the stack)
    entry = {name for name, (rd, wr) in events.items() if any(a == stack and isinstance(getattr(n, "_xv_parent", None), (ast.Assign, ast.Delete)) for a, n in wr)}
    setup = entry | {"__init__"}
    varying = {a for name, (rd, wr) in events.items() if name not in setup for a, _ in wr}
    # the query methods: read the stack, never push/pop/modify it, and return a verdict
    queries = [name for name, (rd, wr) in events.items() if name not in setup and any(a == stack for a, _ in rd) and not any(a == stack for a, _ in wr) and any(isinstance(n, ast.Return) and n.value is not None for n in walk_local(meths[name]))]
    if "is_in_scope" not in queries:
        raise AnchorMissing(f"{AS}:CtxAwareTransformer.is_in_scope is no longer a read-only query of `{stack}` (queries found: {queries})")
    for name in sorted(queries):
        rd, wr = events[name]
        st = f"{AS}:CtxAwareTransformer.{name}"
        ctx.ob("R7", st, "the query stores nothing on the transformer", not wr, key=f"{name}|scope-query-stores-state", where=loc(wr[0][1]) if wr else loc(meths[name]), detail=f"writes self.{wr[0][0]}" if wr else None)
        foreign = sorted({a for a, _ in rd if a != stack and a in varying})
        ctx.ob("R7", st, f"apart from the binding stack `self.{stack}` the query reads only per-walk constants", not foreign, key=f"{name}|scope-query-reads-varying-state", where=loc(meths[name]), detail=f"reads self.{foreign[0]}, which other methods change during the walk" if foreign else None)



def _per_walk_state_reset(ctx):
    """R12: state filled during a walk is re-bound before the next walk starts."""
    from ..engine.loader import class_methods

    AS_ = "xonsh/parsers/ast.py"
    am = ctx.repo.module(AS_)
    ms = class_methods(am.cls("CtxAwareTransformer"))
    cv = ms.get("ctxvisit")
    if cv is None:
        raise AnalysisError(f"{AS_}:CtxAwareTransformer.ctxvisit missing")
    # (helper-transparent view: the set-up may live in a helper that only ctxvisit calls)
    only_cv = {nm_ for nm_ in ms if nm_ not in ("__init__", "ctxvisit") and any(call_name(c_) == f"self.{nm_}" for c_ in calls_in(cv)) and not any(call_name(c_) == f"self.{nm_}" for on_, of_ in ms.items() if on_ != "ctxvisit" for c_ in calls_in(of_))}
    cv = flat(ctx, cv, 2, skip=tuple(sorted(set(ms) - only_cv)))
    cfg = CFG(cv)
    walk = [n for n in cfg.nodes if n.kind == "stmt" and any(call_name(c) == "self.visit" for c in calls_in(n.ast)) and not getattr(n.ast, "_xv_call_marker", False)]
    if not walk:
        raise AnalysisError(f"{AS_}:CtxAwareTransformer.ctxvisit: the walk (self.visit) was not found")
    rebound = {}
    for n in cfg.nodes:
        if n.kind == "stmt" and isinstance(n.ast, (ast.Assign, ast.AnnAssign)):
            for t in (n.ast.targets if isinstance(n.ast, ast.Assign) else [n.ast.target]):
                if isinstance(t, ast.Attribute) and unparse(t.value) == "self":
                    rebound.setdefault(t.attr, []).append(n)
    FILL = {"add", "append", "update", "setdefault", "extend", "insert", "appendleft"}
    filled = {}
    for nm, f in ms.items():
        if nm in ("__init__", "ctxvisit") or nm in only_cv:
            continue
        for x in walk_local(f):
            if isinstance(x, ast.Assign):
                for t in x.targets:
                    if isinstance(t, ast.Subscript) and isinstance(t.value, ast.Attribute) and unparse(t.value.value) == "self":
                        filled.setdefault(t.value.attr, (nm, x))
            elif isinstance(x, ast.Call) and isinstance(x.func, ast.Attribute) and x.func.attr in FILL and isinstance(x.func.value, ast.Attribute) and unparse(x.func.value.value) == "self":
                filled.setdefault(x.func.value.attr, (nm, x))
    if not filled:
        raise AnalysisError(f"{AS_}:CtxAwareTransformer: no state filled during the walk found (the scope stack is expected)")
    for attr, (nm, site) in sorted(filled.items()):
        if attr in ms:
            continue  # a read-only property (a view of the scope stack): its state is the attribute it reads, judged there
        before = [n for n in rebound.get(attr, []) if all(cfg.dominated(w, lambda m, n=n: m is n) for w in walk)]
        ok = bool(before)
        ctx.ob("R12", f"{AS_}:CtxAwareTransformer.ctxvisit", f"`self.{attr}` (filled by {nm} during the walk) is re-bound before the walk starts", ok, key=f"ctxvisit|per-walk-state-not-reset|{attr}", where=loc(site), detail=None if ok else f"`{short(site, 50)}` in {nm} fills it; ctxvisit does not bind it afresh ahead of self.visit(..): what a walk that ended in an exception left in it answers for the next input")


def _prefilter_complete(ctx):
    import keyword
    import re._parser as sre
    from ..engine.fold import Folder, NotConstant
    from .c18 import spelling_table

    tl = ctx.repo.module(TL)
    fnb = tl.func("find_next_break")
    st = f"{TL}:find_next_break"
    # the pre-check: `if <RX>.search(<text>) is None: return None` before the scan
    pre = None
    for n in walk_local(fnb):
        if isinstance(n, ast.If) and any(isinstance(b_, ast.Return) for b_ in n.body):
            for c in ast.walk(n.test):
                if isinstance(c, ast.Call) and isinstance(c.func, ast.Attribute) and c.func.attr in ("search", "match", "fullmatch", "findall") and isinstance(c.func.value, ast.Name) and c.func.value.id in tl.assigns:
                    pre = c
    if pre is None:
        ctx.ob("R10", st, "no regular-expression pre-check in front of the token scan (nothing to get wrong)", True, key="find_next_break|no-prefilter")
        return
    f = Folder(tl)
    try:
        stops = set(f.name("END_TOK_TYPES"))
        comp = next((x for x in ast.walk(tl.assigns[pre.func.value.id][-1].value) if isinstance(x, ast.Call) and call_name(x) == "re.compile"), None)
        pattern = f.fold(comp.args[0], {}) if comp is not None and comp.args else None
    except NotConstant as e:
        raise AnalysisError(str(e))
    if not isinstance(pattern, str) or not stops:
        raise AnalysisError(f"{st}: cannot read the pre-check pattern / END_TOK_TYPES")
    ctx.ob("R10", st, f"`{short(pre, 50)}` looks anywhere in the text (search)", pre.func.attr in ("search", "findall"), key="find_next_break|prefilter-anchored", where=loc(pre))
    # literal alternatives of the pattern: alternatives made of literal characters only match as bare substrings
    lits = set()

    def alts(items):
        items = list(items)
        if len(items) == 1 and str(items[0][0]) == "SUBPATTERN":
            return alts(items[0][1][3])
        if len(items) == 1 and str(items[0][0]) == "BRANCH":
            out = []
            for b_ in items[0][1][1]:
                out += alts(b_)
            return out
        return [items]

    for alt in alts(sre.parse(pattern)):
        if alt and all(str(op) == "LITERAL" for op, _ in alt):
            lits.add("".join(chr(av) for _, av in alt))
        elif len(alt) == 1 and str(alt[0][0]) == "IN" and all(str(op) == "LITERAL" for op, _ in alt[0][1]):
            lits |= {chr(av) for _, av in alt[0][1]}
    inv = {}
    for sp, types in spelling_table(ctx.repo).items():
        for ty in types:
            inv.setdefault(ty, set()).add(sp)
    for ty in sorted(stops):
        sps = set(inv.get(ty, set()))
        if ty.lower() in keyword.kwlist:
            sps.add(ty.lower())
        if not sps:
            raise AnalysisError(f"{st}: no spelling known for the stop token {ty}")
        for sp in sorted(sps):
            ok = any(l_ and l_ in sp for l_ in lits)
            ctx.ob("R10", st, f"the pre-check pattern matches the spelling {sp!r} of {ty} wherever it stands (a literal alternative, no context demanded)", ok, key=f"find_next_break|prefilter-misses|{sp}", where=loc(pre), detail=f"literal alternatives: {sorted(lits)}" if not ok else None)


def _quote_verdict_by_pattern(ctx):
    tl = ctx.repo.module(TL)
    fn = flat(ctx, tl.func("check_quotes"), 1)
    st = f"{TL}:check_quotes"
    sp = param_name(fn, 0, skip_self=False)
    defs = df.all_defs(fn)
    rets = [r for r in walk_local(fn) if isinstance(r, ast.Return) and r.value is not None]
    if not rets:
        raise AnalysisError(f"{st}: no return")

    def by_pattern(e, depth=0):
        """constant, or <m> is (not) None with m = RE_X.match/fullmatch(<the word>), or such a call tested directly"""
        if depth > 4:
            return False
        if isinstance(e, ast.Constant):
            return isinstance(e.value, bool)
        if isinstance(e, ast.UnaryOp) and isinstance(e.op, ast.Not):
            return by_pattern(e.operand, depth + 1)
        if isinstance(e, ast.BoolOp):
            return all(by_pattern(v, depth + 1) or is_match(v) for v in e.values)
        if isinstance(e, ast.Call) and isinstance(e.func, ast.Attribute) and e.func.attr in ("endswith", "startswith") and unparse(e.func.value) == sp and len(e.args) == 1:
            # which end of the whole word carries a quote character (the case split in front of the pattern)
            a0 = e.args[0]
            vals = [a0.value] if isinstance(a0, ast.Constant) else [x.value for x in a0.elts if isinstance(x, ast.Constant)] if isinstance(a0, ast.Tuple) else []
            return bool(vals) and all(isinstance(v, str) and v and set(v) <= set("'\"") for v in vals)
        if isinstance(e, ast.Compare) and len(e.ops) == 1 and isinstance(e.ops[0], (ast.Is, ast.IsNot)) and const_value(e.comparators[0], 0) is None:
            return by_pattern(e.left, depth + 1) or is_match(e.left)
        if isinstance(e, ast.Name):
            ds = defs.get(e.id, [])
            return bool(ds) and all(d.value is not None and (by_pattern(d.value, depth + 1) or is_match(d.value)) for d in ds)
        if isinstance(e, ast.Call) and call_name(e) == "bool" and len(e.args) == 1:
            return by_pattern(e.args[0], depth + 1) or is_match(e.args[0])
        return False

    def is_match(e):
        if isinstance(e, ast.Name):
            ds = defs.get(e.id, [])
            return bool(ds) and all(d.value is not None and is_match(d.value) for d in ds)
        return isinstance(e, ast.Call) and isinstance(e.func, ast.Attribute) and e.func.attr in ("match", "fullmatch") and isinstance(e.func.value, ast.Name) and e.func.value.id.startswith("RE_") and (e.func.value.id in tl.assigns or tl.has(e.func.value.id)) and e.args and unparse(e.args[0]) == sp

    names = {r.value.id for r in rets if isinstance(r.value, ast.Name)}
    n = 0
    for r in rets:
        if not isinstance(r.value, ast.Name):
            n += 1
            ctx.ob("R11", st, f"`{short(r, 50)}` is a constant or the pattern's verdict", by_pattern(r.value), key="check_quotes|verdict-from-text", where=loc(r))
    for nm in sorted(names):
        for d in defs.get(nm, []):
            if d.value is None:
                continue
            n += 1
            ctx.ob("R11", st, f"`{nm} = {short(d.value, 50)}` is a constant or the pattern's verdict", by_pattern(d.value), key="check_quotes|verdict-from-text", where=loc(d.stmt))
    if n < 1:
        raise AnalysisError(f"{st}: no verdict definition found")
    if not any(isinstance(c, ast.Call) and isinstance(c.func, ast.Attribute) and c.func.attr in ("match", "fullmatch") and isinstance(c.func.value, ast.Name) and c.func.value.id.startswith("RE_") for c in ast.walk(fn)):
        raise AnalysisError(f"{st}: the shared string pattern is no longer consulted")

META = {
    "technique": "static analysis: call-graph reachability from Execer.parse, loop-variant catalogue checked by CFG cycle queries (no cycle through the loop head without a progress statement), guard facts on the recursion, raise-provenance, string-provenance of the wrapper",
    "text": "Termination 'for all input strings whatsoever' is attacked at the only place it can be decided "
    "statically: the 11 while loops in the 36 functions reachable from Execer.parse are each matched against a "
    "frozen variant (retry budget with raising guard, monotone index with the bound in the loop test - recognised by the counter and its fixed bound standing as a conjunct of the test, whatever else the test asks -, consumer of a "
    "finite token stream) and the CFG is queried for a cycle through the loop head that avoids every progress "
    "statement; an unclassified new loop is itself a finding; for-loops must not grow their iterable; the "
    "self-recursion is entered only with logical_input false and passes True; every explicit raise re-raises a "
    "SyntaxError/IndentationError the parser reported; the wrapped line is source slices plus '![' and ']' only, "
    "and both phases use that one wrapper; every verdict of the open-triple-quote scanner that logical-line joining "
    "relies on is produced inside or after its quote- and comment-aware scan (the only accepted shortcut is 'no "
    "marker of either kind occurs'), and the joiners count no markers themselves; what is re-inserted into the source is exactly the wrapper's "
    "(or the recursive wrap's) result, inspected but never edited in between. Hangs like GH-5839/GH-6011 were exactly missing-progress cycles. "
    "Whether the chosen window is right for every line is value-level and not decided.",
    "note": "Decides the listed structural clauses, not the behaviour. Companion facts for two non-trivial progress "
    "assignments are frozen in the catalogue with their reason. PLY and the tokenizer are trusted.",
    "more": 'Also decided: the retry budget of the recovery loop grows with the length of the input (a bound on the number of segments), not with the number of lines alone; the second-phase scope queries are pure functions of the live binding stack (no memo that outlives a def/class scope). The target check whose SyntaxError feeds the recovery loop traverses every statement-holding field of the interpreter\'s grammar (cases included); both phases shift a physical-line column by the preceding physical lines before cutting a joined logical line. The cheap regular-expression pre-check in front of the break scan matches, as a bare substring, every spelling of every token type the scan stops at. Whether a quoted word is a complete string is decided by the shared string pattern alone (every verdict of check_quotes is a constant or that pattern\'s match).',
}

META["more"] += ' Every attribute of the second-phase transformer that is filled during a walk is re-bound by ctxvisit before the next walk starts (a memo emptied only after the walk survives a walk that ended in an exception).'
