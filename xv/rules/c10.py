"""C10 — the typed environment survives the trip to child processes and back.

Decided: every mutation of the variable store in ``Env`` is followed on all paths by
dropping the memoised string mapping; values that can be mutated in place do not
escape while the memo is trusted (today they do: known finding); each registered
converter is paired with its confirmed detyper (contradiction rule over the ``Var``
registry and ``ENSURERS``); ``detype`` stores a string only past the three skips
(mask, no detyper, None); the child environment is built inside the per-command swap.
Not decided: ``convert(detype(v)) == v`` for all values (run time).
"""

from __future__ import annotations

import ast

from .common import *
from ..engine.loader import class_methods

EN = "xonsh/environ.py"
SP = "xonsh/procs/specs.py"

STORE_MUTATORS = {"set_locally", "del_locally", "set_local_overrides", "pop", "popitem", "update", "clear", "setdefault"}
# confirmed converter -> detyper partners (frozen by reading tools.py / environ.py)
PAIRS = {
    "to_bool": {"bool_to_str"},
    "intensify_colors_on_win_setter": {"bool_to_str"},
    "ensure_string": {"ensure_string"},
    "to_debug": {"bool_or_int_to_str"},
    "to_bool_or_none": {"bool_or_none_to_str"},
    "to_bool_or_int": {"bool_or_int_to_str"},
    "to_dynamic_cwd_tuple": {"dynamic_cwd_tuple_to_str"},
    "to_history_tuple": {"history_tuple_to_str"},
    "to_logfile_opt": {"logfile_opt_to_str"},
    "LsColors.convert": {"detype", "LsColors.detype"},
    "pathsep_to_upper_seq": {"seq_to_upper_pathsep"},
    "pathsep_to_seq": {"seq_to_pathsep"},
    "pathsep_to_set": {"set_to_pathsep"},
    "histcontrol_csv_to_set": {"set_to_csv"},
    "csv_to_set": {"set_to_csv"},
    "to_tok_color_dict": {"dict_to_str"},
    "to_shlvl": {"str"},
    "to_int_or_none": {"str"},
    "int": {"str"},
    "float": {"str"},
    "str_to_path": {"path_to_str"},
    "str_to_env_path": {"env_path_to_str"},
    "str_to_abs_path": {"abs_path_to_str"},
    "to_breakpoint_engine": {"str"},
    "to_completion_mode": {"str"},
    "to_completions_display_value": {"str"},
    "to_itself": {"ensure_string"},
    "to_ptk_cursor_shape": {"to_ptk_cursor_shape_display_value"},
    "ptk2_color_depth_setter": {"ensure_string"},
    "locale_convert(lcle)": {"ensure_string"},
    "VarPattern.to_var_pattern": {"VarPattern.detype_var_pattern"},
}
# validator families for the generic ensurers
VALIDATORS = {
    "to_bool": {"is_bool", "always_false"},
    "ensure_string": {"is_string", "is_string_or_callable"},
    "str_to_path": {"is_path"},
    "str_to_env_path": {"is_env_path"},
    "str_to_abs_path": {"is_path"},
    "float": {"is_float"},
    "int": {"is_int"},
}
ALLOW_NO_INVALIDATE = {
    "__getitem__": "materialising a callable default: the value was not exported before (detype lists explicitly set variables only) and the next real mutation refreshes the memo",
}


def check(ctx):
    ctx.not_decided += ["convert(detype(v)) == v for all values of each type (run time)", "os.environ mirroring ($UPDATE_OS_ENVIRON)"]
    ctx.rule("R1", "every mutation of the variable store in Env is followed on all normal paths by `self._detyped = None`", floor=6)
    ctx.rule("R2", "a value that can be mutated in place does not escape from the store while a memo derived from it is trusted", floor=1)
    ctx.rule("R3", "each registered converter is paired with its confirmed detyper (and validator family) in the Var registry and ENSURERS", floor=25)
    ctx.rule("R4", "detype stores a string for a variable only past the three skips: DELETE_VAR mask, no detyper, None result", floor=3)
    ctx.rule("R5", "the child's environment is computed inside the per-command swap, at launch time", floor=2)
    ctx.rule("R11", "every value in the variable store passed its variable's converter: stores into the store happen in _set_item (after the conversion) or put in a value that needs none (the DELETE_VAR mask, a typed constructor, a materialised default) - never a value as it came in; detype() applies the *typed* detyper to whatever it finds (an inherited `8128 comands` kept as text reaches children as '8 1')", floor=4)
    ctx.rule("R10", "a scoped override that ends never unsets a variable that was set before it began: the restore step deletes a key only for the 'absent before' marker, and the capture step hands out that marker only on evidence that the key was absent from every layer (deleting also removes the variable from the os.environ mirror and from later children)", floor=2)
    ctx.rule("R9", "which validator / converter / detyper a name gets is computed from the live registry and the live pattern rules on every call: the lookup methods keep no memo on the Env (pattern rules are edited in place: `$XONSH_ENV_PATTERN_DIRS.exclude.append(..)`)", floor=4)
    ctx.rule("R8", "the memoised mapping itself never leaves detype(): every return is a fresh mapping (callers edit what they get)", floor=2)
    ctx.rule("R7", "every stage owns its overlay: a mapping stored into a spec's `env` inside a loop over stages is created in that iteration", floor=1)
    ctx.rule("R6", "the per-command overlay is normalised for every shape of value: an element of a list value is read only where the guard shows it exists", floor=1)

    mod = ctx.repo.module(EN)
    cls = mod.cls("Env")
    meths = class_methods(cls)
    n_mut = 0
    def _in_store(e, defs):
        """e is the variable store, or a container inside it (`self._d._local`), directly or through a local alias"""
        if isinstance(e, ast.Name) and e.id != "self":
            ds = defs.get(e.id, [])
            return bool(ds) and all(d.kind in ("assign", "walrus") and d.value is not None and not isinstance(d.value, ast.Name) and _in_store(d.value, defs) for d in ds)
        while isinstance(e, ast.Attribute):
            if unparse(e) == "self._d":
                return True
            e = e.value
        return False

    for name, fn in meths.items():
        cfg = None
        sdefs = df.all_defs(fn)
        for n in walk_local(fn):
            mut = None
            if isinstance(n, (ast.Assign, ast.AugAssign)):
                tg = n.targets if isinstance(n, ast.Assign) else [n.target]
                for t in tg:
                    if isinstance(t, ast.Subscript) and unparse(t.value) == "self._d":
                        mut = n
            elif isinstance(n, ast.Delete):
                for t in n.targets:
                    if isinstance(t, ast.Subscript) and unparse(t.value) == "self._d":
                        mut = n
            elif isinstance(n, ast.Expr) and isinstance(n.value, ast.Call) and isinstance(n.value.func, ast.Attribute) and _in_store(n.value.func.value, sdefs) and n.value.func.attr in STORE_MUTATORS:
                mut = n
            elif isinstance(n, ast.Assign) and any(unparse(t) == "self._d" for t in n.targets):
                if name == "__init__":
                    continue
                mut = n
            if mut is None:
                continue
            n_mut += 1
            st = f"{EN}:Env.{name}"
            if name == "__init__":
                continue
            cfg = cfg or CFG(fn)
            inv = [m for m in cfg.nodes if m.kind == "stmt" and isinstance(m.ast, ast.Assign) and any(unparse(t) == "self._detyped" for t in m.ast.targets) and const_value(m.ast.value, 0) is None]
            nodes = cfg.nodes_of(stmt_of(mut))
            ok = bool(inv) and bool(nodes)
            path = None
            if ok:
                ok, path = cfg.must_pass(nodes, lambda m: m in inv, exits=("exit",))
            if not ok and name in ALLOW_NO_INVALIDATE and "is_callable_default" in unparse(fn):
                facts = facts_text(facts_at(cfg, nodes[0])) if nodes else []
                if any("is_callable_default" in f and not f.startswith("not ") for f in facts):
                    ctx.ob("R1", st, f"`{short(mut, 60)}` allow-listed: {ALLOW_NO_INVALIDATE[name]}", True, where=loc(mut))
                    continue
            if not ok and name == "set_swapped_values":
                # installing another thread's view changes what *this* thread exports; sound only because
                # the memo is never served to a thread with local overrides (C11.R4) — check that here
                dt = meths.get("detype")
                ok = False
                if dt is not None:
                    from .c11 import NO_OVERRIDES as _NOV, _through_predicates as _tp, _uncopy as _uc

                    dcfg_ = CFG(dt)
                    sites_ = [m_ for m_ in dcfg_.nodes if m_.kind == "stmt" and ((isinstance(m_.ast, ast.Return) and m_.ast.value is not None and unparse(_uc(m_.ast.value)) == "self._detyped") or (isinstance(m_.ast, ast.Assign) and any(unparse(t) == "self._detyped" for t in m_.ast.targets) and const_value(m_.ast.value, 0) is not None))]
                    ok = len(sites_) >= 2 and all(any((not pol) and unparse(e) in _NOV for e, pol in _tp(facts_at(dcfg_, m_), meths)) for m_ in sites_)
                ctx.ob("R1", st, f"`{short(mut, 60)}` changes only the thread-local layer, which the memo never covers (detype bypasses the memo for threads with local overrides)", ok, key=f"{name}|store-mutation-without-invalidation", where=loc(mut))
                continue
            ctx.ob("R1", st, f"`{short(mut, 60)}` is followed by dropping the memoised mapping on every normal path", ok, key=f"{name}|store-mutation-without-invalidation|{short(mut, 40)}", where=loc(mut), path=cfg.fmt_path(path) if path else None)
    if n_mut < 6:
        raise AnalysisError(f"only {n_mut} store mutations found in Env")
    # the registry of variable types is an input of detype() too (it selects the detyper): changing it must drop the memo
    n_reg = 0
    for name, fn in meths.items():
        if name == "__init__":
            continue
        rcfg = None
        for n in walk_local(fn):
            mut = None
            if isinstance(n, (ast.Assign, ast.AugAssign)):
                tg = n.targets if isinstance(n, ast.Assign) else [n.target]
                if any(isinstance(t, ast.Subscript) and unparse(t.value) == "self._vars" for t in tg) or any(unparse(t) == "self._vars" for t in tg):
                    mut = n
            elif isinstance(n, ast.Delete) and any(isinstance(t, ast.Subscript) and unparse(t.value) == "self._vars" for t in n.targets):
                mut = n
            elif isinstance(n, ast.Expr) and isinstance(n.value, ast.Call) and isinstance(n.value.func, ast.Attribute) and unparse(n.value.func.value) == "self._vars" and n.value.func.attr in ("pop", "popitem", "update", "clear", "setdefault", "__setitem__", "__delitem__"):
                mut = n
            if mut is None:
                continue
            n_reg += 1
            rcfg = rcfg or CFG(fn)
            inv = [m for m in rcfg.nodes if m.kind == "stmt" and isinstance(m.ast, ast.Assign) and any(unparse(t) == "self._detyped" for t in m.ast.targets) and const_value(m.ast.value, 0) is None]
            nodes = rcfg.nodes_of(stmt_of(mut))
            ok = bool(inv) and bool(nodes)
            path = None
            if ok:
                ok, path = rcfg.must_pass(nodes, lambda m: m in inv, exits=("exit",))
                ok = ok or all(rcfg.dominated(x, lambda m: m in inv) for x in nodes)
            ctx.ob("R1", f"{EN}:Env.{name}", f"`{short(mut, 60)}` changes which detyper a variable gets: the memoised mapping is dropped on every normal path", ok, key=f"{name}|registry-mutation-without-invalidation|{short(mut, 40)}", where=loc(mut), path=rcfg.fmt_path(path) if path else None)
    if n_reg < 2:
        raise AnalysisError(f"only {n_reg} mutations of the variable registry found in Env (register, deregister expected)")

    # ---- the same discipline for every other class in environ.py that memoises its string form
    #      in `_detyped` (LsColors): state read by the memo-filling method must not be mutated
    #      without dropping the memo on every path
    for cq, cnode in [(q, n) for q, n in mod.quals.items() if isinstance(n, ast.ClassDef) and q != "Env"]:
        cms = class_methods(cnode)
        fillers = [f for f in cms.values() if any(isinstance(x, ast.Assign) and any(unparse(t) == "self._detyped" for t in x.targets) and not (isinstance(x.value, ast.Constant) and x.value.value is None) for x in walk_local(f))]
        if not fillers:
            continue
        inputs = set()
        for f in fillers:
            for x in ast.walk(f):
                if isinstance(x, ast.Attribute) and isinstance(x.value, ast.Name) and x.value.id == "self" and x.attr.startswith("_") and x.attr != "_detyped":
                    inputs.add(f"self.{x.attr}")
        for name, fn in cms.items():
            if name == "__init__" or fn in fillers:
                continue
            muts = []
            for x in walk_local(fn):
                if isinstance(x, (ast.Assign, ast.AugAssign)):
                    tg = x.targets if isinstance(x, ast.Assign) else [x.target]
                    for t in tg:
                        b = t.value if isinstance(t, ast.Subscript) else t
                        if unparse(b) in inputs:
                            muts.append(x)
                elif isinstance(x, ast.Delete):
                    for t in x.targets:
                        b = t.value if isinstance(t, ast.Subscript) else t
                        if unparse(b) in inputs:
                            muts.append(x)
                elif isinstance(x, ast.Expr) and isinstance(x.value, ast.Call) and isinstance(x.value.func, ast.Attribute) and unparse(x.value.func.value) in inputs and x.value.func.attr in ("add", "discard", "remove", "update", "clear", "pop", "popitem", "setdefault", "append", "extend", "insert"):
                    muts.append(x)
            if not muts:
                continue
            cfg = CFG(fn)
            inv = [m for m in cfg.nodes if m.kind == "stmt" and isinstance(m.ast, ast.Assign) and any(unparse(t) == "self._detyped" for t in m.ast.targets) and const_value(m.ast.value, 0) is None]
            for mu in muts:
                n_mut += 1
                nodes = cfg.nodes_of(mu)
                ok = bool(inv) and bool(nodes)
                if ok:
                    after, path = cfg.must_pass(nodes, lambda m: m in inv, exits=("exit",))
                    before = all(cfg.dominated(nd, lambda m: m in inv) for nd in nodes)
                    ok = after or before
                ctx.ob("R1", f"{EN}:{cq}.{name}", f"`{short(mu, 50)}` changes state the memoised string form is computed from; the memo is dropped on every path (before or after)", ok, key=f"{cq}.{name}|memo-not-dropped|{short(mu, 40)}", where=loc(mu))

    # ------------------------------------------------------------------ R2
    gi = meths.get("__getitem__")
    dt = meths.get("detype")
    if gi is None or dt is None:
        raise AnchorMissing(f"{EN}: Env.__getitem__/detype")
    gdefs = df.all_defs(gi)
    escapes = []
    for n in walk_local(gi):
        if isinstance(n, ast.Return) and isinstance(n.value, ast.Name):
            for d in gdefs.get(n.value.id, []):
                if d.value is not None and any(isinstance(x, ast.Subscript) and unparse(x.value) == "self._d" for x in ast.walk(d.value)):
                    escapes.append(n)
    # the memo is served (as it is or as a copy of its content: either way its content is trusted)
    serves_memo = any(isinstance(n, ast.Return) and n.value is not None and any(isinstance(x, ast.Attribute) and unparse(x) == "self._detyped" for x in ast.walk(n.value)) for n in walk_local(dt))
    copies = any(isinstance(n, ast.Call) and call_name(n) in ("copy.copy", "copy.deepcopy", "list", "tuple") for r in escapes for n in ast.walk(r))
    revalidates = any("_mutable" in unparse(n) or "version" in unparse(n) for n in ast.walk(dt) if isinstance(n, ast.If))
    ctx.ob(
        "R2",
        f"{EN}:Env.__getitem__",
        "a mutable stored value handed out by reference cannot be changed behind a trusted memo (copy on read, or the memo re-validated against mutable values)",
        not (escapes and serves_memo) or copies or revalidates,
        key="getitem|mutable-alias-escapes",
        where=loc(escapes[0]) if escapes else loc(gi),
        detail="__getitem__ returns the stored object itself and invalidates only at hand-out time; detype() later serves the memo",
    )

    getitem_invalidation(ctx, "R2", gi)

    # ------------------------------------------------------------------ R3
    triples = []
    ens = mod.assign_value("ENSURERS")
    if not isinstance(ens, ast.Dict):
        raise AnchorMissing(f"{EN}: ENSURERS dict literal")
    for k, v in zip(ens.keys, ens.values):
        if isinstance(v, ast.Tuple) and len(v.elts) == 3:
            triples.append((f"ENSURERS[{const_value(k)!r}]", v, [unparse(e) for e in v.elts]))
    for n in ast.walk(mod.tree):
        if isinstance(n, ast.Assign) and isinstance(n.targets[0], ast.Subscript) and unparse(n.targets[0].value) == "ENSURERS" and isinstance(n.value, ast.Tuple) and len(n.value.elts) == 3:
            triples.append((f"ENSURERS[{unparse(n.targets[0].slice)}]", n, [unparse(e) for e in n.value.elts]))
        if isinstance(n, ast.Call) and (call_name(n) or "") in ("Var", "cls", "Var.with_default", "Var.no_default"):
            names = ["validate", "convert", "detype"]
            d = {}
            if call_name(n) in ("Var", "cls"):
                for i, a in enumerate(n.args[:3]):
                    d[names[i]] = unparse(a)
            for kw in n.keywords:
                if kw.arg in names:
                    d[kw.arg] = unparse(kw.value)
            if "convert" in d and "detype" in d:
                par = parent(n)
                label = unparse(par.targets[0]) if isinstance(par, ast.Assign) else f"Var@{n.lineno}"
                triples.append((label, n, [d.get("validate"), d["convert"], d["detype"]]))
    unknown = []
    for label, node, (val, conv, det) in triples:
        if conv in ("None", "convert") or det in ("None",):
            continue
        if conv not in PAIRS:
            unknown.append((label, conv, det))
            continue
        ctx.ob("R3", f"{EN}:{label}", f"converter {conv} is registered with its partner detyper (confirmed: {sorted(PAIRS[conv])})", det in PAIRS[conv], key=f"pair|{label}|{conv}|{det}", where=loc(node), detail=f"found detyper {det}")
        if conv in VALIDATORS and val is not None and label.startswith("ENSURERS"):
            ctx.ob("R3", f"{EN}:{label}", f"validator {val} belongs to the family of {conv}", val in VALIDATORS[conv], key=f"validator|{label}|{conv}|{val}", where=loc(node))
    if unknown:
        ctx.note(f"unconfirmed converter/detyper pairs (reported, not failing): {unknown}")
    ctx.extra["registered_triples"] = len(triples)

    # ------------------------------------------------------------------ R4
    # decided on the helper-transparent view by path enumeration with forward substitution, so that neither
    # local names, nor continue-vs-nested-if, nor a per-variable helper returning a pair matter
    from ..engine import dtable as _dt

    dtf = flat(ctx, dt, depth=2, skip=("get_detyper",))
    # the result mapping under every local name it goes by: a phase extracted into a helper builds it under the helper's
    # own local and hands it back (`ctx = ctx__i1` in the flat view) - plain copies in either direction are one object
    _ddefs = df.all_defs(dtf)
    res_names = set()
    for _rn in returned_names(dtf):
        res_names |= alias_class(_ddefs, _rn)
    store_loops = [l for l in walk_local(dtf) if isinstance(l, ast.For) and any(isinstance(n, ast.Assign) and isinstance(n.targets[0], ast.Subscript) and isinstance(n.targets[0].value, ast.Name) and n.targets[0].value.id in res_names for n in ast.walk(l))]
    if len(store_loops) != 1:
        raise AnchorMissing(f"{EN}:Env.detype: no (single) loop storing into the result mapping ({len(store_loops)})")
    n_store_paths = 0
    for pth in _dt.simplified(_dt.paths(store_loops[0].body, stores=True, loops="skip")):
        sts = [e for e in pth.effects if isinstance(e, ast.Assign) and isinstance(e.targets[0], ast.Subscript) and isinstance(e.targets[0].value, ast.Name) and e.targets[0].value.id in res_names]
        if not sts:
            continue
        n_store_paths += 1
        lits = set()
        for e, pol in pth.conds:
            alts = _dt.branches(e, pol)
            for e2, p2 in alts[0] if len(alts) == 1 else [_dt.normalise(e, pol)]:
                lits.add((unparse(e2), p2))
        for st_ in sts:
            V = st_.value
            is_detyped = isinstance(V, ast.Call) and isinstance(V.func, ast.Call) and last_attr(V.func) == "get_detyper" and len(V.args) == 1
            ctx.ob("R4", f"{EN}:Env.detype", f"`{short(st_, 70)}`: the exported string is the registered detyper applied to the value", is_detyped, key="detype|value-source", where=loc(st_))
            if not is_detyped:
                continue
            F, val = unparse(V.func), unparse(V.args[0])
            need = {
                "masked value skipped": (f"{val} is DELETE_VAR", False) in lits,
                "missing detyper skipped": (f"{F} is None", False) in lits,
                "None result skipped": (f"{unparse(V)} is None", False) in lits,
            }
            for what, ok in need.items():
                ctx.ob("R4", f"{EN}:Env.detype", f"`{short(st_, 70)}`: {what}", ok, key=f"detype|{what}", where=loc(st_), detail="path: " + "; ".join(("" if p_ else "not ") + t for t, p_ in sorted(lits)))
    if n_store_paths < 1:
        raise AnalysisError(f"{EN}:Env.detype: no path stores into the result mapping")

    # ------------------------------------------------------------------ R5
    sp = ctx.repo.module(SP)
    pe = sp.func("SubprocSpec.prep_env_subproc")
    calls = [c for c in calls_in(pe) if last_attr(c) == "detype"]
    ok = bool(calls)
    for c in calls:
        ws = [a for a in ancestors(c) if isinstance(a, ast.With) and any(isinstance(it.context_expr, ast.Call) and (call_name(it.context_expr) or "").endswith("env.swap") and it.context_expr.args and unparse(it.context_expr.args[0]) == "self.env" for it in a.items)]
        ok = ok and bool(ws)
    ctx.ob("R5", f"{SP}:SubprocSpec.prep_env_subproc", "detype() runs inside `with XSH.env.swap(self.env)` (per-command overlay included)", ok, key="prep_env|detype-outside-swap", where=loc(pe))
    ok = any(isinstance(n, ast.Assign) and unparse(n.targets[0]) == "kwargs['env']" for n in walk_local(pe))
    ctx.ob("R5", f"{SP}:SubprocSpec.prep_env_subproc", "the mapping is handed to Popen as env=", ok, key="prep_env|not-passed")

    # per-command `$X=1 cmd` overlays: the parser hands `envs` aligned with `cmds` (connector strings included,
    # with None placeholders); the overlay given to a stage must be looked up at the stage's position in `cmds`
    c2s = sp.func("cmds_to_specs")
    cdefs = df.all_defs(c2s)
    cmds_p = param_name(c2s, 0, skip_self=False)
    if not any(a_.arg == "envs" for a_ in c2s.args.args + c2s.args.kwonlyargs):
        raise AnchorMissing(f"{SP}:cmds_to_specs: parameter envs")
    builds = [c for c in calls_in(c2s) if (call_name(c) or "").endswith("SubprocSpec.build")]
    if not builds:
        raise AnchorMissing(f"{SP}:cmds_to_specs: SubprocSpec.build call")
    for c in builds:
        cmd_e = c.args[0] if c.args else None
        env_e = kwarg(c, "env")
        ok, why = False, "the stage's command is not a loop variable over the command list"
        loop = None
        if isinstance(cmd_e, ast.Name):
            ds = cdefs.get(cmd_e.id, [])
            if len(ds) == 1 and isinstance(ds[0].stmt, ast.For):
                loop = ds[0].stmt
        if loop is not None and env_e is not None:
            it, tgt = loop.iter, loop.target
            idx = None
            if isinstance(it, ast.Call) and call_name(it) == "enumerate" and it.args and unparse(it.args[0]) == cmds_p and isinstance(tgt, ast.Tuple) and isinstance(tgt.elts[0], ast.Name):
                idx = tgt.elts[0].id
            # the overlay expression, through one local (which may be bound in the arms of an if/else: `envs[i]` / None)
            ev = env_e
            arms = [a_ for a_ in value_arms(cdefs, ev) if not (isinstance(a_, ast.Constant) and a_.value is None)]
            subs = [x for a_ in arms for x in ast.walk(a_) if isinstance(x, ast.Subscript) and unparse(x.value) == "envs"]
            if len(arms) == 1:
                ev = arms[0]
            if idx is not None and subs and all(isinstance(x.slice, ast.Name) and x.slice.id == idx for x in subs) and not [d for d in cdefs.get(idx, []) if d.stmt is not loop and lexically_inside(d.stmt, loop)] and lexically_inside(c, loop):
                ok, why = True, None
            elif idx is None and isinstance(it, ast.Call) and call_name(it) == "zip" and [unparse(a_) for a_ in it.args[:2]] == [cmds_p, "envs"] and isinstance(env_e, ast.Name) and any(isinstance(x, ast.Name) and x.id == env_e.id for x in ast.walk(tgt)):
                ok, why = True, None
            else:
                why = f"overlay `{short(ev, 50)}` is not indexed by the position of the command in `{cmds_p}`" + (f" (`{idx}`)" if idx else " (no enumerate index)")
        ctx.ob("R5", f"{SP}:cmds_to_specs", f"`{short(c, 60)}`: the per-command overlay is taken from `envs` at the command's own position in the command list", ok, key="cmds_to_specs|overlay-misaligned", where=loc(c), detail=why)

    _memo_escape(ctx, meths)
    _lookup_purity(ctx, mod, meths)
    _restore_never_unsets(ctx, mod, meths)
    _typed_store(ctx, mod, meths)
    _overlay_index_safety(ctx, sp)
    _overlay_ownership(ctx, sp)


_SELF_MUTATORS = {"add", "update", "discard", "remove", "append", "pop", "clear", "extend", "insert", "setdefault", "popitem", "__setitem__", "__delitem__"}



def _restore_never_unsets(ctx, mod, meths):
    """Env.swap: `old[k] = <captured>` ... finally: `if v is <marker>: _del_item(k)` else `_set_item(k, v)`."""
    sw = meths.get("swap")
    if sw is None:
        raise AnchorMissing(f"{EN}:Env.swap")
    swf = flat(ctx, sw, 2, skip=("_set_item", "_del_item", "_capture_for_swap"))
    st = f"{EN}:Env.swap"
    # the marker: what the restore loop tests before it deletes.  Decided by path enumeration over the loop body, so that
    # if/else, guard clause + continue, either arm order and try/except vs suppress() are one shape: the one comparison
    # `<v> is <marker>` that holds on every deleting path and fails on every path that writes a value back
    from ..engine import dtable as _dt

    def _is(c, suffixes):
        return isinstance(c, ast.Call) and (call_name(c) or "").endswith(suffixes)

    marker = None
    restore_loops = []
    for lp in [n for n in walk_local(swf) if isinstance(n, ast.For)]:
        if not any(_is(c, ("_del_item", "del_locally")) for b_ in lp.body for c in calls_in(b_)):
            continue
        del_lits, set_lits, set_calls = [], [], []
        for pth in _dt.simplified(_dt.paths(lp.body, stores=True, loops="skip")):
            calls = [c for e in pth.effects for c in ast.walk(e) if isinstance(c, ast.Call)]
            dels = [c for c in calls if _is(c, ("_del_item", "del_locally"))]
            sets = [c for c in calls if _is(c, ("_set_item",))]
            if not dels and not sets:
                continue
            lits = {}
            members = set()
            for e, pol in pth.conds:
                for e2, p2 in _dt.branches(e, pol)[0] if len(_dt.branches(e, pol)) == 1 else [_dt.normalise(e, pol)]:
                    e3, p3 = _dt.normalise(e2, p2)
                    if isinstance(e3, ast.Compare) and len(e3.ops) == 1 and isinstance(e3.ops[0], (ast.Is, ast.Eq)) and isinstance(e3.left, ast.Name):
                        lits[(unparse(e3.left), unparse(e3.comparators[0]))] = p3
                    if isinstance(e3, ast.Compare) and len(e3.ops) == 1 and isinstance(e3.ops[0], (ast.In, ast.NotIn)) and isinstance(e3.comparators[0], ast.Name) and p3 == isinstance(e3.ops[0], ast.In):
                        members.add(unparse(e3.left))
            if dels and sets and all(_is(c, ("del_locally",)) and c.args and unparse(c.args[0]) in members for c in dels):
                # the value is written back and then only the thread-private *copy* is dropped, for keys on record
                # (`k in <set filled at capture time>`): the variable keeps resolving - not an unset (C11.R9 judges
                # the record itself)
                dels = []
            if dels:
                del_lits.append(lits)
            if sets:
                set_lits.append(lits)
                set_calls += sets
        cands = [k for k in (del_lits[0] if del_lits else {}) if all(l.get(k) is True for l in del_lits) and all(l.get(k) is False for l in set_lits)]
        if len(cands) != 1:
            raise AnalysisError(f"{st}: the restore loop at line {lp.lineno} deletes a variable, but not under one recognisable test of the captured state (`if v is <marker>: _del_item` / else `_set_item`): candidates {cands}")
        var, mk = cands[0]
        if marker is not None and mk != marker:
            raise AnalysisError(f"{st}: two different 'was absent' markers in the restore loops ({marker}, {mk})")
        marker = mk
        restore_loops.append((lp, var, set_calls))
    if marker is None:
        raise AnalysisError(f"{st}: the restore loop's delete branch (`if v is <marker>: _del_item`) was not found")
    # producers of the marker: returns of the capture helper(s) called for `old[k] = ...`, or direct stores in swap
    producers = []
    for n in walk_local(sw):
        if isinstance(n, ast.Assign) and any(isinstance(t, ast.Subscript) for t in n.targets):
            v = n.value
            if unparse(v) == marker:
                producers.append((sw, n, "Env.swap"))
            elif isinstance(v, ast.Call) and isinstance(v.func, ast.Attribute) and unparse(v.func.value) == "self" and v.func.attr in meths:
                h = meths[v.func.attr]
                for r in walk_local(h):
                    if isinstance(r, ast.Return) and r.value is not None and unparse(r.value) == marker:
                        producers.append((h, r, f"Env.{v.func.attr}"))
    seen = set()
    n_ok = 0
    for fn, stmt, q in producers:
        if id(stmt) in seen:
            continue
        seen.add(id(stmt))
        keyp = None
        # evidence of absence: inside `except KeyError` of a try whose body looks the key up in the whole
        # environment (`self[key]`), or where `key in self` is known false
        ev = False
        for a in ancestors(stmt):
            if isinstance(a, ast.ExceptHandler) and a.type is not None and "KeyError" in unparse(a.type):
                tr = parent(a)
                if isinstance(tr, ast.Try) and any(isinstance(x, ast.Subscript) and unparse(x.value) == "self" for b_ in tr.body for x in ast.walk(b_)):
                    ev = True
        if not ev:
            cfg = CFG(fn)
            nodes = cfg.nodes_of(stmt)
            facts = nfacts(cfg, nodes[0]) if nodes else set()
            ev = any(t.endswith(" in self") and not pol for t, pol in facts)
        n_ok += 1
        ctx.ob("R10", f"{EN}:{q}", f"`{short(stmt, 50)}` (the 'was absent' marker, which makes the restore step delete the variable) is produced only where a lookup in the whole environment failed", ev, key=f"{q}|absent-marker-without-evidence", where=loc(stmt))
    if not producers:
        raise AnalysisError(f"{st}: nothing produces the restore marker {marker}")
    # and the set branch writes back the captured value itself
    for lp, var, sets in restore_loops:
        ok = bool(sets) and all(len(c.args) >= 2 and unparse(c.args[1]) == var for c in sets)
        ctx.ob("R10", st, "a key that existed before is restored to exactly the captured value", ok, key="swap|restore-not-captured-value", where=loc(lp))



def _typed_store(ctx, mod, meths):
    n = 0
    # the converting setter and the private helpers that only it calls (a split of _set_item into phases moves the stores)
    setter_family = {"_set_item"}
    for _ in range(2):
        for nm_, m_ in meths.items():
            if nm_.startswith("_") and nm_ not in setter_family:
                callers = {q_ for q_, f_ in meths.items() if any(isinstance(c.func, ast.Attribute) and c.func.attr == nm_ and unparse(c.func.value) == "self" for c in calls_in(f_))}
                if callers and callers <= setter_family:
                    setter_family.add(nm_)
    for nm, m in meths.items():
        defs = None
        for a in walk_local(m):
            tgt = val = None
            if isinstance(a, ast.Assign):
                for t in a.targets:
                    if isinstance(t, ast.Subscript) and unparse(t.value) == "self._d":
                        tgt, val = t, a.value
            elif isinstance(a, ast.Expr) and isinstance(a.value, ast.Call) and unparse(a.value.func) in ("self._d.set_locally", "self._d.__setitem__", "self._d.setdefault") and len(a.value.args) == 2:
                tgt, val = a.value, a.value.args[1]
            if tgt is None:
                continue
            n += 1
            if nm in setter_family:
                ok, why = True, "inside _set_item (the converting setter) or a helper only it calls"
            else:
                v = val
                if isinstance(v, ast.Name):
                    defs = defs or df.all_defs(m)
                    ds = [d for d in defs.get(v.id, []) if d.value is not None]
                    if len(ds) == 1:
                        v = ds[0].value
                    elif ds:
                        # several bindings: the one written last before the store, in the same straight-line block
                        prev = [d for d in ds if getattr(d.stmt, "lineno", 0) < a.lineno and getattr(d.stmt, "_xv_parent", None) is getattr(a, "_xv_parent", None) or any(anc is getattr(d.stmt, "_xv_parent", None) for anc in ancestors(a))]
                        prev = [d for d in prev if getattr(d.stmt, "lineno", 0) < a.lineno]
                        if prev:
                            v = max(prev, key=lambda d_: d_.stmt.lineno).value
                typed = isinstance(v, ast.Call) and ((call_name(v) or "")[:1].isupper() or (call_name(v) or "").split(".")[-1][:1].isupper())
                mask = unparse(v) == "DELETE_VAR"
                default = isinstance(v, ast.Call) and isinstance(v.func, ast.Name) and len(v.args) == 1 and unparse(v.args[0]) == "self"
                conv = isinstance(v, ast.Call) and any(k in (call_name(v) or "") for k in ("convert", "ensure", "_set_item"))
                ok = typed or mask or default or conv
                why = None if ok else f"`{short(val, 40)}` is stored as it came in"
            ctx.ob("R11", f"{EN}:Env.{nm}", f"`{short(a, 60)}` puts a converted (or conversion-free) value into the store", ok, key=f"Env.{nm}|raw-store|{unparse(val)[:30]}", where=loc(a), detail=why)
    if n < 4:
        raise AnalysisError(f"{EN}: only {n} store sites of Env found")



def getitem_invalidation(ctx, rule, gi=None):
    """shared with C08 (a $PATH edit must reach the child's PATH string)"""
    if gi is None:
        from ..engine.loader import class_methods as _cm

        gi = _cm(ctx.repo.module(EN).cls("Env")).get("__getitem__")
        if gi is None:
            raise AnchorMissing(f"{EN}:Env.__getitem__")
    # the hand-out-time invalidation (what there is of a protection today) covers every mutable container: the guard over the
    # memo drop in __getitem__ is the mutable-container test alone - an exemption by type or by 'is it set' hands out a list
    # whose in-place edits nothing reports ($PATH built from the default when unset: `$PATH.insert(0, d)` never reaches children)
    drops = [a for a in walk_local(gi) if isinstance(a, ast.Assign) and any(unparse(t) == "self._detyped" for t in a.targets) and const_value(a.value, 0) is None]
    if not drops:
        raise AnalysisError(f"{EN}:Env.__getitem__: the memo is not dropped when a stored value is handed out")
    for dr in drops:
        gate = next((a for a in ancestors(dr) if isinstance(a, ast.If)), None)
        conj = conjuncts(gate.test) if gate is not None else []
        emod = ctx.repo.module(EN)

        def _types_text(e):
            # the tuple / union of container ABCs may be a module-level constant
            if isinstance(e, ast.Name) and e.id in emod.assigns:
                v_ = getattr(emod.assigns[e.id][-1], "value", None)
                if v_ is not None:
                    return unparse(v_)
            return unparse(e)

        extra = [c_ for c_ in conj if not (isinstance(c_, ast.Call) and call_name(c_) == "isinstance" and len(c_.args) == 2 and "Mutable" in _types_text(c_.args[1]))]
        nested = [a for a in ancestors(dr) if isinstance(a, ast.If) and a is not gate and lexically_inside(a, gi)]
        ctx.ob(rule, f"{EN}:Env.__getitem__", "the memo is dropped for every mutable container that is handed out (the guard is the mutable-container test alone)", gate is not None and not extra and not nested, key="getitem|invalidation-exempts-some-containers", where=loc(extra[0]) if extra else loc(dr), detail=f"also required: `{short(extra[0], 60)}`" if extra else None)


def _lookup_purity(ctx, mod, meths):
    for name in ("get_validator", "get_converter", "get_detyper", "_find_var_pattern"):
        if name not in meths:
            raise AnchorMissing(f"{EN}:Env.{name}")
        fn = flat(ctx, meths[name], 2)
        writes = []
        for n in walk_local(fn):
            tg = n.targets if isinstance(n, ast.Assign) else [n.target] if isinstance(n, (ast.AugAssign, ast.AnnAssign)) else n.targets if isinstance(n, ast.Delete) else []
            for t in tg:
                for x in ast.walk(t):
                    if isinstance(x, ast.Attribute) and unparse(x.value) == "self" and isinstance(t, (ast.Attribute, ast.Subscript)):
                        writes.append(n)
            if isinstance(n, ast.Call) and isinstance(n.func, ast.Attribute) and n.func.attr in _SELF_MUTATORS and isinstance(n.func.value, ast.Attribute) and unparse(n.func.value.value) == "self":
                writes.append(n)
        ctx.ob("R9", f"{EN}:Env.{name}", "stores nothing on the Env (no per-name memo of the type lookup)", not writes, key=f"{name}|lookup-keeps-state", where=loc(writes[0]) if writes else loc(meths[name]), detail=f"`{short(writes[0], 70)}`" if writes else None)


def _memo_escape(ctx, meths):
    """Several callers add keys to the mapping detype() gives them (GIT_OPTIONAL_LOCKS, HGRCPATH, SHLVL, PROMPT) before
    handing it to a child.  If that mapping is the memo, every later child gets those keys too."""
    dt = meths.get("detype")
    if dt is None:
        raise AnchorMissing(f"{EN}:Env.detype")
    st = f"{EN}:Env.detype"
    defs = df.all_defs(dt)
    memo_stores = [n for n in walk_local(dt) if isinstance(n, ast.Assign) and any(unparse(t) == "self._detyped" for t in n.targets)]

    def fresh(e):
        if isinstance(e, ast.Call) and ((call_name(e) == "dict" and len(e.args) <= 1) or (isinstance(e.func, ast.Attribute) and e.func.attr == "copy" and not e.args)):
            return True
        if isinstance(e, ast.Dict) or isinstance(e, ast.DictComp):
            return True
        return False

    rets = [n for n in walk_local(dt) if isinstance(n, ast.Return) and n.value is not None]
    if len(rets) < 2:
        raise AnalysisError(f"{st}: expected the memo-hit return and the rebuilt return, found {len(rets)}")
    cfg = CFG(dt)
    for r in rets:
        v = r.value
        ok, why = True, None
        if fresh(v):
            pass
        elif unparse(v) == "self._detyped":
            ok, why = False, "returns the memo object itself"
        elif isinstance(v, ast.Name):
            # a local: it must not be the object stored as the memo on a path that reaches this return
            sharing = [m for m in memo_stores if isinstance(m.value, ast.Name) and m.value.id == v.id]
            after = cfg.reach([x for m in sharing for x in cfg.nodes_of(m)]) if sharing else set()
            if any(x in after for x in cfg.nodes_of(r)):
                ok, why = False, f"`{v.id}` is also stored as the memo (`self._detyped = {v.id}`) on a path to this return: the caller and the memo share one dict"
            elif any(d.value is not None and unparse(d.value) == "self._detyped" for d in defs.get(v.id, [])):
                ok, why = False, f"`{v.id}` is the memo object"
        else:
            ok, why = False, f"cannot show that `{short(v)}` is a fresh mapping"
        ctx.ob("R8", st, f"`{short(r, 50)}` hands out a mapping of its own", ok, key=f"detype|memo-escapes|{short(v, 30)}", where=loc(r), detail=why)


def _overlay_ownership(ctx, sp, rule="R7"):
    """SubprocSpec.env is edited in place later (run() adds __ALIAS_NAME, handlers may add keys): two stages must never
    hold the same mapping.  In every loop, a value stored into `<stage>.env` must be built inside the iteration."""
    n = 0
    for q, fn in sp.functions():
        defs = None
        for loop in [x for x in walk_local(fn) if isinstance(x, (ast.For, ast.While))]:
            for a in [x for b in loop.body for x in ast.walk(b) if isinstance(x, ast.Assign)]:
                if not any(isinstance(t, ast.Attribute) and t.attr == "env" and unparse(t.value) != "XSH" for t in a.targets):
                    continue
                n += 1
                v = a.value
                ok, why = True, None
                if isinstance(v, ast.Name):
                    defs = defs or df.all_defs(fn)
                    ds = defs.get(v.id, [])
                    outside = [d for d in ds if not lexically_inside(d.stmt, loop) or d.stmt is loop]
                    mutable = [d for d in outside if d.kind == "param" or (d.value is not None and not isinstance(d.value, ast.Constant))]
                    if mutable and not (isinstance(loop, ast.For) and any(isinstance(x, ast.Name) and x.id == v.id for x in ast.walk(loop.target))):
                        ok, why = False, f"`{v.id}` is bound once outside the loop and shared by every stage that takes it"
                    if not ds and v.id in sp.assigns and any(not isinstance(a_.value, ast.Constant) for a_ in sp.assigns[v.id] if getattr(a_, "value", None) is not None):
                        # a module-level object: shared by every stage of every command of the session
                        ok, why = False, f"`{v.id}` is one module-level object: every stage of every later command gets - and edits - the same mapping"
                ctx.ob(rule, f"{SP}:{q}", f"`{short(a, 60)}`: the stored overlay is created in this iteration", ok, key=f"{q}|overlay-shared-across-stages", where=loc(a), detail=why)
    if not n:
        raise AnalysisError(f"{SP}: no per-stage overlay store inside a loop found (expected _set_specs_capture_always)")


def _guard_context(node, stop):
    """(test, polarity) pairs that hold whenever ``node`` is evaluated, from the expression-level constructs
    between ``node`` and the statement ``stop``: conditional expressions, short-circuit operators, comprehension filters."""
    out = []
    child = node
    for a in ancestors(node):
        if isinstance(a, ast.IfExp):
            if child is a.body:
                out.append((a.test, True))
            elif child is a.orelse:
                out.append((a.test, False))
        elif isinstance(a, ast.BoolOp):
            i = next((k for k, v_ in enumerate(a.values) if v_ is child), None)
            if i:
                out += [(v_, isinstance(a.op, ast.And)) for v_ in a.values[:i]]
        elif isinstance(a, (ast.ListComp, ast.SetComp, ast.DictComp, ast.GeneratorExp)):
            if not any(child is g or child is g.iter for g in a.generators):
                for g in a.generators:
                    out += [(t, True) for t in g.ifs]
        if a is stop:
            break
        child = a
    return out


def _overlay_index_safety(ctx, sp):
    """`$E=@(seq) cmd`: the parser hands the overlay values as lists of words; the spec unwraps one-word lists.  Every
    constant-index read of such a value must sit under a guard that implies the element exists, for every shape the
    value can have: not a list; a list of 0, 1, 2, 3 words (abstract enumeration over (is-list, length))."""
    init = sp.func("SubprocSpec.__init__")
    st = f"{SP}:SubprocSpec.__init__"
    stores = [n for n in walk_local(init) if isinstance(n, ast.Assign) and any(unparse(t) == "self.env" for t in n.targets) and not (isinstance(n.value, ast.Constant) and n.value.value is None)]
    if not stores:
        raise AnchorMissing(f"{st}: the overlay store `self.env = ...`")
    params = {a_.arg for a_ in init.args.args + init.args.kwonlyargs}
    cfg = None
    n_sub = 0
    for store in stores:
        srcs = {x.id for x in ast.walk(store.value) if isinstance(x, ast.Name) and x.id in params}
        # names ranging over the overlay's values: `for k, v in P.items()` / `for v in P.values()` in comprehensions or loops
        vals = set()
        gens = [g for c in ast.walk(store.value) if isinstance(c, (ast.ListComp, ast.SetComp, ast.DictComp, ast.GeneratorExp)) for g in c.generators]
        for g in gens:
            it = g.iter
            if isinstance(it, ast.Call) and isinstance(it.func, ast.Attribute) and isinstance(it.func.value, ast.Name) and it.func.value.id in srcs:
                if it.func.attr == "items" and isinstance(g.target, (ast.Tuple, ast.List)) and len(g.target.elts) == 2 and isinstance(g.target.elts[1], ast.Name):
                    vals.add(g.target.elts[1].id)
                elif it.func.attr == "values" and isinstance(g.target, ast.Name):
                    vals.add(g.target.id)
        def _idx(e):
            if isinstance(e, ast.UnaryOp) and isinstance(e.op, ast.USub) and type(const_value(e.operand, None)) is int:
                return -e.operand.value
            return e.value if type(const_value(e, None)) is int else None

        subs = [x for x in ast.walk(store.value) if isinstance(x, ast.Subscript) and isinstance(x.value, ast.Name) and x.value.id in vals and _idx(x.slice) is not None]
        for x in subs:
            n_sub += 1
            v, k = x.value.id, _idx(x.slice)
            need = k + 1 if k >= 0 else -k  # the length the read needs
            guards = _guard_context(x, store)
            cfg = cfg or CFG(init)
            nodes = cfg.nodes_of(store)
            if nodes:
                guards += list(facts_at(cfg, nodes[0]))
            # a test that does not mention the value cannot constrain its shape
            guards = [(t, pol) for t, pol in guards if any(isinstance(n_, ast.Name) and n_.id == v for n_ in ast.walk(t))]
            in_try = any(isinstance(a, ast.Try) and any(h.type is None or any(t in unparse(h.type) for t in ("IndexError", "LookupError", "Exception")) for h in a.handlers) and any(lexically_inside(x, b) for b in a.body) for a in ancestors(x))
            bad, undecided = None, None
            for is_list in (True, False):
                for ln in range(0, need + 3):
                    if not is_list or ln >= need:
                        continue  # the read itself is fine in this shape (a non-list is not what the unwrap is for)

                    def atoms(e, is_list=is_list, ln=ln):
                        if isinstance(e, ast.Call) and call_name(e) == "isinstance" and len(e.args) == 2 and unparse(e.args[0]) == v:
                            kinds = unparse(e.args[1])
                            return is_list if "list" in kinds else (None if is_list else None)
                        if isinstance(e, ast.Name) and e.id == v:
                            return ln > 0 if is_list else None
                        if isinstance(e, ast.Compare) and len(e.ops) == 1:
                            l, r = e.left, e.comparators[0]
                            lv = ln if unparse(l) == f"len({v})" else const_value(l, None)
                            rv = ln if unparse(r) == f"len({v})" else const_value(r, None)
                            if f"len({v})" in (unparse(l), unparse(r)) and isinstance(lv, int) and isinstance(rv, int):
                                op = e.ops[0]
                                table = {ast.Lt: lv < rv, ast.LtE: lv <= rv, ast.Gt: lv > rv, ast.GtE: lv >= rv, ast.Eq: lv == rv, ast.NotEq: lv != rv}
                                return table.get(type(op))
                        return None

                    res = [ev3(t, atoms) for t, pol in guards]
                    vals3 = [None if r is None else (r == pol) for r, (t, pol) in zip(res, guards)]
                    if any(b is False for b in vals3):
                        continue  # this shape never reaches the read
                    if all(b is True for b in vals3):
                        bad = bad or f"a list of {ln} word(s) reaches `{short(x)}`"
                    else:
                        undecided = undecided or f"a list of {ln} word(s): guard `{' and '.join(('' if pol else 'not ') + '(' + short(t, 40) + ')' for (t, pol), b in zip(guards, vals3) if b is None)}` not decided"
            if in_try:
                bad = undecided = None
            if bad is None and undecided is not None:
                raise AnalysisError(f"{st}: index safety of `{short(x)}` not decidable: {undecided}")
            ctx.ob("R6", st, f"`{short(x)}` on an overlay value is read only where the guard implies {need} element(s) exist (shapes enumerated: not a list; lists of 0..{need + 2} words)", bad is None, key=f"overlay-unwrap|{short(x)}|unguarded-index", where=loc(x), detail=bad)
    if not n_sub:
        # nothing is unwrapped by index: the clause holds vacuously, say so
        ctx.ob("R6", st, "no constant-index read of an overlay value in the normaliser", True, key="overlay-unwrap|none")


META = {
    "technique": "static analysis: who-may-write the variable store + CFG must-pass-through to the memo invalidation, alias-escape rule for the memoised mapping, contradiction rule over the Var/ENSURERS registry, guard dominance in detype",
    "text": "Decides the cache discipline and the registry pairing that the property rests on, for all histories of "
    "set/delete/swap: every statement in Env (and in every other class of environ.py that memoises `_detyped`, e.g. LsColors) that mutates the store (8 kinds of site) reaches `self._detyped = None` "
    "on every normal path (callable-default materialisation and the thread-local view installation are allow-listed "
    "with the reason checked structurally); the escape of a mutable stored value while the memo is trusted is "
    "reported (known finding); each of the ~35 explicitly registered (validate, convert, detype) triples pairs the "
    "converter with its confirmed detyper; detype exports a string only past the mask / no-detyper / None skips; "
    "the child's mapping is computed inside the per-command swap; a stage's `$X=1` overlay is read from `envs` at "
    "the stage's own position in the command list; the overlay normaliser's indexed reads are guarded for every shape of value (non-list, lists of 0..n words). Value-level round-trips are not decided.",
    "note": "Decides the listed structural clauses, not the behaviour. The converter->detyper table is frozen from "
    "reading tools.py/environ.py; a converter the table has never seen is reported in the evidence, not failed.",
    "more": "Also decided: the overlay's one-word unwrap indexes a value only where the guard implies the element exists for every shape of value; overlays stored in a loop over stages are created per iteration; Env.detype() never hands out its memoised mapping itself. Mutations of the type registry drop the memo; the type-lookup methods keep no state on the Env. A scoped override that ends never unsets a variable that was set before (the 'absent' marker only on evidence of absence); every value in the store passed its converter (no raw store outside _set_item).",
}

META["more"] += " Handing out a mutable container drops the memo under the mutable-container test alone (the type tuple may be a module constant). Dropping the private copy of a key recorded at capture time as 'had no private entry' is not an unset."
