"""C01.R10 — record-valued nonterminals: no field is dropped in transit.

Some semantic values are small dicts ({"comps": [...], "if": [...]} for comprehension
clauses, {"args": .., "keywords": ..} for call arguments, {"from": .., "val": ..}).  The
fields a nonterminal can carry are computed from the actions (dict displays assigned to
p[0], `p0["k"] = ..` stores, pass-through `p[0] = p[i]`, fixpoint over the effective
grammar).  An action that receives such a child must, on every path on which the child
is not known to be None (or the field not known to be absent), read each field the child
can carry — or hand the whole child on.  A field that is not read is syntax the user
wrote that never reaches the tree.
"""

from __future__ import annotations

import ast

from .common import *
from ..engine import dataflow as df
from ..engine.cfg import CFG, implied_facts


def _p_index(e):
    """i for the expression `p[i]` (constant i > 0), else None"""
    if isinstance(e, ast.Subscript) and isinstance(e.value, ast.Name) and e.value.id == "p":
        v = const_value(e.slice)
        if isinstance(v, int) and not isinstance(v, bool):
            return v
    return None


def _def_value(d):
    """the expression bound by a Def (element of a matching tuple for unpacking)"""
    if d.kind == "unpack":
        if isinstance(d.value, (ast.Tuple, ast.List)) and d.index is not None and d.index < len(d.value.elts):
            return d.value.elts[d.index]
        return None
    return d.value if d.kind in ("assign", "walrus") else None


def _p0_values(fn, defs):
    """expressions assigned to p[0] in fn, with one level of local names resolved"""
    out = []
    for n in walk_local(fn):
        if isinstance(n, ast.Assign) and any(_p_index(t) == 0 for t in n.targets):
            v = n.value
            if isinstance(v, ast.Name) and v.id in defs:
                vals = [_def_value(d) for d in defs[v.id]]
                out += [(x, v.id) for x in vals if x is not None]
            else:
                out.append((v, None))
    return out


def record_keys(bodies, prods_of):
    """lhs -> set of field names, for nonterminals whose value is a dict record"""
    literal = {}  # func -> set(keys) when the action builds a dict display
    passthru = {}  # func -> set(index)
    for f, bl in bodies.items():
        for mod, fn in bl:
            defs = df.all_defs(fn)
            for v, via in _p0_values(fn, defs):
                if isinstance(v, ast.Dict) and all(isinstance(const_value(k), str) for k in v.keys if k is not None) and None not in v.keys:
                    ks = {const_value(k) for k in v.keys}
                    if via:
                        for n in walk_local(fn):
                            if isinstance(n, ast.Subscript) and isinstance(n.ctx, ast.Store) and isinstance(n.value, ast.Name) and n.value.id == via and isinstance(const_value(n.slice), str):
                                ks.add(const_value(n.slice))
                    literal.setdefault(f, set()).update(ks)
                else:
                    i = _p_index(v)
                    if i:
                        passthru.setdefault(f, set()).add(i)
    keys = {}
    for f, ks in literal.items():
        for p in prods_of.get(f, []):
            keys.setdefault(p["lhs"], set()).update(ks)
    changed = True
    while changed:
        changed = False
        for f, idxs in passthru.items():
            for p in prods_of.get(f, []):
                for i in idxs:
                    if i <= len(p["rhs"]) and p["rhs"][i - 1] in keys:
                        new = keys[p["rhs"][i - 1]] - keys.get(p["lhs"], set())
                        if new:
                            keys.setdefault(p["lhs"], set()).update(new)
                            changed = True
    return keys, literal, passthru


def check_records(ctx, bodies, prods_of):
    keys, literal, passthru = record_keys(bodies, prods_of)
    ctx.extra["record_nonterminals"] = {k: sorted(v) for k, v in sorted(keys.items())}
    n_sites = 0
    for f, bl in sorted(bodies.items()):
        ps = prods_of.get(f, [])
        # indexes at which some production of this action has a record child
        rec_at = {}
        for p in ps:
            for i, sym in enumerate(p["rhs"], 1):
                if sym in keys:
                    rec_at.setdefault(i, set()).update(keys[sym])
        if not rec_at:
            continue
        for mod, fn in bl:
            defs = df.all_defs(fn)
            # aliases: expression text -> field set
            alias = {}
            for i, ks in rec_at.items():
                alias[f"p[{i}]"] = set(ks)
            for name, ds in defs.items():
                for d in ds:
                    v = _def_value(d)
                    i = _p_index(v) if v is not None else None
                    if i in rec_at:
                        alias.setdefault(name, set()).update(rec_at[i])
            if not any(isinstance(n, ast.Subscript) and _p_index(n) in rec_at for n in walk_local(fn)) and not any(a in defs for a in alias):
                continue
            cfg = CFG(fn)
            for a, ks in sorted(alias.items()):
                occ = [n for n in walk_local(fn) if isinstance(n, (ast.Name, ast.Subscript)) and isinstance(getattr(n, "ctx", None), ast.Load) and unparse(n) == a]
                if not occ:
                    continue
                # classify occurrences
                reads = {}  # key -> set(stmt ids)
                whole = set()
                for n in occ:
                    par = parent(n)
                    st = enclosing_stmt(n)
                    if isinstance(par, ast.Subscript) and par.value is n and isinstance(const_value(par.slice), str):
                        reads.setdefault(const_value(par.slice), set()).add(id(st))
                    elif isinstance(par, ast.Attribute) and par.attr in ("get", "pop", "setdefault") and isinstance(parent(par), ast.Call) and parent(par).args and isinstance(const_value(parent(par).args[0]), str):
                        reads.setdefault(const_value(parent(par).args[0]), set()).add(id(st))
                    elif isinstance(par, ast.Compare) or (isinstance(par, ast.UnaryOp) and isinstance(par.op, ast.Not)) or isinstance(par, ast.BoolOp) or (isinstance(par, (ast.If, ast.IfExp, ast.While)) and par.test is n):
                        continue  # a test of the child, not a use of its content
                    elif isinstance(par, (ast.Assign, ast.Tuple)) and _is_alias_def(par, n, alias):
                        continue  # `p3 = p[3]`
                    else:
                        whole.add(id(st))
                if a.startswith("p[") and not reads and all(True for _ in ()) and not whole:
                    continue
                for k in sorted(ks):
                    n_sites += 1

                    def is_use(m, k=k):
                        sid = id(m.ast) if m.ast is not None else None
                        if m.kind in ("if", "while", "for"):
                            # the test/iter of a compound statement belongs to its header node
                            hdr = m.ast.test if m.kind in ("if", "while") else m.ast.iter
                            return any(unparse(x) == a and _reads_key(x, k) for x in ast.walk(hdr) if isinstance(x, (ast.Name, ast.Subscript)))
                        return sid in reads.get(k, ()) or sid in whole

                    def skip(x, y, label, k=k):
                        if x.kind in ("if", "while") and label in ("true", "false"):
                            for e, pol in implied_facts(x.ast.test, label == "true"):
                                t = unparse(e)
                                if (t == f"{a} is None" and pol) or (t == f"{a} is not None" and not pol) or (t == a and not pol):
                                    return True
                                if t in (f"'{k}' in {a}", f'"{k}" in {a}') and not pol:
                                    return True
                                if t in (f"'{k}' not in {a}", f'"{k}" not in {a}') and pol:
                                    return True
                        return False

                    ok, path = cfg.must_pass(cfg.entry, is_use, exits=("exit",), skip_edge=skip)
                    ctx.ob(
                        "R10",
                        f"{mod.rel}:{fn.name}",
                        f"field {k!r} of the record child `{a}` is read (or the child handed on whole) on every path on which it can be present",
                        ok,
                        key=f"{fn.name}|record-field-dropped|{a}|{k}",
                        where=loc(fn),
                        path=cfg.fmt_path(path) if path else None,
                    )
    return n_sites


def _reads_key(n, k):
    par = parent(n)
    if isinstance(par, ast.Subscript) and par.value is n and const_value(par.slice) == k:
        return True
    if isinstance(par, ast.Attribute) and par.attr in ("get", "pop") and isinstance(parent(par), ast.Call) and parent(par).args and const_value(parent(par).args[0]) == k:
        return True
    return False


def _is_alias_def(par, n, alias):
    """n (a `p[i]`) occurs as the value (element) of an assignment that defines an alias name"""
    top = par
    while isinstance(top, ast.Tuple):
        top = parent(top)
    if not isinstance(top, ast.Assign):
        return False
    names = [t.id for tt in top.targets for t in ast.walk(tt) if isinstance(t, ast.Name)]
    return any(nm in alias for nm in names)
