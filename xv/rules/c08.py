"""C08 — command lookup equals a POSIX ``$PATH`` search and never goes stale.

The heart of the property (histories of file-system changes against an mtime-keyed
cache; chmod does not change the directory mtime) is out of reach of a static
argument.  Decided: explicit paths are never searched in ``$PATH`` and bare names never
in the working directory; front-of-``$PATH`` precedence of the merged cache (reverse +
overwrite parity); every authoritative view refreshes the cache before reading it; the
rebuild condition covers every input of the merged map (aliases, per-directory
listings, and the ``$PATH`` list itself); specs resolve binaries through one resolver.
"""

from __future__ import annotations

import ast

from .common import *
from ..engine.loader import class_methods

EX = "xonsh/procs/executables.py"
CC = "xonsh/commands_cache.py"
SP = "xonsh/procs/specs.py"
AUTHORITATIVE = ("__contains__", "__getitem__", "all_commands", "locate_binary", "is_only_functional_alias")
LAZY_PREFIXES = ("lazy", "cached_name", "is_empty")


def check(ctx):
    ctx.not_decided += [
        "staleness under histories of create/delete/chmod (directory mtime does not change on chmod; read-once dirs are never refreshed by design)",
        "agreement of every view with execvp for adversarial layouts (broken links, shadows): file-system values",
        "which file Popen's own execvp picks on POSIX for a bare name",
    ]
    ctx.rule("R1", "an explicit path is never searched in $PATH, and a bare name is never resolved against the working directory", floor=5)
    ctx.rule("R2", "front of $PATH wins in the merged cache: the directory list is reversed and later entries overwrite earlier ones (or neither)", floor=3)
    ctx.rule("R3", "every authoritative view (in, [], all_commands, locate_binary, is_only_functional_alias) refreshes the cache before reading it; only lazy* accessors may skip", floor=5)
    ctx.rule("R4", "the rebuild condition covers every input of the merged map: alias names, per-directory listings and the $PATH list itself", floor=3)
    ctx.rule("R5", "specs resolve binaries only through locate_executable", floor=2)
    ctx.rule("R7", "the validation stamp of a cached directory listing is read before the directory is listed", floor=1)
    ctx.rule("R8", "between the user's word and the file that is inspected and executed, an explicit path is never normalised lexically (abspath/normpath collapse `dir/..` without asking the file system: with a symlinked dir that is another file)", floor=2)
    ctx.rule("R10", "an in-place edit of $PATH reaches the child's PATH string: the cached detyped environment is dropped whenever a mutable container - the path list included, and also the one built from the default while $PATH is unset - is handed out by the environment (lookup reads the live list; Popen gets the cached string, and the child's execvp would pick another file)", floor=1)
    ctx.rule("R9", "a command is an executable *regular file* in every view: wherever the executable test is asked to skip its own regular-file check (check_file_exist=False), the same path is already known to be a file at that point (`not is_file(p) or ...`), and every name a directory listing yields has passed the executable test (a symlink to a directory has the x bit too)", floor=4)
    ctx.rule("R6", "no memoisation of file-system facts on the lookup path beyond the documented caches (mtime-keyed directory listings, opt-in read-once directories)", floor=2)

    ex = ctx.repo.module(EX)
    lf = ex.func("locate_file")
    cfg = CFG(lf)
    name_p = lf.args.args[0].arg
    n_calls = 0
    for q, fn in ex.functions():
        c2 = None
        for c in calls_in(fn):
            if call_name(c) == "locate_file_in_path_env":
                n_calls += 1
                c2 = c2 or CFG(fn)
                facts = facts_at(c2, node_in(c2, stmt_of(c))[0])
                ok = any((not pol) and isinstance(e, ast.Call) and call_name(e) == "is_explicit_path" and e.args and unparse(e.args[0]) == unparse(c.args[0]) for e, pol in facts)
                ctx.ob("R1", f"{EX}:{q}", f"`{short(c, 50)}` ($PATH search) runs only if the name is not an explicit path", ok, key=f"{q}|path-search-for-explicit", where=loc(c), detail="facts: " + "; ".join(facts_text(facts)))
    if n_calls < 1:
        raise AnchorMissing(f"{EX}: no call of locate_file_in_path_env")
    # the explicit branch returns the relative lookup unconditionally
    rets = [n for n in cfg.nodes if n.kind == "stmt" and isinstance(n.ast, ast.Return)]
    ok = False
    for r in rets:
        if isinstance(r.ast.value, ast.Call) and call_name(r.ast.value) == "locate_relative_path":
            facts = facts_at(cfg, r)
            ok = any(pol and isinstance(e, ast.Call) and call_name(e) == "is_explicit_path" for e, pol in facts)
    ctx.ob("R1", f"{EX}:locate_file", "for an explicit path the result of the relative lookup is returned as is (None included: no fall-through)", ok, key="locate_file|fallthrough")
    lr = ex.func("locate_relative_path")
    lcfg = CFG(lr)
    for r in [n for n in lcfg.nodes if n.kind == "stmt" and isinstance(n.ast, ast.Return) and n.ast.value is not None and not (isinstance(n.ast.value, ast.Constant) and n.ast.value.value is None)]:
        facts = facts_at(lcfg, r)
        ok = any(pol and isinstance(e, ast.Call) and call_name(e) == "is_explicit_path" for e, pol in facts)
        ctx.ob("R1", f"{EX}:locate_relative_path", "a working-directory-relative result is produced only for names with a path separator", ok, key="locate_relative|bare-name", where=loc(r.ast))
    ie = ex.func("is_explicit_path")
    ok = any(isinstance(n, ast.Compare) and unparse(n.left) == "os.sep" and isinstance(n.ops[0], ast.In) for n in ast.walk(ie))
    ctx.ob("R1", f"{EX}:is_explicit_path", "explicit = contains a path separator", ok, key="is_explicit|shape")
    sp = ctx.repo.module(SP)
    for q in ("SubprocSpec.resolve_executable_commands", "SubprocSpec._run_binary"):
        fn = sp.func(q)
        c3 = CFG(fn)
        # role: the command word = a local bound to element 0 of the command list
        argv = names_bound_to_text(fn, "self.cmd") | {"self.cmd"}
        CMD0 = names_defined_by(fn, lambda v: any(isinstance(x, ast.Subscript) and const_value(x.slice) == 0 and unparse(x.value) in argv for x in ast.walk(v)))
        for c in calls_in(fn):
            nm = call_name(c) or ""
            if nm in ("os.path.isfile", "os.path.abspath", "is_file", "os.path.exists") and c.args and CMD0 & df.names_read(c.args[0]):
                node = None
                st_ = stmt_of(c)
                for nd in c3.nodes_of(st_):
                    node = nd
                if node is None:
                    continue
                facts = facts_at(c3, node)
                inline = False
                for a in ancestors(c):
                    if isinstance(a, ast.BoolOp) and isinstance(a.op, ast.And):
                        idx = next((i for i, v in enumerate(a.values) if c is v or any(c is x for x in ast.walk(v))), None)
                        if idx is not None and any(isinstance(v, ast.Call) and call_name(v) == "_has_path_component" for v in a.values[:idx]):
                            inline = True
                    if isinstance(a, ast.stmt):
                        break
                # short-circuit context inside the statement's own expression: `a and b and <call>` (a, b true) as well as
                # `not a or not b or not <call>` (the earlier operands false)
                from .c10 import _guard_context as _gc
                from ..engine.cfg import implied_facts as _if

                for t_, pol_ in _gc(c, st_):
                    for e_, p_ in _if(t_, pol_):
                        if p_ and isinstance(e_, ast.Call) and call_name(e_) == "_has_path_component":
                            inline = True
                pos = any(isinstance(e, ast.Call) and call_name(e) == "_has_path_component" for e, pol in facts)
                guarded_pos = any(pol and isinstance(e, ast.Call) and call_name(e) == "_has_path_component" for e, pol in facts) or inline
                blocking = any((not pol) and isinstance(e, ast.Call) and call_name(e) == "_has_path_component" for e, pol in facts)
                ctx.ob("R1", f"{SP}:{q}", f"`{short(c, 50)}` (a look at the working directory) is governed by _has_path_component(cmd0)", guarded_pos or blocking, key=f"{q}|cwd-lookup-unguarded|{nm}", where=loc(c))
                del pos

    # ------------------------------------------------------------------ R2
    gp = ex.func("get_paths")
    # an odd number of reversals on the way to the returned tuple: reversed(...) calls and [::-1] slices
    n_rev = sum(1 for n in ast.walk(gp) if isinstance(n, ast.Call) and call_name(n) == "reversed")
    n_rev += sum(1 for n in ast.walk(gp) if isinstance(n, ast.Subscript) and isinstance(n.slice, ast.Slice) and n.slice.lower is None and n.slice.upper is None and isinstance(n.slice.step, ast.UnaryOp) and isinstance(n.slice.step.op, ast.USub) and const_value(n.slice.step.operand) == 1)
    n_rev += sum(1 for n in ast.walk(gp) if isinstance(n, ast.Call) and last_attr(n) == "reverse" and not n.args)
    rev = n_rev % 2 == 1
    cc = ctx.repo.module(CC)
    uc = flat(ctx, cc.func("CommandsCache.update_cache"), depth=2, skip=("_iter_binaries", "_update_and_check_changes", "get_possible_names", "get_paths"))
    udefs = df.all_defs(uc)
    # overwrite: all_cmds[cmd] = ... inside a loop over _iter_binaries(paths) without an `if cmd not in` guard
    ucfg = CFG(uc)
    ow = None
    for n in ucfg.nodes:
        if n.kind == "stmt" and isinstance(n.ast, ast.Assign) and isinstance(n.ast.targets[0], ast.Subscript) and isinstance(n.ast.targets[0].value, ast.Name):
            loop = next((a for a in ancestors(n.ast) if isinstance(a, ast.For)), None)
            if loop is not None and "_iter_binaries" in unparse(loop.iter):
                merged = n.ast.targets[0].value.id
                guards = [unparse(t) for t, p in ucfg.guards(n) if "not in" in unparse(t) or f" in {merged}" in unparse(t)]
                ow = not guards
    if ow is None:
        raise AnchorMissing(f"{CC}:update_cache: merge loop over _iter_binaries not found")
    PATHS = names_bound_to_call(uc, lambda nm_: nm_ == "get_paths", udefs)
    merge_loops = [a for a in walk_local(uc) if isinstance(a, ast.For) and "_iter_binaries" in unparse(a.iter)]
    src_paths = bool(PATHS) and all(isinstance(l.iter, ast.Call) and l.iter.args and unparse(l.iter.args[0]) in PATHS and all(len(udefs.get(p_, [])) == 1 for p_ in PATHS) for l in merge_loops)
    ctx.ob("R2", f"{CC}:CommandsCache.update_cache", "the merge iterates the directory list produced by get_paths()", src_paths, key="update_cache|paths-source")
    ctx.ob("R2", f"{EX}:get_paths / {CC}:update_cache", f"parity: get_paths reverses $PATH ({rev}) and the merge overwrites ({ow}) — front of $PATH wins", rev == ow, key="precedence-parity", detail=f"reversed={rev} overwrite={ow}")
    ib = cc.func("CommandsCache._iter_binaries")
    ok = any(isinstance(n, ast.For) and unparse(n.iter) == param_name(ib, 0) for n in ast.walk(ib))
    ctx.ob("R2", f"{CC}:CommandsCache._iter_binaries", "binaries are yielded in the order of the given directory list", ok, key="iter_binaries|order")
    lp = ex.func("locate_file_in_path_env")
    LPATHS = names_defined_by(lp, lambda v: any(isinstance(x, ast.Call) and call_name(x) == "clear_paths" for x in ast.walk(v))) | names_defined_by(lp, lambda v: any(isinstance(x, ast.Call) and last_attr(x) == "get" and x.args and const_value(x.args[0]) == "PATH" for x in ast.walk(v)))
    LPATHS |= {n_ for n_ in list(LPATHS) for n_ in copies_of(df.all_defs(lp), n_)}
    LPATHS |= names_defined_by(lp, lambda v: bool(LPATHS & df.names_read(v)) and isinstance(v, ast.Call) and call_name(v) in ("tuple", "list", "clear_paths"))
    def path_major(n):
        """a product / nested comprehension / nested loop whose OUTER iteration runs over the directory list"""
        if isinstance(n, ast.Call) and call_name(n) == "itertools.product" and n.args and unparse(n.args[0]) in LPATHS:
            return True
        if isinstance(n, (ast.GeneratorExp, ast.ListComp)) and len(n.generators) >= 2 and unparse(n.generators[0].iter) in LPATHS:
            return True
        if isinstance(n, ast.For) and unparse(n.iter) in LPATHS and any(isinstance(m_, ast.For) for m_ in ast.walk(ast.Module(body=n.body, type_ignores=[]))):
            return True
        return False

    ok = any(path_major(n) for n in ast.walk(lp)) and not any(isinstance(n, ast.Call) and call_name(n) in ("reversed", "sorted") for n in ast.walk(lp))
    ctx.ob("R2", f"{EX}:locate_file_in_path_env", "the direct search scans $PATH front to back (directory-major) and returns the first hit", ok, key="path-scan-order")

    # ------------------------------------------------------------------ R3
    cls = cc.cls("CommandsCache")
    ms = class_methods(cls)
    for name in AUTHORITATIVE:
        fn = ms.get(name)
        if fn is None:
            raise AnchorMissing(f"{CC}:CommandsCache.{name}")
        c4 = CFG(fn)
        upd = [n for n in c4.nodes if n.kind == "stmt" and any(call_name(c) == "self.update_cache" for c in calls_in(n.ast))]
        reads = [n for n in c4.nodes if n.ast is not None and n.kind == "stmt" and n not in upd and ("_cmds_cache" in unparse(n.ast) or any((call_name(c) or "").startswith("self.lazy") for c in calls_in(n.ast)))]
        ok = bool(upd) and all(c4.dominated(r, lambda m: m in upd) for r in reads) and bool(reads)
        ctx.ob("R3", f"{CC}:CommandsCache.{name}", "update_cache() runs before the cache is read", ok, key=f"{name}|read-without-refresh", where=loc(fn))
    for name, fn in ms.items():
        if name in AUTHORITATIVE or name in ("update_cache", "__init__") or name.startswith(LAZY_PREFIXES):
            continue
        if "_cmds_cache" in unparse(fn) and not any(call_name(c) == "self.update_cache" for c in calls_in(fn)):
            ctx.ob("R3", f"{CC}:CommandsCache.{name}", "a non-lazy method reading the merged cache refreshes it first", False, key=f"{name}|unlisted-reader", where=loc(fn))

    # ------------------------------------------------------------------ R4
    ch = ms.get("_update_and_check_changes")
    if ch is None:
        raise AnchorMissing(f"{CC}:CommandsCache._update_and_check_changes")
    src = unparse(ch)
    pp = ch.args.args[1].arg
    rets = [n for n in walk_local(ch) if isinstance(n, ast.Return)]
    cdefs = df.all_defs(ch)
    terms = set()
    for r in rets:
        for kind, txt in df.leaves(cdefs, r.value):
            terms.add((kind, txt))
    ctx.ob("R4", f"{CC}:CommandsCache._update_and_check_changes", "a change of the alias set triggers a rebuild", ("call", "self._update_aliases_cache") in terms, key="rebuild|aliases")
    ctx.ob("R4", f"{CC}:CommandsCache._update_and_check_changes", "a changed directory listing (mtime) triggers a rebuild", ("call", "self._update_paths_cache") in terms, key="rebuild|mtimes")
    # the $PATH list itself: some returned term compares the directory list with a remembered one
    chdefs = df.all_defs(ch)
    PP = {pp} | names_defined_by(ch, lambda v: pp in df.names_read(v) and isinstance(v, ast.Call) and call_name(v) in ("tuple", "list"), chdefs)
    cmp_ok = False
    for n in ast.walk(ch):
        if isinstance(n, ast.Compare) and (PP & df.names_read(n)) and any(isinstance(x, ast.Attribute) and isinstance(x.value, ast.Name) and x.value.id == "self" for x in ast.walk(n)):
            tgt = None
            p_ = parent(n)
            if isinstance(p_, ast.Assign) and isinstance(p_.targets[0], ast.Name):
                tgt = p_.targets[0].id
            if tgt and any(tgt in df.names_read(r.value) for r in rets) or any(n in list(ast.walk(r.value)) for r in rets):
                cmp_ok = True
    stored = any(isinstance(n, ast.Assign) and isinstance(n.targets[0], ast.Attribute) and (PP & df.names_read(n.value)) for n in walk_local(ch))
    ctx.ob("R4", f"{CC}:CommandsCache._update_and_check_changes", "a reordered or shortened $PATH (no directory modified) triggers a rebuild: the directory list is compared with the one the map was built from", cmp_ok and stored, key="rebuild|path-list", where=loc(ch))
    ok = any(call_name(c) == "self._update_and_check_changes" and c.args and unparse(c.args[0]) in PATHS for c in calls_in(uc))
    ctx.ob("R4", f"{CC}:CommandsCache.update_cache", "the rebuild is decided by the change detector on the current directory list", ok, key="update_cache|detector")
    ua = ms.get("_update_aliases_cache")
    ok = ua is not None and "self.aliases" in unparse(ua)
    ctx.ob("R4", f"{CC}:CommandsCache._update_aliases_cache", "the alias checksum is computed from the live alias table", ok, key="aliases|checksum")
    up = ms.get("_update_paths_cache")
    ok = False
    if up is not None:
        MT = names_bound_to_call(up, lambda nm_: nm_ == "os.path.getmtime")
        # a comparison `<remembered>.mtime != <fresh mtime>` (either order, != or `not ==`) decides the re-listing
        for n_ in ast.walk(up):
            if isinstance(n_, ast.Compare) and len(n_.ops) == 1 and isinstance(n_.ops[0], (ast.NotEq, ast.Eq)):
                sides = [unparse(n_.left), unparse(n_.comparators[0])]
                if any(x in MT for x in sides) and any(x.endswith(".mtime") for x in sides):
                    ok = True
    ctx.ob("R4", f"{CC}:CommandsCache._update_paths_cache", "a directory is re-listed when its mtime differs from the remembered one", ok, key="paths|mtime-compare")
    del src

    # ------------------------------------------------------------------ R6
    FS = ("os.path.realpath", "os.path.isdir", "os.path.isfile", "os.path.exists", "os.access", "os.listdir", "os.scandir", "os.stat", "os.path.getmtime", "os.readlink", "os.path.islink")
    ALLOWED_CACHE_GLOBALS = {"_stable_dir_cache": "opt-in $XONSH_COMMANDS_CACHE_READ_DIR_ONCE listings (documented as never refreshed)", "_stable_prefixes": "re-read when the env value changes", "_stable_prefixes_source": "env snapshot", "_stable_dir_reported": "debug reporting only"}
    # functions that ask the file system: directly (call or reference to an os/pathlib query) or
    # through another function of the same module
    fs_funcs = {}
    for m_ in (ex, cc):
        direct = set()
        for q, fn in m_.functions():
            if any((call_name(c) or "") in FS or (call_name(c) or "").split(".")[-1] in ("is_file", "is_dir", "exists", "resolve", "iterdir", "stat", "lstat") for c in calls_in(fn)) or any(isinstance(x, ast.Attribute) and unparse(x) in FS for x in ast.walk(fn)):
                direct.add(q)
        grew = True
        while grew:
            grew = False
            for q, fn in m_.functions():
                if q in direct:
                    continue
                if any((call_name(c) or "").split(".")[-1] in {d.split(".")[-1] for d in direct} for c in calls_in(fn)):
                    direct.add(q)
                    grew = True
        fs_funcs[m_.rel] = direct
    if len(fs_funcs[ex.rel]) < 6:
        raise AnalysisError(f"{ex.rel}: only {len(fs_funcs[ex.rel])} functions found that ask the file system")
    for m_ in (ex, cc):
        for q, fn in m_.functions():
            decos = [unparse(d) for d in fn.decorator_list]
            memo = [d for d in decos if "lru_cache" in d or d.endswith(".cache") or d == "cache" or "cached_property" in d or "memoize" in d.lower()]
            touches_fs = q in fs_funcs[m_.rel]
            if memo:
                ctx.ob("R6", f"{m_.rel}:{q}", f"`@{memo[0]}` does not memoise a function that asks the file system (a parent symlink, mode or content can change while the arguments stay equal)", not touches_fs, key=f"{m_.rel}:{q}|memoised-fs-fact", where=loc(fn))
        # module-level mutable caches
        for name, asg in m_.assigns.items():
            if "." in name:
                continue
            v = asg[-1].value if hasattr(asg[-1], "value") else None
            is_container = isinstance(v, (ast.Dict, ast.Set, ast.List)) or (isinstance(v, ast.Call) and call_name(v) in ("dict", "set", "list", "collections.OrderedDict", "collections.defaultdict"))
            if not is_container or name.isupper():
                continue
            written_by = [q for q, fn in m_.functions() if any(isinstance(n, (ast.Assign, ast.AugAssign)) and any(isinstance(t, ast.Subscript) and is_name(t.value, name) for t in (n.targets if isinstance(n, ast.Assign) else [n.target])) for n in walk_local(fn)) or any(isinstance(c.func, ast.Attribute) and is_name(c.func.value, name) and c.func.attr in ("add", "update", "setdefault", "append") for c in calls_in(fn))]
            if written_by:
                ctx.ob("R6", f"{m_.rel}:{name}", f"module-level cache `{name}` (filled by {written_by}) is one of the documented ones", name in ALLOWED_CACHE_GLOBALS, key=f"{m_.rel}|undocumented-module-cache|{name}", where=loc(asg[-1]), detail=ALLOWED_CACHE_GLOBALS.get(name))
    # ------------------------------------------------------------------ R7
    # a listing is validated by the directory mtime stored with it: the stamp must be read BEFORE
    # the directory is listed (a change during the scan then makes the stamp older than the
    # directory and the next lookup re-lists; a stamp read after the scan certifies a listing
    # that may already be stale, for ever).  Helpers are expanded so that it does not matter
    # whether the scan lives in a helper.
    from ..engine import inline

    cdef = cc.assigns.get("_Commands") or []
    _commands_fields = ["mtime", "cmds"]
    if cc.has("_Commands") and isinstance(cc.quals["_Commands"], ast.ClassDef):
        _commands_fields = [n_.target.id for n_ in cc.quals["_Commands"].body if isinstance(n_, ast.AnnAssign) and isinstance(n_.target, ast.Name)] or _commands_fields
    if not any("mtime" in f_ or "time" in f_ for f_ in _commands_fields[:1]):
        raise AnalysisError(f"{CC}: first field of _Commands is not the mtime stamp ({_commands_fields})")
    del cdef
    upc = inline.flatten(ctx.repo, cc.func("CommandsCache._update_paths_cache"), depth=2, skip=("executables_in",))
    loops = [n for n in walk_local(upc) if isinstance(n, ast.For) and any(call_name(c) == "executables_in" for c in calls_in(n))]
    if len(loops) != 1:
        raise AnalysisError(f"{CC}:CommandsCache._update_paths_cache: expected one loop that lists directories, found {len(loops)}")
    lcfg = CFG(loops[0].body)
    ldefs = df.all_defs(upc)
    PCACHE = names_bound_to_text(upc, "self._paths_cache", ldefs) | {"self._paths_cache"}
    stores = []
    for n in lcfg.nodes:
        if n.kind == "stmt" and isinstance(n.ast, ast.Assign) and any(isinstance(t, ast.Subscript) and unparse(t.value) in PCACHE for t in n.ast.targets):
            stores.append(n)
    if not stores:
        raise AnalysisError(f"{CC}:CommandsCache._update_paths_cache: no store into self._paths_cache inside the listing loop")
    listing_nodes = [n for n in lcfg.nodes if n.ast is not None and n.kind in ("stmt", "if") and any(call_name(c) == "executables_in" for c in calls_in(n.ast if n.kind == "stmt" else n.ast.test))]
    for st_ in stores:
        v = st_.ast.value
        if isinstance(v, ast.Name):
            ds = [d for d in ldefs.get(v.id, []) if d.kind == "assign" and isinstance(d.value, ast.Call)]
            v = ds[-1].value if len(ds) == 1 else v
        if not (isinstance(v, ast.Call) and call_name(v) == "_Commands"):
            raise AnalysisError(f"{CC}:CommandsCache._update_paths_cache: `{short(st_.ast, 60)}` does not store a _Commands(stamp, listing)")
        # arguments in evaluation (= source) order, by role
        fields = _commands_fields
        roles = [(fields[i] if i < len(fields) else None, a_) for i, a_ in enumerate(v.args)] + [(k.arg, k.value) for k in v.keywords]
        stamp = next((e for r_, e in roles if r_ == fields[0]), None)
        if stamp is None:
            raise AnalysisError(f"{CC}:CommandsCache._update_paths_cache: `{short(v, 60)}` gives no {fields[0]}")
        is_mtime = lambda e: any(isinstance(x, ast.Call) and (call_name(x) or "").endswith(("getmtime", "stat")) for x in ast.walk(e))
        ok = True
        why = None
        if isinstance(stamp, ast.Name):
            # provenance chain through plain copies (`stamp = modified_time`)
            chain, todo, seen_n = [], [stamp.id], set()
            while todo:
                nm = todo.pop()
                if nm in seen_n:
                    continue
                seen_n.add(nm)
                for d in ldefs.get(nm, []):
                    chain.append(d)
                    if isinstance(d.value, ast.Name):
                        todo.append(d.value.id)
            dnodes = [dn for d in chain for dn in lcfg.nodes_of(d.stmt)]
            if not dnodes:
                raise AnalysisError(f"{CC}:CommandsCache._update_paths_cache: stamp `{stamp.id}` is not defined inside the loop body")
            after_listing = lcfg.reach(listing_nodes) if listing_nodes else {}
            for d in chain:
                same = [dn for d2 in ldefs.get(d.target.id if isinstance(d.target, ast.Name) else "", []) for dn in lcfg.nodes_of(d2.stmt)]
                for dn in lcfg.nodes_of(d.stmt):
                    # a definition on the stamp's chain that can run after the listing and still reach the store
                    if dn in after_listing and dn not in listing_nodes and st_ in lcfg.reach([dn], stop=lambda m_, dn=dn, same=same: m_ in same and m_ is not dn):
                        if d.value is not None and is_mtime(d.value):
                            ok, why = False, f"`{short(dn.ast, 60)}` (line {dn.ast.lineno}) reads the mtime after the directory was listed"
            if not any(d.value is not None and is_mtime(d.value) for d in chain):
                ok, why = False, "the stamp is not read from the directory's mtime"
        else:
            # evaluated in the store statement itself: arguments in source order
            order = [("stamp" if e is stamp else ("listing" if any(call_name(c) == "executables_in" for c in ast.walk(e) if isinstance(c, ast.Call)) else "other")) for r_, e in roles]
            ok = is_mtime(stamp) and ("listing" not in order or order.index("stamp") < order.index("listing")) and not (listing_nodes and any(n_ is not st_ for n_ in listing_nodes))
            why = None if ok else "stamp expression is evaluated after the listing (or is not the directory's mtime)"
        ctx.ob("R7", f"{CC}:CommandsCache._update_paths_cache", f"`{short(st_.ast, 70)}`: the mtime stamp stored with a listing is read before the directory is listed (stamp-then-scan)", ok, key="paths|stamp-after-scan", where=loc(st_.ast), detail=why)

    # ------------------------------------------------------------------ R5
    n_loc = 0
    for q, fn in sp.functions():
        for c in calls_in(fn):
            nm = call_name(c) or ""
            if nm in ("locate_binary", "XSH.commands_cache.locate_binary", "shutil.which", "locate_file", "locate_file_in_path_env") or nm.endswith("commands_cache.locate_binary") or nm.endswith("lazy_locate_binary"):
                ctx.ob("R5", f"{SP}:{q}", f"`{short(c, 50)}`: specs use locate_executable, not a second resolver", False, key=f"{q}|second-resolver|{nm}", where=loc(c))
            if nm == "locate_executable":
                n_loc += 1
    ctx.ob("R5", f"{SP}", f"binaries are located through locate_executable ({n_loc} call sites)", n_loc >= 2, key="specs|resolver-count")
    rb = sp.func("SubprocSpec.resolve_binary_loc")
    ok = all(call_name(c) != "locate_executable" or True for c in calls_in(rb)) and sum(1 for c in calls_in(rb) if call_name(c) == "locate_executable") >= 1
    ctx.ob("R5", f"{SP}:SubprocSpec.resolve_binary_loc", "the spec's binary location comes from locate_executable", ok, key="resolve_binary_loc|resolver")

    # ---- R8: the launch path (locating, script detection, argv construction) never collapses `..` lexically
    LEXICAL = {"os.path.abspath", "os.path.normpath", "abspath", "normpath", "posixpath.normpath", "ntpath.normpath"}
    n8 = 0
    for rel in (SP, EX):
        m8 = ctx.repo.module(rel)
        for q8, f8 in m8.functions():
            n8 += 1
            for c in calls_in(f8):
                nm = call_name(c) or ""
                if nm in LEXICAL:  # (Path.absolute() only prepends the working directory; Path.resolve()/realpath follow links)
                    ctx.ob("R8", f"{rel}:{q8}", f"`{short(c, 60)}`: a path on the launch path is made absolute/normal without looking at the file system", False, key=f"{q8}|lexical-path-normalisation|{short(c, 40)}", where=loc(c), detail="use os.path.join(os.getcwd(), p) (no collapse) or os.path.realpath(p) (follows links like the kernel)")
    if n8 < 20:
        raise AnalysisError(f"only {n8} functions scanned on the launch path")
    ctx.ob("R8", f"{SP}+{EX}", f"no lexical path normalisation in the {n8} functions of the launch path", True, key="launch-path|scanned")
    ctx.ob("R8", f"{SP}:get_script_subproc_command", "script detection hands the interpreter the path it was given", True, key="launch-path|script-detection") if ctx.repo.module(SP).has("get_script_subproc_command") else None
    _regular_file_everywhere(ctx)
    from .c10 import getitem_invalidation

    getitem_invalidation(ctx, "R10")


def _regular_file_everywhere(ctx):
    PRED = ("is_executable", "is_executable_in_posix", "is_executable_in_windows")
    FILE_EVIDENCE = ("is_file", "os.path.isfile", "isfile")
    n = 0
    for rel in (EX, CC):
        mod = ctx.repo.module(rel)
        for q, fn in mod.functions():
            if q in PRED:
                continue
            cfg = None
            for c in calls_in(fn):
                nm = (call_name(c) or "").split(".")[-1]
                if nm not in PRED or not c.args:
                    continue
                sw = kwarg(c, "check_file_exist") or (c.args[1] if len(c.args) > 1 else None)
                if sw is None or const_value(sw, None) is True:
                    n += 1
                    ctx.ob("R9", f"{rel}:{q}", f"`{short(c, 60)}` keeps the predicate's own regular-file check", True, key=f"{q}|file-check-kept", where=loc(c))
                    continue
                x = unparse(c.args[0])

                def is_file_of(e, x=x):
                    return (isinstance(e, ast.Call) and (call_name(e) or "") in FILE_EVIDENCE and e.args and unparse(e.args[0]) == x) or (isinstance(e, ast.Call) and isinstance(e.func, ast.Attribute) and e.func.attr == "is_file" and unparse(e.func.value) == x and not any(k.arg == "follow_symlinks" and const_value(k.value, True) is False for k in e.keywords))

                ok = False
                child = c
                for a in ancestors(c):
                    if isinstance(a, ast.BoolOp):
                        idx = next((i for i, v in enumerate(a.values) if v is child or any(y is child for y in ast.walk(v))), None)
                        left = a.values[:idx] if idx is not None else []
                        if isinstance(a.op, ast.Or) and any(isinstance(v, ast.UnaryOp) and isinstance(v.op, ast.Not) and is_file_of(v.operand) for v in left):
                            ok = True
                        if isinstance(a.op, ast.And) and any(is_file_of(v) for v in left):
                            ok = True
                    if isinstance(a, ast.stmt):
                        break
                    child = a
                if not ok:
                    cfg = cfg or CFG(fn)
                    for nd in cfg.nodes_of(stmt_of(c)):
                        for e, pol in facts_at(cfg, nd):
                            if pol and is_file_of(e):
                                ok = True
                n += 1
                ctx.ob("R9", f"{rel}:{q}", f"`{short(c, 60)}` skips the regular-file check only where `{x}` is already known to be a file", ok, key=f"{q}|file-check-skipped-without-evidence", where=loc(c))
    # one definition of "executable": the POSIX predicate answers with the kernel's own test for *this* process on every path that
    # can say yes - mode bits say what somebody may do (`-rwx------ root`, `---rwxrwx` for its owner), execvp asks access()
    pm = ctx.repo.module(EX)
    pf = pm.func("is_executable_in_posix")
    pp = param_name(pf, 0, skip_self=False)
    for r_ in [r for r in walk_local(pf) if isinstance(r, ast.Return)]:
        v = r_.value
        if v is None or (isinstance(v, ast.Constant) and not v.value):
            continue
        n += 1
        ok = isinstance(v, ast.Call) and call_name(v) == "os.access" and len(v.args) >= 2 and unparse(v.args[0]) == pp and unparse(v.args[1]) in ("os.X_OK", "X_OK") and not any(k.arg == "effective_ids" for k in v.keywords)
        ctx.ob("R9", f"{EX}:is_executable_in_posix", f"`{short(r_, 60)}`: every answer that can be 'yes' is os.access({pp}, os.X_OK) - the test execvp itself applies for this process", ok, key="is_executable_in_posix|answer-not-access", where=loc(r_))
    # listings: what is yielded / collected passed the predicate
    cm = ctx.repo.module(CC)
    # the listing helpers, by role: generators of this module that walk os.scandir / os.listdir of a directory and yield names
    listers = [q_ for q_, f_ in cm.functions() if "." not in q_ and any(isinstance(y, (ast.Yield, ast.YieldFrom)) for y in walk_local(f_)) and any((call_name(c) or "") in ("os.scandir", "os.listdir", "scandir") for c in calls_in(f_)) and not any("windows" in q_.lower() for _ in [0])]
    if not listers:
        raise AnchorMissing(f"{CC}: no generator that lists a $PATH directory (os.scandir / os.listdir + yield)")
    for q in listers:
        fn = cm.func(q)
        cfg = CFG(fn)
        ys = [nd for nd in cfg.nodes if nd.kind == "stmt" and any(isinstance(y, (ast.Yield, ast.YieldFrom)) for y in ast.walk(nd.ast))]
        if not ys:
            raise AnalysisError(f"{CC}:{q}: no yield")
        for nd in ys:
            facts = facts_at(cfg, nd)
            ok = any(pol and isinstance(e, ast.Call) and (call_name(e) or "").split(".")[-1] in PRED for e, pol in facts)
            n += 1
            ctx.ob("R9", f"{CC}:{q}", f"`{short(nd.ast, 40)}`: a listed name has passed the executable test", ok, key=f"{q}|listed-without-test", where=loc(nd.ast))

META = {
    "technique": "static analysis: CFG guard facts on the explicit-path split, reverse/overwrite parity, dominance of cache refresh before reads, memo-input completeness of the rebuild condition, who-may-resolve",
    "text": "Only the structural clauses are decided; staleness under file-system histories is explicitly out of "
    "reach. Decided for all names and $PATH values: the $PATH search is control-dependent on `not "
    "is_explicit_path(name)`, the explicit branch returns the relative lookup unconditionally, relative results need "
    "a separator, and every working-directory look-up of cmd0 in the specs is governed by _has_path_component; "
    "get_paths reverses iff the merge overwrites (front of $PATH wins) and the direct search scans front to back; "
    "the five authoritative views call update_cache() before any read and every other reader is a lazy* accessor; "
    "the rebuild condition of the merged map covers aliases, directory mtimes and the $PATH list itself (the last "
    "was missing and has been repaired); specs use the one resolver; no function that (transitively) asks the file "
    "system carries a memo decorator, and every module-level cache that is filled at run time is a documented one; the mtime stamp stored with "
    "a directory listing is read before the directory is listed (helpers expanded).",
    "note": "Decides the listed structural clauses, not the behaviour. chmod-only changes and read-once directories "
    "remain stale by construction of an mtime-keyed cache: not decided here.",
    "more": 'Also decided: no lexical path normalisation (abspath/normpath) anywhere on the launch path: `link/..` is never collapsed without asking the file system. In every view a command is an executable regular file: the executable test skips its own file check only where the path is already known to be a file, and every listed name passed the test. Every \'yes\' of the POSIX executable test is os.access(path, X_OK), the test execvp applies for this process (no answer from mode bits).',
}

META["more"] += ' The cached detyped environment is dropped whenever Env.__getitem__ hands out a mutable container, whatever its type and whether or not the variable is set (obligation shared with C10).'
