"""C12.R1 helper — symbolic length accounting of the LazyJSON writer.

`_to_json_with_size` emits text and, in parallel, computes the offset at which every nested
value starts; the reader later seeks to those offsets.  The two must agree for every input,
which is a property of the *shape* of the arithmetic: inside one loop iteration the offset
handed to a recursive call must have advanced by exactly the length of the text emitted in
this iteration before that value, and by the length of the whole element (separator included)
at the end; the first element starts behind the opening literal.

The check interprets each container loop over a linear domain (symbols: the length results
`n_x` of the recursive calls; integers: literal lengths).  Two idioms are understood:

* incremental:  ``s += s_k + ": "`` ... (emission order = statement order)
* join:         ``parts.append(s_k + ": " + s_v)`` ... ``open + sep.join(parts) + close``

Anything else is reported as "cannot decide" (AnalysisError), never guessed.
"""

from __future__ import annotations

import ast

from .common import *


class Lin:
    """linear form: {symbol: coef} + const"""

    def __init__(self, syms=None, const=0):
        self.s = dict(syms or {})
        self.c = const

    def __add__(self, o):
        r = Lin(self.s, self.c + o.c)
        for k, v in o.s.items():
            r.s[k] = r.s.get(k, 0) + v
        return r

    def __eq__(self, o):
        a = {k: v for k, v in self.s.items() if v}
        b = {k: v for k, v in o.s.items() if v}
        return a == b and self.c == o.c

    def __repr__(self):
        parts = [f"{v}*{k}" if v != 1 else k for k, v in sorted(self.s.items()) if v]
        if self.c or not parts:
            parts.append(str(self.c))
        return " + ".join(parts)


def _lin_int(e, ints):
    """integer expression -> Lin over the length symbols (names in ``ints`` are symbols)"""
    if isinstance(e, ast.Constant) and isinstance(e.value, int) and not isinstance(e.value, bool):
        return Lin(const=e.value)
    if isinstance(e, ast.Name) and e.id in ints:
        return Lin({e.id: 1})
    if isinstance(e, ast.BinOp) and isinstance(e.op, ast.Add):
        a, b = _lin_int(e.left, ints), _lin_int(e.right, ints)
        return None if a is None or b is None else a + b
    if isinstance(e, ast.Call) and call_name(e) == "len" and len(e.args) == 1:
        if isinstance(e.args[0], ast.Constant) and isinstance(e.args[0].value, str):
            return Lin(const=len(e.args[0].value))
    return None


def _pieces(e, strs):
    """string expression -> [('sym', name) | ('lit', text)] in order, or None"""
    if isinstance(e, ast.Constant) and isinstance(e.value, str):
        return [("lit", e.value)]
    if isinstance(e, ast.Name) and e.id in strs:
        return [("sym", e.id)]
    if isinstance(e, ast.BinOp) and isinstance(e.op, ast.Add):
        a, b = _pieces(e.left, strs), _pieces(e.right, strs)
        return None if a is None or b is None else a + b
    if isinstance(e, ast.JoinedStr):
        out = []
        for v in e.values:
            if isinstance(v, ast.Constant):
                out.append(("lit", str(v.value)))
            elif isinstance(v, ast.FormattedValue) and isinstance(v.value, ast.Name) and v.value.id in strs and v.conversion == -1 and v.format_spec is None:
                out.append(("sym", v.value.id))
            else:
                return None
        return out
    return None


def _len_of(pieces, len_sym):
    t = Lin()
    for k, v in pieces:
        t = t + (Lin({len_sym[v]: 1}) if k == "sym" else Lin(const=len(v)))
    return t


def check_container_loops(ctx, fn, rel, recursive_name):
    """obligations for every loop of fn that calls ``recursive_name`` with an offset"""
    n_loops = 0
    offset_p = next((a.arg for a in fn.args.args if a.arg == "offset"), None) or param_name(fn, 1, skip_self=False)
    for loop in [n for n in walk_local(fn) if isinstance(n, ast.For)]:
        calls = [s for s in loop.body if isinstance(s, ast.Assign) and isinstance(s.value, ast.Call) and (call_name(s.value) or "").split(".")[-1] == recursive_name]
        if not calls:
            continue
        n_loops += 1
        site = f"{rel}:{getattr(loop, '_xv_from', (None, fn.name))[1]}"
        # symbols: for `s_x, o_x, n_x, size_x = rec(..)`: string s_x has length n_x
        len_sym, ints, strs = {}, set(), set()
        offs_name = None
        for s in calls:
            t = s.targets[0]
            if not (isinstance(t, ast.Tuple) and len(t.elts) == 4 and all(isinstance(x, ast.Name) for x in t.elts)):
                raise AnalysisError(f"{site}: result of {recursive_name} is not unpacked into (text, offsets, length, sizes)")
            len_sym[t.elts[0].id] = t.elts[2].id
            strs.add(t.elts[0].id)
            ints.add(t.elts[2].id)
            off = kwarg(s.value, "offset") or (s.value.args[1] if len(s.value.args) > 1 else None)
            if not isinstance(off, ast.Name):
                raise AnalysisError(f"{site}: offset argument of the recursive call is not a plain variable")
            if offs_name not in (None, off.id):
                raise AnalysisError(f"{site}: recursive calls use different offset variables")
            offs_name = off.id
        # walk the iteration
        adv = Lin()  # offset advance since the start of the iteration
        emitted = []  # pieces emitted so far (incremental idiom)
        appended = None  # pieces of the element appended to a list (join idiom) and the list's name
        at_call = {}  # text symbol -> offset advance when its call was made
        acc_name = None
        for s in loop.body:
            if s in calls:
                at_call[s.targets[0].elts[0].id] = adv
                continue
            if isinstance(s, ast.AugAssign) and isinstance(s.op, ast.Add) and isinstance(s.target, ast.Name):
                if s.target.id == offs_name:
                    d = _lin_int(s.value, ints)
                    if d is None:
                        raise AnalysisError(f"{site}: cannot read the offset increment `{short(s)}`")
                    adv = adv + d
                    continue
                p = _pieces(s.value, strs)
                if p is not None and any(k == "sym" for k, _ in p) or (p is not None and acc_name == s.target.id):
                    acc_name = s.target.id
                    emitted += p
                    continue
            if isinstance(s, ast.Assign) and len(s.targets) == 1 and isinstance(s.targets[0], ast.Name) and s.targets[0].id == offs_name:
                # j = j + n_k + 2
                v = s.value
                d = None
                if isinstance(v, ast.BinOp) and isinstance(v.op, ast.Add):
                    full = _lin_int(v, ints | {offs_name})
                    if full is not None and full.s.get(offs_name) == 1:
                        full.s[offs_name] = 0
                        d = full
                if d is None:
                    raise AnalysisError(f"{site}: cannot read the offset update `{short(s)}`")
                adv = adv + d
                continue
            if isinstance(s, ast.Expr) and isinstance(s.value, ast.Call) and isinstance(s.value.func, ast.Attribute) and s.value.func.attr == "append" and len(s.value.args) == 1:
                p = _pieces(s.value.args[0], strs)
                if p is not None and any(k == "sym" for k, _ in p):
                    if appended is not None:
                        raise AnalysisError(f"{site}: two text elements appended per iteration")
                    appended = (p, unparse(s.value.func.value))
                    continue
        sep = None
        open_lit = None
        if appended is not None and not emitted:
            # join idiom: find `<open> + <sep>.join(<list>) + <close>` after the loop
            for n in walk_local(fn):
                if isinstance(n, ast.Call) and isinstance(n.func, ast.Attribute) and n.func.attr == "join" and isinstance(n.func.value, ast.Constant) and isinstance(n.func.value.value, str) and n.args and unparse(n.args[0]) == appended[1]:
                    sep = n.func.value.value
                    par = parent(n)
                    top = par
                    while isinstance(parent(top), ast.BinOp):
                        top = parent(top)
                    if isinstance(top, ast.BinOp):
                        flat_ops = []

                        def ops(e):
                            if isinstance(e, ast.BinOp) and isinstance(e.op, ast.Add):
                                ops(e.left)
                                ops(e.right)
                            else:
                                flat_ops.append(e)

                        ops(top)
                        if flat_ops and isinstance(flat_ops[0], ast.Constant) and isinstance(flat_ops[0].value, str) and flat_ops.index(n) == 1:
                            open_lit = flat_ops[0].value
            if sep is None or open_lit is None:
                raise AnalysisError(f"{site}: join idiom without a recognisable `open + sep.join(list) + close` assembly")
            seq = appended[0] + [("lit", sep)]
            idiom = "join"
        elif emitted and appended is None:
            seq = emitted
            idiom = "incremental"
            # opening literal: `acc = "<lit>"` before the loop, in the same block
            blk = parent(loop)
            for field in ("body", "orelse"):
                lst = getattr(blk, field, None)
                if isinstance(lst, list) and loop in lst:
                    for s in lst[: lst.index(loop)]:
                        if isinstance(s, ast.Assign) and is_name(s.targets[0], acc_name) and isinstance(const_value(s.value), str):
                            open_lit = const_value(s.value)
            if open_lit is None:
                raise AnalysisError(f"{site}: opening literal of `{acc_name}` not found before the loop")
        else:
            raise AnalysisError(f"{site}: neither the incremental nor the join idiom (emitted={bool(emitted)}, appended={appended is not None})")
        # (1) each nested value's offset = start of iteration + length of what precedes it in the element
        before = []
        for k, v in seq:
            if k == "sym" and v in at_call:
                want = _len_of(before, len_sym)
                got = at_call[v]
                ctx.ob("R1", site, f"[{idiom}] the offset handed down for `{v}` has advanced by the length of the text emitted before it in this iteration ({want!r})", got == want, key=f"{fn.name}|offset-at-call|{idiom}|{len(before)}", where=loc(loop), detail=f"advanced by {got!r}")
            before.append((k, v))
        missing = [v for v in at_call if ("sym", v) not in seq]
        ctx.ob("R1", site, f"[{idiom}] every nested text obtained in the iteration is emitted in it", not missing, key=f"{fn.name}|text-not-emitted|{idiom}", where=loc(loop), detail=str(missing) if missing else None)
        # (2) whole iteration: offset advance == element length (separator included)
        total = _len_of(seq, len_sym)
        ctx.ob("R1", site, f"[{idiom}] per iteration the offset advances by the length of the element and its separator ({total!r})", adv == total, key=f"{fn.name}|offset-per-iteration|{idiom}|{total!r}", where=loc(loop), detail=f"advances by {adv!r}")
        # (3) first element starts behind the opening literal
        init = None
        blk = parent(loop)
        for field in ("body", "orelse"):
            lst = getattr(blk, field, None)
            if isinstance(lst, list) and loop in lst:
                for s in lst[: lst.index(loop)]:
                    if isinstance(s, ast.Assign) and is_name(s.targets[0], offs_name):
                        init = _lin_int(s.value, {offset_p})
        ok = init is not None and init == Lin({offset_p: 1}, len(open_lit))
        ctx.ob("R1", site, f"[{idiom}] the first element is placed at offset + {len(open_lit)} (behind the opening {open_lit!r})", ok, key=f"{fn.name}|open-step|{open_lit}", where=loc(loop), detail=f"initial offset {init!r}")
        # (4) incremental idiom: the trailing separator is cut by exactly its length
        if idiom == "incremental":
            last_lit = seq[-1][1] if seq and seq[-1][0] == "lit" else None
            for n in walk_local(fn):
                if isinstance(n, ast.If) and isinstance(n.test, ast.Call) and last_attr(n.test) == "endswith" and unparse(n.test.func.value) == acc_name and parent(n) is parent(loop):
                    sp = const_value(n.test.args[0])
                    cut = [s for s in n.body if isinstance(s, ast.Assign) and isinstance(s.value, ast.Subscript) and isinstance(s.value.slice, ast.Slice)]
                    ok = bool(cut) and isinstance(cut[0].value.slice.upper, ast.UnaryOp) and const_value(cut[0].value.slice.upper.operand) == len(sp) and sp == last_lit
                    ctx.ob("R1", site, f"[incremental] the trailing separator {sp!r} is the one appended last and is removed by cutting exactly {len(sp)} characters", ok, key=f"{fn.name}|strip-sep|{sp!r}", where=loc(n))
    return n_loops
