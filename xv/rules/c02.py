"""C02 — Python wins when all names are bound.

Decided: the context-aware transformer has a binder visitor for every binding
construct the property lists, each derives the names it registers from exactly the
name-bearing fields of that construct and continues into the children; every
re-interpretation of Python text as a command is control-dependent on the scope test
for the same node; scope push/pop is paired on all paths; the whole input is compiled
before anything is executed.  Not decided: equality of the transformed tree with
CPython's for every program x context.
"""

from __future__ import annotations

import ast

from .common import *
from ..engine.loader import class_methods, class_assigns

AS = "xonsh/parsers/ast.py"
EX = "xonsh/execer.py"
CC = "xonsh/codecache.py"
BS = "xonsh/shells/base_shell.py"

# construct -> (name-bearing attribute names that must flow into the context update,
#               must the visitor continue into the children?)
BINDERS = {
    "Assign": ({"targets"}, True),
    "AnnAssign": ({"target"}, True),
    "NamedExpr": ({"target"}, True),
    "Import": ({"names", "asname", "name"}, False),
    "ImportFrom": ({"names", "asname", "name"}, False),
    "FunctionDef": ({"name", "posonlyargs", "args", "kwonlyargs", "vararg", "kwarg", "arg"}, True),
    "AsyncFunctionDef": ({"name", "posonlyargs", "args", "kwonlyargs", "vararg", "kwarg", "arg"}, True),
    "ClassDef": ({"name"}, True),
    "Lambda": ({"posonlyargs", "args", "kwonlyargs", "vararg", "kwarg", "arg"}, True),
    "For": ({"target"}, True),
    "AsyncFor": ({"target"}, True),
    "With": ({"items", "optional_vars"}, True),
    "AsyncWith": ({"items", "optional_vars"}, True),
    "Try": ({"handlers", "name"}, True),
    "TryStar": ({"handlers", "name"}, True),
    "Global": ({"names"}, False),
    "Delete": ({"targets"}, True),
}
CTX_MUTATORS = {"ctxadd", "ctxupdate", "ctxremove", "update", "add", "remove", "discard", "difference_update"}


def _resolve_visitor(cls, name):
    ms = class_methods(cls)
    if name in ms:
        return ms[name], name
    al = class_assigns(cls).get(name)
    seen = set()
    while isinstance(al, ast.Name) and al.id not in seen:
        seen.add(al.id)
        if al.id in ms:
            return ms[al.id], al.id
        al = class_assigns(cls).get(al.id)
    return None, None


PARAM_FIELDS = {"posonlyargs", "args", "kwonlyargs", "vararg", "kwarg", "arg"}
CTX_ADDERS = {"ctxadd", "ctxupdate", "add", "update"}


def _ctx_level(e, ctx_props):
    """the level of the scope stack an expression names: "top" (innermost: `self.contexts[-1]` or a read-only
    property returning it), an int (`self.contexts[1]`, `self._global_ctx`), "?" for another subscript of the
    stack, None if the expression is not a level of the stack at all"""
    k = None
    if isinstance(e, ast.Subscript) and unparse(e.value) == "self.contexts":
        s_ = e.slice
        k = -const_value(s_.operand, 0) if isinstance(s_, ast.UnaryOp) and isinstance(s_.op, ast.USub) else const_value(s_, None)
        if not isinstance(k, int) or isinstance(k, bool):
            return "?"
    elif isinstance(e, ast.Attribute) and unparse(e.value) == "self" and e.attr in ctx_props:
        k = ctx_props[e.attr]
        if not isinstance(k, int) or isinstance(k, bool):
            return "?"
    if k is None:
        return None
    return "top" if k == -1 else k


def _ctx_aliases(fn, ctx_props, defs=None):
    """locals that hold one level of the scope stack and nothing else (`scope = self.contexts[-1]`): name -> [Def]"""
    defs = defs if defs is not None else df.all_defs(fn)
    out = {}
    for n_, ds in defs.items():
        if "." not in n_ and ds and all(d.kind == "assign" and d.value is not None and _ctx_level(d.value, ctx_props) is not None for d in ds):
            out[n_] = ds
    return out


def _ctx_mutator_calls(fn, ctx_props, defs=None):
    """calls that change a scope of the context stack: the transformer's own ctx* helpers, a set method on a level of
    `self.contexts` (directly, through the property that names a level, or through a local holding a level)"""
    al = _ctx_aliases(fn, ctx_props, defs)
    out = []
    for c in calls_in(fn):
        if last_attr(c) not in CTX_MUTATORS or getattr(stmt_of(c), "_xv_call_marker", False):
            continue
        f = c.func
        if unparse(f).startswith("self.ctx") or unparse(f).startswith("self.contexts"):
            out.append(c)
        elif isinstance(f, ast.Attribute) and isinstance(f.value, ast.Attribute) and unparse(f.value.value) == "self" and f.value.attr in ctx_props:
            out.append(c)
        elif isinstance(f, ast.Attribute) and isinstance(f.value, ast.Name) and f.value.id in al:
            out.append(c)
    return out


def _field_provenance(fn, defs=None, cfg=None):
    """fields(expr, at=None) -> the attribute names the value of ``expr`` is derived from.  Local names are followed
    through all their definitions (assignment, unpacking, loop variable over a collection, with-target) and through
    the in-place growth of local collections (`xs.append(e)`, `xs.extend(es)`, `xs.add(e)`, `xs.update(es)`), so
    it does not matter whether the names are collected by one generator over a chain of lists or by nested loops.
    With a CFG and a use site ``at`` only definitions / growth statements from which the use can be reached count
    (a local that is reused later for something else does not leak backwards)."""
    defs = defs if defs is not None else df.all_defs(fn)
    grow = {}
    for c in calls_in(fn):
        if isinstance(c.func, ast.Attribute) and isinstance(c.func.value, ast.Name) and c.func.attr in ("update", "add", "append", "extend"):
            grow.setdefault(c.func.value.id, []).append(c)
    fwd = {}

    def reaches(stmt, at):
        if cfg is None or at is None:
            return True
        ns = cfg.nodes_of(stmt) if isinstance(stmt, ast.stmt) else []
        if not ns:
            return True  # a parameter, or a statement the CFG does not show on its own: keep (over-approximation)
        for n_ in ns:
            if id(n_) not in fwd:
                fwd[id(n_)] = set(cfg.reach([n_], include_starts=True))
            if at in fwd[id(n_)]:
                return True
        return False

    def fields(e, at=None):
        got, seen = set(), set()

        def absorb(x):
            for n in ast.walk(x):
                if isinstance(n, ast.Attribute):
                    got.add(n.attr)
                elif isinstance(n, ast.Name) and n.id not in seen and n.id != "self":
                    seen.add(n.id)
                    for d in defs.get(n.id, []):
                        if d.value is not None and reaches(d.stmt, at):
                            absorb(d.value)
                    for g in grow.get(n.id, []):
                        if reaches(stmt_of(g), at):
                            for a_ in g.args:
                                absorb(a_)

        absorb(e)
        return got

    return fields


def check(ctx):
    ctx.not_decided += [
        "that the transformed tree equals CPython's for every program and binding context",
        "match-statement captures and `type` aliases (the property does not list them)",
        "names bound only through exec/globals() manipulation",
    ]
    ctx.rule("R1", "a binder visitor exists for every binding construct of the running interpreter that the property lists, registers names derived from exactly the construct's name-bearing fields, and continues into the children", floor=30)
    ctx.rule("R2", "every re-interpretation of Python text as a command (try_subproc_toks) is control-dependent on `not is_in_scope(<the same node>)` (allow-list: documented opt-in and non-Python assignment targets)", floor=6)
    ctx.rule("R3", "scope push/pop is paired on every normal path of the function/class visitors; lambdas and comprehensions are exempt from command interpretation", floor=6)
    ctx.rule("R5", "the set of bound names given to the parser is computed at every compile from the live builtins module and the caller's namespaces", floor=2)
    ctx.rule("R6", "a pure-Python `and`/`or` keeps Python's meaning: the pass that wraps command chains in the raise-on-failure check wraps a BoolOp only on evidence found in that BoolOp's own subtree - the condition governing `_wrap(node)` is computed from `node`, not from a flag on the wrapper that other statements of the same input can raise", floor=1)
    ctx.rule("R4", "the whole input is compiled before anything is executed (no piecewise compile-and-run)", floor=4)

    mod = ctx.repo.module(AS)
    cls = mod.cls("CtxAwareTransformer")
    # read-only properties that name one level of the context stack (`_global_ctx` -> self.contexts[1])
    CTX_PROPS = {}
    for pn, pf in class_methods(cls).items():
        if any("property" in unparse(d) for d in pf.decorator_list):
            rs_ = [r for r in walk_local(pf) if isinstance(r, ast.Return) and r.value is not None]
            if len(rs_) == 1 and isinstance(rs_[0].value, ast.Subscript) and unparse(rs_[0].value.value) == "self.contexts":
                k_ = rs_[0].value.slice
                CTX_PROPS[pn] = -const_value(k_.operand, 0) if isinstance(k_, ast.UnaryOp) and isinstance(k_.op, ast.USub) else const_value(k_, None)
    for construct, (fields, descend) in BINDERS.items():
        if not hasattr(ast, construct):
            continue  # construct does not exist on the running interpreter
        fn, real = _resolve_visitor(cls, f"visit_{construct}")
        st = f"{AS}:CtxAwareTransformer.visit_{construct}"
        if fn is None and construct in ("Try", "TryStar"):
            # the clause may register its own name: `except E as n` handled where the handler is visited
            fn, real = _resolve_visitor(cls, "visit_ExceptHandler")
            if fn is not None:
                fields = {"name"}
                st = f"{AS}:CtxAwareTransformer.visit_ExceptHandler"
        if not ctx.ob("R1", st, f"a binder visitor for {construct} exists (names bound by it must keep later lines Python)", fn is not None, key=f"missing-visitor|{construct}", where=loc(cls)):
            continue
        # (the registration, or the collection of the names, may sit in a helper shared by several visitors: judge the expanded visitor)
        fn = flat(ctx, fn, 1, skip=("ctxadd", "ctxupdate", "ctxremove", "generic_visit", "visit"))
        # names registered: arguments of the context mutators, traced back through local
        # names (assignments, loop targets, and in-place growth of local collections)
        defs = df.all_defs(fn)
        fields_of = _field_provenance(fn, defs)
        muts = _ctx_mutator_calls(fn, CTX_PROPS, defs)
        got = set()
        for c in muts:
            for a in c.args:
                got |= fields_of(a)
        ctx.ob("R1", st, f"registers names with the context ({len(muts)} context update(s))", bool(muts), key=f"no-ctx-update|{construct}", where=loc(fn))
        if construct != "Delete":
            # a binding construct never makes a name *less* bound for the lines that follow: whether the clause/body runs is
            # not known when the later line is classified, and an earlier binding of the same name would be erased with it
            rem = [c for c in muts if last_attr(c) in ("ctxremove", "remove", "discard", "pop", "difference_update")]
            ctx.ob("R1", st, "does not take names out of the context again", not rem, key=f"binder-removes-names|{construct}", where=loc(rem[0]) if rem else loc(fn), detail=f"`{short(rem[0])}`" if rem else None)
        missing = sorted(fields - got)
        ctx.ob("R1", st, f"the registered names are derived from the fields {sorted(fields)}", not missing, key=f"field-not-registered|{construct}|{','.join(missing)}", where=loc(fn), detail=f"not flowing into a context update: {missing}" if missing else None)
        if descend:
            cfg = CFG(fn)
            gv = [n for n in cfg.nodes if n.kind == "stmt" and any(call_name(c) in ("self.generic_visit", "self.visit") for c in calls_in(n.ast))]
            # a path that returns a *replacement* node (the statement was re-parsed) need not descend
            def is_repl_return(n):
                return n.kind == "stmt" and isinstance(n.ast, ast.Return) and n.ast.value is not None and unparse(n.ast.value) != "node"

            ok, path = cfg.must_pass(cfg.entry, lambda m: m in gv or is_repl_return(m), exits=("exit",))
            ctx.ob("R1", st, "continues into the children on every path that keeps the node (generic_visit)", ok, key=f"no-descend|{construct}", where=loc(fn), path=cfg.fmt_path(path) if path else None)
    # import a.b binds `a`: the registered name must not be the full dotted module path
    fi, _ = _resolve_visitor(cls, "visit_Import")
    if fi is not None:
        for c in [c for c in calls_in(fi) if last_attr(c) == "ctxadd"]:
            a = c.args[0] if c.args else None
            if isinstance(a, ast.Attribute) and a.attr == "name":
                ctx.ob("R1", f"{AS}:CtxAwareTransformer.visit_Import", "`import a.b` registers the bound name `a` (first component), not the dotted path", False, key="import-dotted-name", where=loc(c), detail=f"registers `{unparse(a)}` verbatim")
            elif a is not None and any(isinstance(n, ast.Attribute) and n.attr == "name" for n in ast.walk(a)):
                ok = any(isinstance(n, ast.Call) and last_attr(n) in ("split", "partition") for n in ast.walk(a))
                ctx.ob("R1", f"{AS}:CtxAwareTransformer.visit_Import", "`import a.b` registers the bound name `a` (first component)", ok, key="import-dotted-name", where=loc(c))
    # global: names go to the module-level context
    fg, _ = _resolve_visitor(cls, "visit_Global")
    if fg is not None:
        ok = any(isinstance(n, ast.Call) and (unparse(n.func) == "self.contexts[1].update" or (isinstance(n.func, ast.Attribute) and n.func.attr == "update" and isinstance(n.func.value, ast.Attribute) and unparse(n.func.value.value) == "self" and CTX_PROPS.get(n.func.value.attr) == 1)) for n in ast.walk(fg))
        ctx.ob("R1", f"{AS}:CtxAwareTransformer.visit_Global", "`global` names are registered in the module-level context (contexts[1])", ok, key="global-level")
    fd, _ = _resolve_visitor(cls, "visit_Delete")
    if fd is not None:
        ok = any(last_attr(c) == "ctxremove" for c in calls_in(fd))
        ctx.ob("R1", f"{AS}:CtxAwareTransformer.visit_Delete", "`del name` removes the name (later lines return to command interpretation)", ok, key="delete-removes")
    cr = class_methods(cls).get("ctxremove")
    if cr is not None:
        ok = any(isinstance(n, (ast.For, ast.comprehension)) and "reversed(self.contexts)" in unparse(n.iter) for n in ast.walk(cr))
        ctx.ob("R1", f"{AS}:CtxAwareTransformer.ctxremove", "removal searches the scopes innermost first", ok, key="ctxremove-order")

    # ------------------------------------------------------------------ R2
    n_calls = 0
    tmod = ctx.repo.module(AS)
    visitor_quals = {f"CtxAwareTransformer.{n_}" for n_ in class_methods(cls) if n_.startswith("visit_") or n_ in ("ctxvisit", "generic_visit")}
    for name, fn in class_methods(cls).items():
        if name == "try_subproc_toks":
            continue
        if not (name.startswith("visit_") or name in ("ctxvisit",)) and only_called_from(ctx.repo, tmod, f"CtxAwareTransformer.{name}", visitor_quals):
            continue  # a helper of visitors: judged where it is used, on the visitors' helper-transparent view
        fn = flat(ctx, fn, depth=2, skip=("is_in_scope", "try_subproc_toks", "_looks_like_flag_subproc", "visit", "generic_visit"))
        calls = [c for c in calls_in(fn) if call_name(c) == "self.try_subproc_toks" and not getattr(stmt_of(c), "_xv_call_marker", False)]
        if not calls:
            continue
        cfg = CFG(fn)
        defs = df.all_defs(fn)
        for c in calls:
            n_calls += 1
            st = f"{AS}:CtxAwareTransformer.{name}"
            arg = c.args[0] if c.args else None
            node = node_in(cfg, stmt_of(c))[0]
            facts = facts_at(cfg, node)
            ok = False
            allow = None
            for e, pol in facts:
                e2 = df.resolve_copy(defs, e)
                if isinstance(e2, ast.Call) and call_name(e2) == "self.is_in_scope" and not pol and e2.args:
                    a1 = unparse(df.resolve_copy(defs, e2.args[0]))
                    a2 = unparse(df.resolve_copy(defs, arg)) if arg is not None else None
                    if a1 == a2 or unparse(e2.args[0]) == unparse(arg):
                        ok = True
                if isinstance(e2, ast.Call) and call_name(e2) == "self._looks_like_flag_subproc" and pol:
                    allow = "documented opt-in ($XONSH_BUILTINS_TO_CMD gated `cmd -flag` heuristic)"
                if isinstance(e2, ast.Call) and call_name(e2) == "isinstance" and pol and len(e2.args) == 2 and unparse(e2.args[1]) == "BinOp" and name == "visit_Assign":
                    allow = "assignment to a BinOp target is not valid Python"
            if not ok:
                # shape-independent decision: with "the node is in scope" true and the two documented opt-outs
                # false, some dominating guard must be violated (three-valued evaluation; unknown atoms stay unknown)
                a2 = unparse(df.resolve_copy(defs, arg)) if arg is not None else None

                def atoms(e, a2=a2, arg=arg):
                    e2 = df.resolve_copy(defs, e)
                    if isinstance(e2, ast.Call) and call_name(e2) == "self.is_in_scope" and e2.args and (unparse(df.resolve_copy(defs, e2.args[0])) == a2 or unparse(e2.args[0]) == unparse(arg)):
                        return True
                    if isinstance(e2, ast.Call) and call_name(e2) == "self._looks_like_flag_subproc":
                        return False
                    if isinstance(e2, ast.Call) and call_name(e2) == "isinstance" and len(e2.args) == 2 and unparse(e2.args[1]) == "BinOp" and name == "visit_Assign":
                        return False
                    return None

                ok = any(ev3(t, atoms) is (not pol) for t, pol in cfg.guards(node))
                if ok and allow:
                    allow = None  # reachable only out of scope or through a documented opt-out: plain obligation
            if allow and not ok:
                ctx.ob("R2", st, f"`{short(c, 50)}` allow-listed: {allow}", True, where=loc(c))
            else:
                ctx.ob("R2", st, f"`{short(c, 50)}` runs only if `not self.is_in_scope({unparse(arg)})` (or through a documented opt-out)", ok, key=f"{name}|unguarded-subproc|{unparse(arg)}", where=loc(c), detail="facts: " + "; ".join(facts_text(facts)))
    if n_calls < 5:
        raise AnalysisError(f"only {n_calls} try_subproc_toks call sites found in the transformer")
    # the opt-in heuristic really is gated on the environment switch
    lf = class_methods(cls).get("_looks_like_flag_subproc")
    if lf is None:
        raise AnchorMissing(f"{AS}: _looks_like_flag_subproc")
    lcfg = CFG(lf)
    trues = [n for n in lcfg.nodes if n.kind == "stmt" and isinstance(n.ast, ast.Return) and not (isinstance(n.ast.value, ast.Constant) and n.ast.value.value is False)]
    gate = [n for n in lcfg.nodes if n.kind == "if" and "XONSH_BUILTINS_TO_CMD" in unparse(n.ast.test)]
    ok = bool(gate) and all(lcfg.edge_dominates(gate[0], "false", t) for t in trues)
    lf_txt = unparse(flat(ctx, lf, depth=2))
    ctx.ob("R2", f"{AS}:CtxAwareTransformer._looks_like_flag_subproc", "can answer True only when $XONSH_BUILTINS_TO_CMD is set, and never for user-bound names", ok and "_user_names" in lf_txt and "self.contexts[1:]" in lf_txt, key="flag-heuristic-gate")
    # is_in_scope: stored names are discounted, every scope is consulted innermost-first
    isf = class_methods(cls).get("is_in_scope")
    if isf is None:
        raise AnchorMissing(f"{AS}: is_in_scope")
    src = unparse(isf)
    ok = "gather_load_store_names" in src and "reversed(self.contexts)" in src
    ctx.ob("R2", f"{AS}:CtxAwareTransformer.is_in_scope", "consults every enclosing scope (innermost first) for the names the node loads", ok, key="is_in_scope-shape")

    # names bound by a sequence target: every level of nesting (`a, (b, *c) = ...`)
    va, _ = _resolve_visitor(cls, "visit_Assign")
    if va is not None:
        deep = []
        shallow = []
        for n in walk_local(va):
            if isinstance(n, ast.If) and any(isinstance(t, ast.Call) and call_name(t) == "isinstance" and len(t.args) == 2 and any(k in unparse(t.args[1]) for k in ("Tuple", "List")) for t in ast.walk(n.test)):
                for c in [c for b_ in n.body for c in calls_in(b_)]:
                    nm = call_name(c) or ""
                    if nm in ("gather_names", "gather_load_store_names", "walk", "ast.walk"):
                        deep.append(c)
                    elif isinstance(c.func, ast.Name) and mod.has(c.func.id) and isinstance(mod.get(c.func.id), FuncTypes):
                        h = mod.get(c.func.id)
                        # descends into nested sequences: a loop / comprehension over `<x>.elts` that applies the helper itself to
                        # the elements, or a full walk
                        loops_ = [l_ for l_ in ast.walk(h) if isinstance(l_, (ast.For, ast.comprehension)) and isinstance(l_.iter, ast.Attribute) and l_.iter.attr == "elts"]
                        rec = any(isinstance(x, ast.Call) and isinstance(x.func, ast.Name) and x.func.id == h.name for l_ in loops_ for x in (ast.walk(l_) if isinstance(l_, ast.For) else ast.walk(parent(l_)))) or any((call_name(x) or "") in ("walk", "ast.walk", "gather_names", "gather_load_store_names") for x in calls_in(h))
                        (deep if rec else shallow).append(c)
        ctx.ob("R1", f"{AS}:CtxAwareTransformer.visit_Assign", "the names of a tuple / list target are collected at every level of nesting (a recursive helper or a full walk), not from its direct elements only", bool(deep), key="Assign|nested-target-names", where=loc(shallow[0]) if shallow else loc(va), detail=f"`{short(shallow[0], 60)}` looks at one level" if shallow and not deep else None)
    # ------------------------------------------------------------------ R3 (walrus vs. comprehension scopes)
    # PEP 572: `:=` inside a comprehension binds in the scope that *contains* the comprehension.  If a visitor gives
    # comprehensions a scope of their own (pushed, discarded afterwards), the walrus binder must not register its
    # target in the innermost scope.
    comp_scopes = []
    for construct in ("ListComp", "SetComp", "DictComp", "GeneratorExp"):
        cfn, cname = _resolve_visitor(cls, f"visit_{construct}")
        if cfn is not None and any(call_name(c) == "self.contexts.append" for c in calls_in(flat(ctx, cfn, depth=2, skip=("ctxadd", "ctxupdate", "generic_visit", "visit")))):
            comp_scopes.append((construct, cname))
    wfn, _ = _resolve_visitor(cls, "visit_NamedExpr")
    if wfn is None:
        raise AnalysisError(f"{AS}:CtxAwareTransformer: no visitor for NamedExpr")
    w_top = [c for c in calls_in(wfn) if call_name(c) in ("self.ctxadd", "self.ctxupdate")] + [c for c in calls_in(wfn) if isinstance(c.func, ast.Attribute) and c.func.attr in ("add", "update") and _ctx_level(c.func.value, CTX_PROPS) == "top"]
    ok = not (comp_scopes and w_top)
    ctx.ob("R3", f"{AS}:CtxAwareTransformer.visit_NamedExpr", "a `:=` target is registered in a scope that outlives the comprehension it may stand in (no discarded comprehension scope, or the walrus binder writes past it)", ok, key="NamedExpr|walrus-bound-in-discarded-comprehension-scope", where=loc(w_top[0]) if w_top else loc(wfn), detail=None if ok else f"{', '.join(c_ for c_, _ in comp_scopes)} are visited inside a scope of their own ({comp_scopes[0][1]} pushes and pops one) and `{short(w_top[0], 40)}` writes the innermost scope: a name bound by `:=` inside a comprehension is forgotten when the comprehension ends, and a later line that reads it is taken for a command")
    # ------------------------------------------------------------------ R3
    for construct in ("FunctionDef", "ClassDef", "Lambda"):
        fn, _ = _resolve_visitor(cls, f"visit_{construct}")
        if fn is None:
            continue
        st = f"{AS}:CtxAwareTransformer.visit_{construct}"
        fn = flat(ctx, fn, depth=2, skip=("ctxadd", "ctxupdate", "generic_visit", "visit"))
        cfg = CFG(fn)
        push = [n for n in cfg.nodes if n.kind == "stmt" and any(call_name(c) == "self.contexts.append" for c in calls_in(n.ast))]
        pop = [n for n in cfg.nodes if n.kind == "stmt" and any(call_name(c) == "self.contexts.pop" for c in calls_in(n.ast))]
        ok = bool(push) and bool(pop)
        path = None
        if ok:
            ok, path = cfg.must_pass(push, lambda m: m in pop, exits=("exit",))
        ctx.ob("R3", st, "the scope pushed for the body is popped on every normal path", ok, key=f"{construct}|scope-not-popped", where=loc(fn), path=cfg.fmt_path(path) if path else None)
        once, p2 = cfg.never_after(pop, lambda m: m in pop) if pop else (False, None)
        ctx.ob("R3", st, "the scope is popped at most once", once, key=f"{construct}|double-pop", where=loc(fn))
        # the definition's own name is registered in the *enclosing* scope (before the push)
        adds = [n for n in cfg.nodes if n.kind == "stmt" and any(call_name(c) == "self.ctxadd" and c.args and unparse(c.args[0]) == "node.name" for c in calls_in(n.ast))]
        ok = bool(adds) and bool(push) and all(cfg.dominated(p, lambda m: m in adds) for p in push)
        if construct != "Lambda":
            ctx.ob("R3", st, "the defined name is registered in the enclosing scope before the body scope is pushed", ok, key=f"{construct}|name-in-inner-scope", where=loc(fn))
        if construct in ("FunctionDef", "Lambda"):
            # a parameter registration is found by its ROLE: a call that adds to a scope of the stack and whose argument is
            # derived from the parameter fields of the definition - whichever helper (`ctxupdate` with one iterable,
            # `ctxadd` in a loop, the set itself) does it.  What must hold for each: the scope written to is the innermost
            # one, and "innermost" is evaluated after the push of the body scope and never after its pop.
            fdefs = df.all_defs(fn)
            fields_of = _field_provenance(fn, fdefs, cfg)
            aliases = _ctx_aliases(fn, CTX_PROPS, fdefs)
            regs = []  # (call, node of the call, nodes where the written scope is looked up, level)
            for c in _ctx_mutator_calls(fn, CTX_PROPS, fdefs):
                if last_attr(c) not in CTX_ADDERS:
                    continue
                for n in node_in(cfg, stmt_of(c), "context registration"):
                    if not any(fields_of(a, n) & PARAM_FIELDS for a in c.args):
                        continue  # registers something else (the definition's own name: judged above)
                    recv = c.func.value if isinstance(c.func, ast.Attribute) else None
                    if call_name(c) in ("self.ctxadd", "self.ctxupdate"):
                        levels, look = {"top"}, [n]
                    elif isinstance(recv, ast.Name) and recv.id in aliases:
                        levels = {_ctx_level(d.value, CTX_PROPS) for d in aliases[recv.id]}
                        look = [m for d in aliases[recv.id] for m in node_in(cfg, d.stmt, "scope alias")] + [n]
                    else:
                        levels, look = {_ctx_level(recv, CTX_PROPS) if recv is not None else None}, [n]
                    if levels & {"?", None}:
                        raise AnalysisError(f"{st}: cannot tell which scope `{short(c, 60)}` writes the parameters to")
                    regs.append((c, n, look, levels))
            bad = [c for c, n, look, levels in regs if levels != {"top"} or not all(cfg.dominated(m, lambda x: x in push) for m in look)]
            late = None
            if regs and pop and not bad:
                lookups = {m for _c, _n, look, _l in regs for m in look}
                fine, late = cfg.never_after(pop, lambda m: m in lookups)
            ok = bool(regs) and bool(push) and not bad and late is None
            ctx.ob("R3", st, "parameters are registered in the body scope (after the push)", ok, key=f"{construct}|params-outer-scope", where=loc(bad[0]) if bad else loc(fn), detail=(f"`{short(bad[0], 60)}` does not write to the scope pushed for the body" if bad else "a parameter registration can run after the body scope was popped" if late else "no registration derived from the parameter fields" if not regs else None), path=cfg.fmt_path(late) if late else None)
    vc = class_methods(cls).get("visit_comprehension")
    ok = vc is not None and not any(call_name(c) in ("self.generic_visit", "self.visit", "self.try_subproc_toks") for c in calls_in(vc))
    ctx.ob("R3", f"{AS}:CtxAwareTransformer.visit_comprehension", "comprehensions are never descended into (their targets are local)", ok, key="comprehension-descends")
    ve = class_methods(cls).get("visit_Expr")
    ok = ve is not None and any(isinstance(n, ast.Call) and call_name(n) == "isinstance" and "Lambda" in unparse(n) for n in ast.walk(ve))
    ctx.ob("R3", f"{AS}:CtxAwareTransformer.visit_Expr", "a lambda expression statement is never re-interpreted as a command", ok, key="lambda-exempt")

    # ------------------------------------------------------------------ R4
    ex = ctx.repo.module(EX)
    for q, builtin in (("Execer.exec", "exec"), ("Execer.eval", "eval")):
        fn = ex.func(q)
        st = f"{EX}:{q}"
        defs = df.all_defs(fn)
        runs = [c for c in calls_in(fn) if call_name(c) == builtin]
        if not runs:
            raise AnchorMissing(f"{st}: no call of builtin {builtin}")
        for c in runs:
            a0 = c.args[0] if c.args else None
            srcs = defs.get(unparse(a0), []) if isinstance(a0, ast.Name) else []
            vals = [d.value for d in srcs if d.kind == "assign"]
            ok = bool(vals) and all((isinstance(v, ast.Call) and call_name(v) == "self.compile") or unparse(v) == "input" for v in vals)
            whole = all(unparse(kwarg(v, "input") or (v.args[0] if v.args else None)) == "input" for v in vals if isinstance(v, ast.Call))
            ctx.ob("R4", st, f"`{short(c, 40)}` runs the code object compiled from the complete input", ok and whole, key=f"{q}|code-source", where=loc(c))
            inloop = any(isinstance(a, (ast.For, ast.While)) for a in ancestors(c))
            ctx.ob("R4", st, "no loop compiles and executes piecewise", not inloop, key=f"{q}|piecewise", where=loc(c))
    cf = ex.func("Execer.compile")
    cdefs = df.all_defs(cf)
    comp = [c for c in calls_in(cf) if call_name(c) == "compile"]
    parse = [c for c in calls_in(cf) if call_name(c) == "self.parse"]
    inp = cf.args.args[1].arg

    def from_parse(e):
        """e is a local whose every definition is the result of self.parse(...)"""
        ds = cdefs.get(e.id, []) if isinstance(e, ast.Name) else []
        return bool(ds) and all(d.kind == "assign" and any(d.value is p_ for p_ in parse) for d in ds)

    ok = bool(comp) and bool(parse) and all(from_parse(c.args[0]) or isinstance(const_value(c.args[0]), str) for c in comp) and any(from_parse(c.args[0]) for c in comp) and all(unparse(p.args[0]) == inp for p in parse) and not any(isinstance(a, (ast.For, ast.While)) for c in comp + parse for a in ancestors(c))
    ctx.ob("R4", f"{EX}:Execer.compile", "one parse of the complete input feeds one builtin compile()", ok, key="compile|shape")
    del cdefs
    bs = ctx.repo.module(BS)
    dflt = bs.func("BaseShell.default")
    ddefs = df.all_defs(dflt)
    rcc = [c for c in calls_in(dflt) if call_name(c) == "run_compiled_code"]
    ok = bool(rcc)
    for c in rcc:
        a0 = c.args[0]
        ds = ddefs.get(unparse(a0), [])
        ok = ok and bool(ds) and all(d.kind == "unpack" and isinstance(d.value, ast.Call) and call_name(d.value) == "self.push" for d in ds) and not any(isinstance(a, (ast.For, ast.While)) for a in ancestors(c))
    ctx.ob("R4", f"{BS}:BaseShell.default", "an interactive input is compiled as a whole by push() before run_compiled_code executes it", ok, key="default|code-source")


    # ------------------------------------------------------------------ R5
    # "bound" includes every name the builtins module defines *now*: names appear there in mid-session
    # (`_` from the display hook, xontribs, rc snippets).  The root context handed to the parser must be
    # computed from the live module at every compile; a set remembered in the Execer (or anywhere else
    # across compiles) makes a later builtin read as unbound - and run as a command.
    cflat = flat(ctx, ex.func("Execer.compile"), depth=2, skip=("parse",))
    cfdefs = df.all_defs(cflat)
    pcalls = [c for c in calls_in(cflat) if call_name(c) == "self.parse"]
    if not pcalls:
        raise AnchorMissing(f"{EX}:Execer.compile: call of self.parse")
    for c in pcalls:
        carg = c.args[1] if len(c.args) > 1 else kwarg(c, "ctx")
        lv = df.leaves(cfdefs, carg) if carg is not None else set()
        # helpers called inside the expression: what their return values are built from
        for _round in range(2):
            for k_, t_ in sorted(lv):
                if k_ == "call" and t_.startswith("self.") and ex.has("Execer." + t_[5:]):
                    h_ = ex.func("Execer." + t_[5:])
                    hd_ = df.all_defs(h_)
                    for r_ in walk_local(h_):
                        if isinstance(r_, ast.Return) and r_.value is not None:
                            lv |= df.leaves(hd_, r_.value)
        live = ("call", "dir") in lv and any(k == "name" and t == "builtins" for k, t in lv)
        state = sorted(t for k, t in lv if k == "attr" and t.startswith("self.") and not t.startswith("self.parser"))
        ctx.ob("R5", f"{EX}:Execer.compile", "the root context contains dir(builtins) evaluated during this compile", live, key="compile|builtins-not-live", where=loc(c), detail=str(sorted(lv))[:300] if not live else None)
        ctx.ob("R5", f"{EX}:Execer.compile", "no part of the root context is read from state kept across compiles (a remembered name set goes stale when builtins gains a name)", not state, key="compile|context-from-state", where=loc(c), detail=f"reads {state}" if state else None)
    _wrap_on_own_evidence(ctx)



def _wrap_on_own_evidence(ctx):
    from ..engine.loader import class_methods

    BPF = "xonsh/parsers/base.py"
    bp = ctx.repo.module(BPF)
    ms = class_methods(bp.cls("_SubprocChainRaiseWrapper"))
    vb = ms.get("_visit_boolop")
    if vb is None:
        raise AnchorMissing(f"{BPF}:_SubprocChainRaiseWrapper._visit_boolop")
    nodep = param_name(vb, 0)
    cfg = CFG(vb)
    wraps = [n for n in cfg.nodes if n.kind == "stmt" and any(isinstance(c.func, ast.Attribute) and c.func.attr == "_wrap" and unparse(c.func.value) == "self" for c in calls_in(n.ast))]
    if not wraps:
        raise AnalysisError(f"{BPF}:_visit_boolop: no self._wrap(...) call")
    vdefs = df.all_defs(vb)
    for w in wraps:
        own = []
        state = []
        for e, pol in facts_at(cfg, w):
            # look through a local that holds the verdict
            e2 = e
            if isinstance(e, ast.Name) and len(vdefs.get(e.id, [])) == 1 and vdefs[e.id][0].value is not None:
                e2 = vdefs[e.id][0].value
            reads_node = nodep in df.names_read(e2)
            reads_self = any(isinstance(a, ast.Attribute) and unparse(a.value) == "self" and not isinstance(parent(a), ast.Call) for a in ast.walk(e2))
            if pol and reads_node and not reads_self:
                own.append(unparse(e2))
            if reads_self and not reads_node and pol:
                state.append(unparse(e2))
        ctx.ob("R6", f"{BPF}:_SubprocChainRaiseWrapper._visit_boolop", f"`{short(w.ast, 40)}` is governed by evidence computed from `{nodep}` itself", bool(own), key="_visit_boolop|wrap-on-foreign-evidence", where=loc(w.ast), detail=None if own else f"governing facts read wrapper state only: {state}")

META = {
    "technique": "static analysis: exhaustiveness of the binder visitors against the interpreter's ast node kinds, field provenance into the context updates, CFG guard dominance of every subprocess re-interpretation, scope push/pop pairing, provenance of executed code objects",
    "text": "Decides the scoping machinery that makes 'Python wins' true for all programs x contexts, not the sampled "
    "ones: for each binding construct the property lists (assignment, walrus, import, def + every parameter kind, "
    "class, for, with, except incl. except*, global, del — and their async twins) a visitor exists (own or aliased), "
    "the names it registers are traced back to exactly that construct's name-bearing fields, and it descends into the "
    "children; `import a.b` registers `a`; every call that turns Python text into a command is control-dependent on "
    "`not is_in_scope(<same node>)` with a two-entry allow-list; function/class scopes are pushed and popped exactly "
    "once on every normal path with the name outside and the parameters inside; lambdas/comprehensions exempt; "
    "Execer.exec/eval and the shell execute only the code object compiled from the complete input; the root "
    "context handed to the parser contains dir(builtins) evaluated during the same compile and nothing read from "
    "state kept across compiles (names appear in builtins mid-session). Tree equality "
    "with CPython for every program is not decided.",
    "note": "Decides the listed structural clauses, not the behaviour. Binder list = the property's list intersected "
    "with the node kinds of the running interpreter's ast module.",
    "more": 'Also decided: no binding construct takes names out of the context again (only `del` does); an `except ... as n` target may be registered by visit_Try/TryStar or by visit_ExceptHandler. Lambda is a binder like def: a visitor exists that pushes a scope, registers all parameter kinds in it and pops it; the names of a tuple / list assignment target are collected at every level of nesting. The raise wrapper wraps a BoolOp only on evidence computed from that BoolOp\'s own subtree (a pure-Python `a or b` stays Python whatever commands precede it).',
}

META["more"] += ' If comprehensions get a scope of their own, a `:=` target must be registered in a scope that outlives it (PEP 572).'
