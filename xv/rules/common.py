"""Helpers shared by the property rule modules."""

from __future__ import annotations

import ast

from ..engine.loader import (
    AnalysisError,
    AnchorMissing,
    FuncTypes,
    call_name,
    calls_in,
    const_value,
    dotted,
    enclosing_func,
    enclosing_stmt,
    last_attr,
    loc,
    parent,
    ancestors,
    qual_of,
    short,
    site,
    unparse,
    walk_local,
)
from ..engine.cfg import CFG, conjuncts, disjuncts, facts_at, facts_text, implied_facts
from ..engine import dataflow as df



def open_mode(call):
    """Mode string of an ``open``/``os.fdopen``/``io.open`` call; 'r' if absent;
    None if it is not a constant."""
    mode = None
    if len(call.args) >= 2:
        mode = call.args[1]
    for k in call.keywords:
        if k.arg == "mode":
            mode = k.value
    if mode is None:
        return "r"
    v = const_value(mode)
    return v if isinstance(v, str) else None


def is_write_mode(mode):
    return any(c in mode for c in "wax+")


def kwarg(call, name):
    for k in call.keywords:
        if k.arg == name:
            return k.value
    return None


def stmt_of(node):
    return enclosing_stmt(node)


def lexically_inside(node, container):
    return any(a is container for a in ancestors(node))


def node_in(cfg, ast_stmt, what="statement"):
    ns = cfg.nodes_of(ast_stmt)
    if not ns:
        raise AnalysisError(f"CFG has no node for {what} at line {getattr(ast_stmt, 'lineno', '?')}")
    return ns


def funcs_of_module(mod):
    return list(mod.functions())


def find_calls(func, name_pred, local=True):
    """Calls inside func whose dotted callee name satisfies name_pred."""
    out = []
    for c in calls_in(func, local=local):
        nm = call_name(c)
        if nm is not None and name_pred(nm):
            out.append(c)
    return out


def is_name(node, name):
    return isinstance(node, ast.Name) and node.id == name


def same_text(a, b):
    return unparse(a) == unparse(b)


def expr_contains_text(container, needle):
    t = unparse(needle)
    return any(unparse(n) == t for n in ast.walk(container) if isinstance(n, ast.expr))


def positive_example(src, finder, what):
    """Tiny positive example that must match on every run (rule armedness)."""
    tree = ast.parse(src)
    from ..engine.loader import set_parents

    set_parents(tree)
    if not finder(tree):
        raise AnalysisError(f"built-in positive example for {what} no longer matches: recogniser broken")


def callsite_values(repo, fn, param, prefixes=("xonsh",)):
    """Expressions passed for ``param`` of module-level function ``fn`` at every call site in
    the repository (default value node if omitted).  Calls are matched by the function's
    bare name (``f(...)`` or ``mod.f(...)``)."""
    name = fn.name
    a = fn.args
    pos = [x.arg for x in a.posonlyargs + a.args]
    defaults = dict(zip(reversed(pos), reversed(a.defaults)))
    for k, d in zip(a.kwonlyargs, a.kw_defaults):
        if d is not None:
            defaults[k.arg] = d
    idx = pos.index(param) if param in pos else None
    out = []
    for m in repo.modules(*prefixes, containing=name):
        for c in [n for n in ast.walk(m.tree) if isinstance(n, ast.Call)]:
            if last_attr(c) != name:
                continue
            v = None
            if idx is not None and idx < len(c.args) and not any(isinstance(x, ast.Starred) for x in c.args[: idx + 1]):
                v = c.args[idx]
            for k in c.keywords:
                if k.arg == param:
                    v = k.value
                elif k.arg is None:
                    v = v or k.value  # **kwargs: unknown
            if v is None:
                v = defaults.get(param)
            out.append((c, v))
    return out


# ---------------------------------------------------------------- roles instead of names
# Locals are identified by what they hold (their definition / their use), never by their spelling:
# renaming a local is a behaviour-preserving edit.


def returned_names(fn):
    """local names that occur as (an element of) a returned value"""
    out = set()
    for n in walk_local(fn):
        if isinstance(n, ast.Return) and n.value is not None:
            vs = n.value.elts if isinstance(n.value, ast.Tuple) else [n.value]
            out |= {v.id for v in vs if isinstance(v, ast.Name)}
    return out


def names_defined_by(fn, pred, defs=None):
    """local names with at least one definition whose bound expression satisfies pred(expr)"""
    defs = defs if defs is not None else df.all_defs(fn)
    out = set()
    for name, ds in defs.items():
        for d in ds:
            v = d.value
            if d.kind == "unpack" and isinstance(v, (ast.Tuple, ast.List)) and d.index is not None and d.index < len(v.elts):
                v = v.elts[d.index]
            if v is not None and d.kind in ("assign", "unpack", "walrus", "with", "for") and pred(v):
                out.add(name)
    return out


def names_bound_to_call(fn, callee_pred, defs=None):
    """local names assigned from a call whose dotted name satisfies callee_pred (str -> bool)"""
    return names_defined_by(fn, lambda v: isinstance(v, ast.Call) and callee_pred(call_name(v) or unparse(v.func)), defs)


def names_bound_to_text(fn, texts, defs=None):
    """local names assigned from an expression whose source text is one of ``texts`` (aliases of an attribute, e.g. `env = XSH.env`)"""
    texts = {texts} if isinstance(texts, str) else set(texts)
    return names_defined_by(fn, lambda v: unparse(v) in texts, defs)


def param_name(fn, index, skip_self=True):
    """name of the index-th parameter (parameters are API and not renamed silently, but read them from the signature anyway)"""
    args = fn.args.posonlyargs + fn.args.args
    if skip_self and args and args[0].arg in ("self", "cls"):
        args = args[1:]
    if index >= len(args):
        raise AnchorMissing(f"{fn.name}: no parameter #{index}")
    return args[index].arg


def nfacts(cfg, node):
    """branch facts that hold at node, as a set of (source text, polarity) with negative comparison
    operators normalised (`x is not None` true == `x is None` false) — independent of which arm
    of an if/else the code sits in"""
    from ..engine.dtable import normalise

    out = set()
    for e, pol in facts_at(cfg, node):
        e2, p2 = normalise(e, pol)
        out.add((unparse(e2), p2))
    return out


def flat(ctx_or_repo, fn, depth=2, skip=(), cross_public=False):
    """helper-transparent view of fn (engine/inline.py)"""
    from ..engine import inline

    repo = getattr(ctx_or_repo, "repo", ctx_or_repo)
    return inline.flatten(repo, fn, depth=depth, skip=skip, cross_public=cross_public)


def copies_of(defs, name, depth=4):
    """names that are plain copies of ``name`` (x = name; y = x), name included"""
    out = {name}
    for _ in range(depth):
        grew = False
        for n, ds in defs.items():
            if n in out or "." in n:
                continue
            vals = [d.value for d in ds if d.kind in ("assign", "walrus")]
            if vals and len(vals) == len(ds) and all(isinstance(v, ast.Name) and v.id in out for v in vals):
                out.add(n)
                grew = True
        if not grew:
            break
    return out


def element_source(fn, name, defs=None):
    """If ``name`` is bound (only) as a for-loop variable — possibly inside a nested tuple target, possibly
    through enumerate()/reversed()/list()/tuple()/sorted() — the expression whose elements it ranges over, else None."""
    defs = defs if defs is not None else df.all_defs(fn)
    ds = defs.get(name, [])
    if len(ds) != 1 or not isinstance(ds[0].stmt, (ast.For, ast.AsyncFor)):
        return None
    loop = ds[0].stmt
    it, tgt = loop.iter, loop.target
    while True:
        if isinstance(it, ast.Call) and call_name(it) == "enumerate" and it.args and isinstance(tgt, (ast.Tuple, ast.List)) and len(tgt.elts) == 2:
            if any(isinstance(x, ast.Name) and x.id == name for x in ast.walk(tgt.elts[0])):
                return None  # the index, not an element
            it, tgt = it.args[0], tgt.elts[1]
            continue
        if isinstance(it, ast.Call) and call_name(it) in ("reversed", "list", "tuple", "sorted", "iter") and len(it.args) == 1:
            it = it.args[0]
            continue
        break
    if not any(isinstance(x, ast.Name) and x.id == name for x in ast.walk(tgt)):
        return None
    return it


def cmp_atom(e):
    """canonical (left text, right text, negated) for an order comparison, as `left < right`:
    a < b ; b > a ; not (a >= b) ; not (b <= a) all give ('a', 'b', False)"""
    if not (isinstance(e, ast.Compare) and len(e.ops) == 1):
        return None
    l, op, r = unparse(e.left), e.ops[0], unparse(e.comparators[0])
    if isinstance(op, ast.Lt):
        return (l, r, False)
    if isinstance(op, ast.Gt):
        return (r, l, False)
    if isinstance(op, ast.GtE):
        return (l, r, True)
    if isinstance(op, ast.LtE):
        return (r, l, True)
    return None


def ev3(e, atoms):
    """three-valued truth of a boolean expression under a partial assignment.
    ``atoms``: callable expr -> True/False/None for the atoms it knows."""
    v = atoms(e)
    if v is not None:
        return v
    if isinstance(e, ast.UnaryOp) and isinstance(e.op, ast.Not):
        x = ev3(e.operand, atoms)
        return None if x is None else (not x)
    if isinstance(e, ast.BoolOp):
        vals = [ev3(x, atoms) for x in e.values]
        if isinstance(e.op, ast.And):
            if any(x is False for x in vals):
                return False
            return True if all(x is True for x in vals) else None
        if any(x is True for x in vals):
            return True
        return False if all(x is False for x in vals) else None
    if isinstance(e, ast.Constant):
        return bool(e.value)
    return None


def as_conditional_assign(stmt):
    """`if c: x = A` / `else: x = B` (each arm exactly that one assignment; elif chains nest) seen from one of its arm
    assignments: the equivalent single statement `x = A if c else B` (synthetic, located at the if), else None.  The
    canonical form splits top-level conditional expressions into such statements; a rule that keeps a catalogue of
    statement shapes asks here for the one-statement spelling."""
    par = getattr(stmt, "_xv_parent", None)
    if not (isinstance(stmt, ast.Assign) and isinstance(par, ast.If) and len(stmt.targets) == 1 and isinstance(stmt.targets[0], ast.Name)):
        return None

    def fold(i):
        if isinstance(i, ast.Assign) and len(i.targets) == 1 and isinstance(i.targets[0], ast.Name) and i.targets[0].id == stmt.targets[0].id:
            return i.value
        if isinstance(i, ast.If) and len(i.body) == 1 and len(i.orelse) == 1:
            a, b = fold(i.body[0]), fold(i.orelse[0])
            if a is not None and b is not None:
                return ast.IfExp(test=i.test, body=a, orelse=b)
        return None

    top = par
    while isinstance(getattr(top, "_xv_parent", None), ast.If) and len(top._xv_parent.orelse) == 1 and top._xv_parent.orelse[0] is top:
        top = top._xv_parent
    v = fold(top)
    if v is None:
        return None
    out = ast.Assign(targets=[ast.Name(id=stmt.targets[0].id, ctx=ast.Store())], value=v, type_comment=None)
    ast.copy_location(out, top)
    ast.fix_missing_locations(out)
    return out


def value_arms(defs, e, depth=4, _seen=frozenset()):
    """the expressions ``e`` can evaluate to, looking through conditional expressions and through locals with one or more
    plain assignments (`x = A if c else B` and `if c: x = A` / `else: x = B` give the same arms).  A name with another kind
    of definition (parameter, loop target, unpacking ...) is an arm itself."""
    if depth <= 0:
        return [e]
    if isinstance(e, ast.IfExp):
        return value_arms(defs, e.body, depth - 1, _seen) + value_arms(defs, e.orelse, depth - 1, _seen)
    if isinstance(e, ast.Name) and e.id not in _seen:
        ds = defs.get(e.id, [])
        if ds and all(d.kind == "assign" and d.value is not None for d in ds):
            out = []
            for d in ds:
                out += value_arms(defs, d.value, depth - 1, _seen | {e.id})
            return out
    return [e]


def alias_class(defs, name, depth=6):
    """names connected with ``name`` by plain copies in either direction (x = name; name = y ...)"""
    out = {name}
    for _ in range(depth):
        grew = False
        for n, ds in defs.items():
            if "." in n:
                continue
            for d in ds:
                v = d.value
                if d.kind in ("assign", "walrus") and isinstance(v, ast.Name):
                    if v.id in out and n not in out:
                        out.add(n)
                        grew = True
                    if n in out and v.id not in out:
                        out.add(v.id)
                        grew = True
        if not grew:
            break
    return out


def only_called_from(repo, mod, qual, allowed, depth=2, scope=("xonsh",)):
    """True if every call site of function ``qual`` (matched by bare name, in the whole repository) lies inside a
    function of ``mod`` that is in ``allowed`` (qualnames) - or in a helper for which the same holds.  An extracted
    helper of a documented writer counts as part of that writer."""
    bare = qual.split(".")[-1]
    if bare.startswith("__"):
        return False
    callers = [q2 for q2, f2 in mod.functions() if q2 != qual and any((call_name(c) or "").split(".")[-1] == bare for c in calls_in(f2))]
    foreign = [m2.rel for m2 in repo.modules(*scope, containing=bare) if m2.rel != mod.rel and any(isinstance(c, ast.Call) and (call_name(c) or "").split(".")[-1] == bare for c in ast.walk(m2.tree))]
    if not callers or foreign:
        return False
    return all(c_ in allowed or (depth > 0 and only_called_from(repo, mod, c_, allowed, depth - 1, scope)) for c_ in callers)


__all__ = [n for n in dir() if not n.startswith("_")]
