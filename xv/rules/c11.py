"""C11 — scoped environment changes are exactly undone and never leak across threads.

Decided: ``Env.swap`` captures before it sets, writes thread-locally only, and
restores (values, masks, overlay) in a ``finally`` that every exit passes; every read
path compares what it takes from an overlay or from the store with the DELETE_VAR
mask before handing it out, and resolves a key by the top-most layer containing it;
worker threads read the spawner's thread-local view before ``start()`` and install it
first thing in ``run``; thread-local data does not reach a cache shared between
threads.  Not decided: actual interleavings.
"""

from __future__ import annotations

import ast

from .common import *
from ..engine.loader import class_methods

EN = "xonsh/environ.py"
PX = "xonsh/procs/proxies.py"
PO = "xonsh/procs/posix.py"


# expressions that are truthy iff the calling thread has thread-local overrides
NO_OVERRIDES = {"self._d._local", "self._d.get_local_overrides()", "self.get_swapped_values()"}
# minimum number of DELETE_VAR comparisons per read path (overlay layer + store layer)
MASK_TEST_FLOOR = {"__getitem__": 2, "__contains__": 2, "__iter__": 2, "detype": 1}


def _mentions_mask(node, var=None):
    """a comparison with DELETE_VAR (of ``var``, a name or a set of names holding the same value)"""
    vs = None if var is None else ({var} if isinstance(var, str) else set(var))
    for n in ast.walk(node):
        if isinstance(n, ast.Compare) and any(isinstance(o, (ast.Is, ast.IsNot)) for o in n.ops) and any(unparse(c) == "DELETE_VAR" for c in n.comparators):
            if vs is None or any(v in unparse(n.left) for v in vs):
                return True
    return False


class _TLModel:
    """Who keeps per-thread state in environ.py, read from the classes themselves.  For each class: ``tl`` - attributes bound
    to ``threading.local()`` in ``__init__``; ``views`` - properties that expose such an object's container (`_local` ->
    `self._thread_local.__dict__`, `_overlay_stack`); ``parts`` - attributes bound in ``__init__`` to an instance of another
    class of the model (`Env._d` *is* the InternalEnvironDict).  With ``parts`` an expression names the same container
    whether it is written inside the owning class (`self._local`) or from the outside (`self._d._local`): it does not
    matter in which of the two classes an accessor lives."""

    CLASSES = ("Env", "InternalEnvironDict")

    def __init__(self, mod):
        self.ms, self.tl, self.views, self.parts = {}, {}, {}, {}
        for c in self.CLASSES:
            ms = class_methods(mod.cls(c))
            init = ms.get("__init__")
            stores = [(t.attr, x.value) for x in (walk_local(init) if init is not None else []) if isinstance(x, ast.Assign) for t in x.targets if isinstance(t, ast.Attribute) and unparse(t.value) == "self"]
            tl = {a_ for a_, v in stores if isinstance(v, ast.Call) and call_name(v) == "threading.local"}
            self.ms[c] = ms
            self.tl[c] = tl
            self.views[c] = {nm for nm, f in ms.items() if any("property" in unparse(d) for d in f.decorator_list) and any(isinstance(a_, ast.Attribute) and a_.attr in tl and unparse(a_.value) == "self" for a_ in ast.walk(f))}
            self.parts[c] = {a_: call_name(v) for a_, v in stores if isinstance(v, ast.Call) and not v.args and not v.keywords and call_name(v) in self.CLASSES and call_name(v) != c}

    def owner(self, e, cname):
        """the class (of the model) of the object ``e`` evaluates to inside a method of ``cname``, if it can be read off"""
        if isinstance(e, ast.Name):
            return cname if e.id == "self" else None
        if isinstance(e, ast.Attribute):
            o = self.owner(e.value, cname)
            return self.parts[o].get(e.attr) if o is not None else None
        return None

    def root(self, e, cname):
        """(owning class, attribute) of the thread-local object / view that ``e`` is or is an element of, else None"""
        while isinstance(e, (ast.Attribute, ast.Subscript)):
            if isinstance(e, ast.Attribute):
                o = self.owner(e.value, cname)
                if o is not None and (e.attr in self.tl[o] or e.attr in self.views[o]):
                    return (o, e.attr)
            e = e.value
        return None

    def root_via_local(self, e, cname, defs):
        """root(e), looking through one local alias (`local = self._local`)"""
        r = self.root(e, cname)
        if r is None and isinstance(e, ast.Name):
            rs = {self.root(d.value, cname) if d.value is not None and d.kind in ("assign", "walrus") else None for d in defs.get(e.id, [])}
            if len(rs) == 1:
                r = next(iter(rs))
        return r

    def method(self, call, cname):
        """(class, FunctionDef) of a method of a class of the model called on self or on a part of self"""
        if isinstance(call, ast.Call) and isinstance(call.func, ast.Attribute):
            o = self.owner(call.func.value, cname)
            if o is not None and call.func.attr in self.ms[o] and not any("property" in unparse(d) for d in self.ms[o][call.func.attr].decorator_list):
                return o, self.ms[o][call.func.attr]
        return None


def _thread_local_boundary(ctx, mod, model):
    n = 0
    for cname in model.CLASSES:
        ms = model.ms[cname]
        if not model.tl[cname] and not any(model.tl[c2] for c2 in model.parts[cname].values()):
            continue

        for nm, f in ms.items():
            if nm in model.views[cname] or nm == "__init__":
                continue
            defs = df.all_defs(f)
            params = {a_.arg for a_ in f.args.args[1:] + f.args.kwonlyargs}
            if not nm.startswith("_"):
                for r in [r for r in walk_local(f) if isinstance(r, ast.Return) and r.value is not None]:
                    v = r.value
                    if isinstance(v, ast.Name) and len(defs.get(v.id, [])) == 1 and defs[v.id][0].value is not None:
                        v = defs[v.id][0].value
                    rt = model.root(v, cname) if _uncopy(v) is v else None
                    if model.root(_uncopy(v), cname) is not None or rt is not None:
                        n += 1
                        ctx.ob("R5", f"{EN}:{cname}.{nm}", f"`{short(r, 50)}` hands out thread-local state as a copy", rt is None, key=f"{cname}.{nm}|thread-local-container-escapes", where=loc(r), detail=None if rt is None else f"`{rt[0]}.{rt[1]}` is the calling thread's own container: whoever receives it shares every later push/pop/update with this thread")
            for a in [x for x in walk_local(f) if isinstance(x, ast.Assign)]:
                for t in a.targets:
                    # (the container itself - `self.<local>.stack = x` - not an element stored under a key of a view)
                    rt = model.root(t, cname) if isinstance(t, (ast.Attribute, ast.Subscript)) else None
                    if rt is not None and rt[1] in model.tl[rt[0]] and isinstance(a.value, ast.Name) and a.value.id in params:
                        n += 1
                        ctx.ob("R5", f"{EN}:{cname}.{nm}", f"`{short(a, 50)}` installs a copy of what the caller passed", False, key=f"{cname}.{nm}|caller-object-adopted-as-thread-local", where=loc(a), detail=f"the parameter `{a.value.id}` becomes this thread's state by reference: two threads then mutate one object")
            # in-place installation (`local.clear(); local.update(param)`) copies the content: fine, counted as an instance
            if any(isinstance(c.func, ast.Attribute) and c.func.attr == "update" and c.args and isinstance(c.args[0], ast.Name) and c.args[0].id in params and model.root_via_local(c.func.value, cname, defs) is not None for c in calls_in(f)):
                n += 1
                ctx.ob("R5", f"{EN}:{cname}.{nm}", "installs the caller's values by copying them into the thread's own container", True, key=f"{cname}.{nm}|install-by-copy")
    if n < 2 and not ctx.violations:
        raise AnalysisError(f"{EN}: only {n} thread-local hand-over sites found (the accessor that copies the thread-local overrides out and the one that installs them expected)")


def _handover(ctx, mod, model):
    """Env.get_swapped_values() is what ProcProxyThread / PopenThread read before start() (R3).  If it drops or rewrites
    entries, the worker's view differs from the spawner's: a variable masked with DELETE_VAR shows its global value again.
    The accessor is followed through argument-less methods of Env / of its dict, so it does not matter in which of the two
    classes the copy is made.  Returns (every return is a copy of the container: bool, the containers handed over)."""
    sites = []

    def whole(e, fn, cname, depth=0):
        """(e evaluates to a complete copy of - or the whole of - a thread-local container; it is a copy; the containers)"""
        if depth > 4:
            return False, False, set()
        if isinstance(e, ast.Name):
            ds = df.all_defs(fn).get(e.id, [])
            if len(ds) == 1 and ds[0].value is not None:
                return whole(ds[0].value, fn, cname, depth + 1)
            return False, False, set()
        inner = _uncopy(e)
        if inner is not e:
            rt = model.root(inner, cname)
            if rt is not None:
                return True, True, {rt}
            w, _, rts = whole(inner, fn, cname, depth + 1)
            return w, w, rts
        rt = model.root(e, cname)
        if rt is not None:
            return True, False, {rt}
        if isinstance(e, ast.Call) and not e.args and not e.keywords:
            tgt = model.method(e, cname)
            if tgt is not None:
                c, m = tgt
                rs = [r for r in walk_local(m) if isinstance(r, ast.Return) and r.value is not None]
                ok, cp, rts = bool(rs), bool(rs), set()
                for r in rs:
                    o, o_cp, o_rts = whole(r.value, m, c, depth + 1)
                    sites.append((f"{c}.{e.func.attr}", r, o))
                    ok, cp, rts = ok and o, cp and o_cp, rts | o_rts
                return ok, cp, rts
        return False, False, set()

    g = model.ms["Env"].get("get_swapped_values")
    if g is None:
        raise AnchorMissing(f"{EN}:Env.get_swapped_values")
    rs = [r for r in walk_local(g) if isinstance(r, ast.Return) and r.value is not None]
    if not rs:
        raise AnalysisError(f"{EN}:Env.get_swapped_values returns nothing")
    copied, roots = True, set()
    for r in rs:
        o, cp, rts = whole(r.value, g, "Env")
        sites.append(("Env.get_swapped_values", r, o))
        copied, roots = copied and o and cp, roots | rts
    seen = set()
    for q, r, ok in sites:
        if (q, r.lineno) in seen:
            continue
        seen.add((q, r.lineno))
        ctx.ob("R6", f"{EN}:{q}", f"`{short(r, 60)}` hands over the whole thread-local view (a plain copy: no entry - a DELETE_VAR mask in particular - is filtered out or rewritten on the way to the worker thread)", ok, key=f"{q}|handover-not-whole", where=loc(r))
    # ... and the container all of this ends in is the thread-local layer of the variable store (not, say, the overlay stack)
    store_cls = model.parts["Env"].get("_d")
    if roots or all(ok for _, _, ok in sites):  # (no container recognised: already reported above as not whole)
        ctx.ob("R6", f"{EN}:Env.get_swapped_values", "what is handed over is the thread-local layer of the variable store (" + (", ".join(f"{c}.{a_}" for c, a_ in sorted(roots)) or "nothing recognised") + ")", len(roots) == 1 and store_cls is not None and all(c == store_cls for c, _ in roots), key="Env.get_swapped_values|handover-not-the-override-layer", where=loc(g))
    return copied, roots


def _installer(model):
    """Env.set_swapped_values(view) is what the worker threads call first thing in run().  Followed through methods of Env /
    of its dict that are handed the view as it is: (class, function, name of the parameter holding the view) of the
    function that does the work."""
    cname, fn = "Env", model.ms["Env"].get("set_swapped_values")
    if fn is None:
        raise AnchorMissing(f"{EN}:Env.set_swapped_values")
    p = param_name(fn, 0)
    for _ in range(4):
        nxt = None
        for c in calls_in(fn):
            tgt = model.method(c, cname)
            if tgt is not None and len(c.args) == 1 and not c.keywords and isinstance(c.args[0], ast.Name) and c.args[0].id == p and not [d for d in df.all_defs(fn).get(p, []) if d.kind != "param"]:
                nxt = tgt
        if nxt is None:
            break
        cname, fn = nxt
        p = param_name(fn, 0)
    return cname, fn, p



def _local_set_always_lands(ctx, mod):
    ms = class_methods(mod.cls("Env"))
    fn0 = ms.get("_set_item")
    if fn0 is None:
        raise AnchorMissing(f"{EN}:Env._set_item")
    fn = flat(ctx, fn0, 1, skip=("set_locally", "get_validator", "get_converter", "get_detyper"))
    cfg = CFG(fn)
    tl = next((a.arg for a in fn0.args.args + fn0.args.kwonlyargs if "local" in a.arg), None)
    if tl is None:
        raise AnalysisError(f"{EN}:Env._set_item: no thread-local switch parameter")
    lands = [n for n in cfg.nodes if n.kind == "stmt" and any((call_name(c) or "").endswith("set_locally") for c in calls_in(n.ast))]
    if not lands:
        raise AnalysisError(f"{EN}:Env._set_item: no thread-local store")
    ok, path = cfg.must_pass(cfg.entry, lambda m: m in lands, exits=("exit",), skip_edge=cfg.assume_edges([(tl, True)]))
    ctx.ob("R7", f"{EN}:Env._set_item", f"with `{tl}` set every normal path stores into the private layer (`set_locally`)", ok, key="_set_item|local-set-skipped", where=loc(fn0), path=cfg.fmt_path(path) if path else None)



def _one_layer_per_write(ctx, mod):
    ms = class_methods(mod.cls("InternalEnvironDict"))
    MUT = ("pop", "popitem", "clear", "update", "setdefault", "__setitem__", "__delitem__")
    n = 0
    for nm in ("__setitem__", "__delitem__", "pop", "popitem"):
        fn = ms.get(nm)
        if fn is None:
            continue
        cfg = CFG(fn)
        defs = df.all_defs(fn)
        loc_names, glo_names, mixed = {"self._local"}, {"self._global"}, set()
        for _ in range(3):
            for n_, ds in defs.items():
                vals = [unparse(d.value) for d in ds if d.value is not None and d.kind == "assign"]
                if not vals or len(vals) != len(ds):
                    continue
                if all(v in loc_names for v in vals):
                    loc_names.add(n_)
                elif all(v in glo_names for v in vals):
                    glo_names.add(n_)
                elif all(v in loc_names | glo_names for v in vals):
                    mixed.add(n_)

        def mutates(node, names):
            a = node.ast
            for x in ast.walk(a):
                if isinstance(x, ast.Subscript) and isinstance(x.ctx, (ast.Store, ast.Del)) and unparse(x.value) in names:
                    return True
                if isinstance(x, ast.Call) and isinstance(x.func, ast.Attribute) and x.func.attr in MUT and unparse(x.func.value) in names:
                    return True
            return False

        L = [nd for nd in cfg.nodes if nd.kind == "stmt" and mutates(nd, loc_names)]
        G = [nd for nd in cfg.nodes if nd.kind == "stmt" and mutates(nd, glo_names)]
        if not L or not G:
            # one store through a layer chosen beforehand (`layer = local if key in local else self._global; layer[key] = v`)
            chosen = mixed | {n_ for n_, ds in defs.items() if ds and all(d.value is not None and any(unparse(x) in loc_names for x in ast.walk(d.value)) and any(unparse(x) in glo_names for x in ast.walk(d.value)) for d in ds)}
            C = [nd for nd in cfg.nodes if nd.kind == "stmt" and mutates(nd, chosen)] if chosen else []
            if C and not L and not G:
                n += 1
                seen_c = cfg.reach(C, skip_edge=lambda a_, b_, l_: l_ == "exc")
                again = [c_ for c_ in C if c_ in seen_c]
                ctx.ob("R8", f"{EN}:InternalEnvironDict.{nm}", "the layer is chosen once and written once", not again, key=f"InternalEnvironDict.{nm}|both-layers-written", where=loc(fn))
                continue
            raise AnalysisError(f"{EN}:InternalEnvironDict.{nm}: the two layers are not both written here (local {len(L)}, shared {len(G)})")
        n += 1
        seen = cfg.reach(L, skip_edge=lambda a_, b_, l_: a_ in L and l_ == "exc")
        hit = [g for g in G if g in seen]
        ctx.ob("R8", f"{EN}:InternalEnvironDict.{nm}", "no path that changed the private layer goes on to change the shared one", not hit, key=f"InternalEnvironDict.{nm}|both-layers-written", where=loc(hit[0].ast) if hit else loc(fn), path=cfg.fmt_path(cfg.path_to(seen, hit[0])) if hit else None)


def _no_pin_left(ctx, mod):
    """R9: keys captured without a private entry end without one."""
    from ..engine import dtable as _dt

    cap = mod.func("Env._capture_for_swap")
    stc = f"{EN}:Env._capture_for_swap"
    params = [a.arg for a in cap.args.args]
    if len(params) < 3:
        raise AnalysisError(f"{stc}: expected (self, key, local)")
    key_p, loc_p = params[1], params[2]
    merged = []  # return paths whose value is neither read from the private layer nor a constant marker
    n_paths = 0
    for p_ in _dt.paths(cap, loops="skip"):
        if p_.outcome != "return" or not _dt.feasible(p_):
            continue
        n_paths += 1
        v = p_.value
        if v is None or isinstance(v, ast.Constant) or (isinstance(v, ast.Name) and v.id in ("NotImplemented", "DELETE_VAR", "None")):
            continue
        if isinstance(v, ast.Subscript) and unparse(v.value) == loc_p:
            continue
        if isinstance(v, ast.Call) and isinstance(v.func, ast.Attribute) and unparse(v.func.value) == loc_p:
            continue
        merged.append(v)
    if n_paths < 2:
        raise AnalysisError(f"{stc}: fewer than 2 return paths enumerated")
    ctx.ob("R9", stc, "the capture step's answers are classified (private entry / merged view / absent marker)", True, key="capture|classified", where=loc(cap), detail=f"{n_paths} return paths, {len(merged)} answer with a value not read from the private layer")
    if not merged:
        return
    swap = flat(ctx, mod.func("Env.swap"), depth=2, skip=("_set_item", "_del_item", "_capture_for_swap"))
    st = f"{EN}:Env.swap"
    cfg = CFG(swap, catchall=("BaseException",))
    ylds = [n for n in cfg.nodes if n.kind == "stmt" and any(isinstance(x, ast.Yield) for x in ast.walk(n.ast))]
    if len(ylds) != 1:
        raise AnalysisError(f"{st}: expected one yield")
    after = set(cfg.reach(ylds))
    defs = df.all_defs(swap)
    locals_ = {n for n, ds in defs.items() if any(d.value is not None and unparse(d.value) in ("self._d._local", "self._d._thread_local.__dict__") for d in ds)}
    # records made at capture time under 'the key has no private entry'
    records = {}
    unguarded = set()
    for n in cfg.nodes:
        if n.kind != "stmt" or n in after:
            continue
        for c in calls_in(n.ast):
            if isinstance(c.func, ast.Attribute) and c.func.attr in ("add", "append") and isinstance(c.func.value, ast.Name) and c.args:
                k = unparse(c.args[0])
                if any(isinstance(e, ast.Compare) and len(e.ops) == 1 and isinstance(e.ops[0], (ast.In, ast.NotIn)) and unparse(e.left) == k and unparse(e.comparators[0]) in locals_ | {"self._d._local"} and (pol != isinstance(e.ops[0], ast.In)) for e, pol in facts_at(cfg, n)):
                    records.setdefault(c.func.value.id, []).append(n)
                else:
                    unguarded.add(c.func.value.id)
    # a record is evidence only if every entry was made under the guard
    for r_ in list(records):
        if r_ in unguarded:
            del records[r_]
    # private stores on the exit side
    stores = [n for n in cfg.nodes if n in after and n.kind == "stmt" and any(call_name(c) == "self._set_item" and const_value(kwarg(c, "thread_local")) is True for c in calls_in(n.ast))]
    if not stores:
        raise AnalysisError(f"{st}: no thread-local store on the exit side")
    seen_ast = set()
    for sn in stores:
        if id(sn.ast) in seen_ast:
            continue  # a statement of a finally block stands in the CFG once per way into it
        c = next(c for c in calls_in(sn.ast) if call_name(c) == "self._set_item")
        k = unparse(c.args[0])
        # (a) the store itself is governed by 'had a private entry' (not in the record), or
        # (b) a removal of the private entry, governed by membership in the record, follows it
        gov = any(isinstance(e, ast.Compare) and len(e.ops) == 1 and isinstance(e.ops[0], (ast.In, ast.NotIn)) and unparse(e.left) == k and unparse(e.comparators[0]) in records and (pol != isinstance(e.ops[0], ast.In)) for e, pol in facts_at(cfg, sn))
        removal = False
        for rn in cfg.reach([sn]):
            if rn.kind != "stmt":
                continue
            for rc in calls_in(rn.ast):
                nm = call_name(rc) or ""
                is_rm = (nm.endswith(".del_locally") and rc.args and unparse(rc.args[0]) == k) or (nm == "self._del_item" and rc.args and unparse(rc.args[0]) == k and const_value(kwarg(rc, "thread_local")) is True) or (nm.endswith(".pop") and unparse(rc.func.value) in locals_ | {"self._d._local"} and rc.args and unparse(rc.args[0]) == k)
                if is_rm and any(isinstance(e, ast.Compare) and len(e.ops) == 1 and isinstance(e.ops[0], (ast.In, ast.NotIn)) and unparse(e.left) == k and unparse(e.comparators[0]) in records and (pol == isinstance(e.ops[0], ast.In)) for e, pol in facts_at(cfg, rn)):
                    # same iteration: the removal is reached from the store without passing the loop head again
                    lp = next((a for a in ancestors(sn.ast) if isinstance(a, ast.For)), None)
                    if lp is None or lexically_inside(rn.ast, lp):
                        removal = True
        ok = gov or removal
        seen_ast.add(id(sn.ast))
        ctx.ob("R9", st, f"`{short(c, 50)}` on exit leaves no private copy for a key that had none when it was captured", ok, key="swap|restore-pins-private-copy", where=loc(c), detail=None if ok else f"the capture step can answer with `{short(merged[0], 40)}` (not read from the private layer) and the exit step writes that answer into the private layer for good" + ("" if records else "; no record of 'key had no private entry' is made at capture time"))


def _computed_default_stays_scoped(ctx, mod, meths):
    """R11: stores of values computed from `self` inside read paths."""
    n = 0
    for name in ("__getitem__", "get", "get_default", "__contains__"):
        fn = meths.get(name)
        if fn is None:
            continue
        cfg = None
        fdefs = df.all_defs(fn)
        for a in [x for x in ast.walk(fn) if isinstance(x, (ast.Assign, ast.NamedExpr))]:
            tgts = a.targets if isinstance(a, ast.Assign) else [a.target]
            st_t = [t for t in tgts if isinstance(t, ast.Subscript) and unparse(t.value) == "self._d"]
            vals = [a.value]
            if isinstance(a.value, ast.Name):
                vals += [d.value for d in fdefs.get(a.value.id, []) if d.value is not None]
            calls = [c for v_ in vals for c in ast.walk(v_) if isinstance(c, ast.Call) and any(isinstance(x, ast.Name) and x.id == "self" for x in c.args)]
            if not st_t or not calls:
                continue
            n += 1
            cfg = cfg or CFG(fn)
            guarded = False
            facts = []
            for nd in cfg.nodes_of(a if isinstance(a, ast.Assign) else stmt_of(a)):
                fa = _through_predicates(facts_at(cfg, nd), meths)
                facts = facts_text(fa)
                guarded = {unparse(e) for e, pol in fa if not pol} >= {"self._overlay_stack", "self._d._local"} or any((not pol) and unparse(e) in NO_OVERRIDES for e, pol in fa) and any((not pol) and unparse(e) == "self._overlay_stack" for e, pol in fa)
            ctx.ob("R11", f"{EN}:Env.{name}", f"`{short(a, 60)}`: the value computed from this thread's view enters the shared mapping only when no scope is active in the thread", guarded, key=f"{name}|scoped-computation-stored-shared", where=loc(a), detail=None if guarded else "facts: " + ("; ".join(facts) or "none") + " - the store is InternalEnvironDict.__setitem__, which writes the shared layer unless the key has a private entry")
    if n == 0:
        raise AnalysisError(f"{EN}:Env: no materialisation of a computed default found in the read paths")


def _iteration_sees_overlays(ctx, mod):
    """R10: keys taken from the overlays reach a yield of __iter__."""
    it = flat(ctx, mod.func("Env.__iter__"), 1)
    st = f"{EN}:Env.__iter__"
    tainted = set()
    # seeds: names bound by iterating an overlay (`for k, v in overlay.items()`, `for k in overlay`) where the overlay
    # itself is bound by iterating the stack
    ov_names = set()
    for n in ast.walk(it):
        if isinstance(n, (ast.For, ast.comprehension)) and "_overlay_stack" in unparse(n.iter):
            ov_names |= {x.id for x in ast.walk(n.target) if isinstance(x, ast.Name)}
    if not ov_names:
        raise AnalysisError(f"{st}: the overlay stack is not walked")
    changed = True
    rounds = 0
    while changed and rounds < 10:
        changed = False
        rounds += 1
        src = ov_names | tainted
        for n in ast.walk(it):
            new = set()
            if isinstance(n, (ast.For, ast.comprehension)):
                if {x.id for x in ast.walk(n.iter) if isinstance(x, ast.Name)} & src and "_overlay_stack" not in unparse(n.iter):
                    t = n.target
                    # `for k, v in overlay.items()`: the key is the first element
                    if isinstance(t, ast.Tuple) and t.elts and isinstance(t.elts[0], ast.Name):
                        new.add(t.elts[0].id)
                    elif isinstance(t, ast.Name):
                        new.add(t.id)
            elif isinstance(n, ast.Assign) and {x.id for x in ast.walk(n.value) if isinstance(x, ast.Name)} & src:
                for t in n.targets:
                    if isinstance(t, ast.Name):
                        new.add(t.id)
                    elif isinstance(t, ast.Subscript) and isinstance(t.value, ast.Name):
                        new.add(t.value.id)
            elif isinstance(n, ast.Assign) and any(isinstance(t, ast.Subscript) and isinstance(t.value, ast.Name) and {x.id for x in ast.walk(t.slice) if isinstance(x, ast.Name)} & src for t in n.targets):
                for t in n.targets:
                    if isinstance(t, ast.Subscript) and isinstance(t.value, ast.Name):
                        new.add(t.value.id)
            elif isinstance(n, ast.AugAssign) and isinstance(n.target, ast.Name) and {x.id for x in ast.walk(n.value) if isinstance(x, ast.Name)} & src:
                new.add(n.target.id)
            elif isinstance(n, ast.Call) and isinstance(n.func, ast.Attribute) and n.func.attr in ("add", "append", "update", "extend", "setdefault") and isinstance(n.func.value, ast.Name) and any({x.id for x in ast.walk(a) if isinstance(x, ast.Name)} & src for a in n.args):
                new.add(n.func.value.id)
            if new - tainted - ov_names:
                tainted |= new - ov_names
                changed = True
    ylds = [n for n in ast.walk(it) if isinstance(n, (ast.Yield, ast.YieldFrom)) and n.value is not None]
    if not ylds:
        raise AnalysisError(f"{st}: no yield")
    hit = [y for y in ylds if {x.id for x in ast.walk(y.value) if isinstance(x, ast.Name)} & tainted]
    ok = bool(hit)
    ctx.ob("R10", st, "some yield of the iteration takes its key from the overlays", ok, key="__iter__|overlay-keys-never-yielded", where=loc(hit[0] if hit else ylds[0]), detail=None if ok else f"names carrying overlay keys: {sorted(tainted)}; none of them reaches a yield - a variable that only an overlay provides is visible to [] / in / detype() but not to iteration, items() or dict(env)")


def _through_predicates(facts, meths):
    """facts with calls of argument-less predicate methods of the class (`self._sees_private_values()`, one `return <expr>`)
    replaced by what the returned expression implies (`bool(A or B)` false -> A false, B false)"""
    from ..engine.cfg import implied_facts

    out = []
    for e, pol in facts:
        out.append((e, pol))
        # the same predicate expanded in place (helper-transparent view): `bool(A or B)` false -> A false, B false
        if isinstance(e, ast.Call) and call_name(e) == "bool" and len(e.args) == 1 and not e.keywords:
            out += list(implied_facts(e.args[0], pol))
        if isinstance(e, ast.Call) and not e.args and not e.keywords and isinstance(e.func, ast.Attribute) and unparse(e.func.value) == "self" and e.func.attr in meths:
            rs = [r for r in walk_local(meths[e.func.attr]) if isinstance(r, ast.Return) and r.value is not None]
            if len(rs) == 1:
                v = rs[0].value
                if isinstance(v, ast.Call) and call_name(v) == "bool" and len(v.args) == 1:
                    v = v.args[0]
                out += list(implied_facts(v, pol))
    return out


def _uncopy(e):
    """dict(x) / x.copy() / {**x}: the mapping whose content is copied"""
    if isinstance(e, ast.Call) and call_name(e) == "dict" and len(e.args) == 1 and not e.keywords:
        return e.args[0]
    if isinstance(e, ast.Call) and isinstance(e.func, ast.Attribute) and e.func.attr == "copy" and not e.args:
        return e.func.value
    if isinstance(e, ast.Dict) and len(e.keys) == 1 and e.keys[0] is None:
        return e.values[0]
    return e


def check(ctx):
    ctx.not_decided += ["actual thread interleavings", "user code mutating the overlay dict it handed in"]
    ctx.rule("R1", "Env.swap captures each key before setting it, writes only thread-locally, and restores every captured key and the overlay in a finally that every exit passes", floor=8)
    ctx.rule("R2", "every read path compares a value taken from an overlay or the store with DELETE_VAR before returning/yielding/exporting it, and resolves a key by the top-most layer that contains it", floor=8)
    ctx.rule("R3", "worker threads read the spawner's swapped values before start() and install them before any other environment access in run()", floor=4)
    ctx.rule("R8", "a write or delete touches one layer of the two-layer store: in InternalEnvironDict.__setitem__ / __delitem__ / pop / popitem no path that changed the thread-private layer goes on to change the shared one (a delete inside a scope that also drops the shared value is seen by every other thread and is not undone when the scope ends)", floor=4)
    ctx.rule("R9", "a scope leaves no private copy behind: when the capture step can answer with a value that was not read from the thread-private layer (the shared mapping, a default, an overlay), the exit step removes the private entry it wrote for such a key (governed by a record, made at capture time, that the key had no private entry) - otherwise the old value stays pinned in the thread's private layer: it shows up in the mapping children receive although it was a default, and later assignments / deletions by this thread stay invisible to every other thread", floor=1)
    ctx.rule("R10", "iteration sees what [] sees: keys that only an overlay provides reach a yield of Env.__iter__ (so items(), dict(env) and `for k in env` agree with `in`, [] and detype())", floor=1)
    ctx.rule("R11", "what a read computes from the thread's scoped view does not enter the shared mapping: a store `self._d[key] = <callable>(self)` in a read path of Env (the materialisation of a computed default) is governed by 'no overlay and no private entries in this thread' - otherwise a default read inside `swap(XDG_DATA_HOME=..)` keeps the value computed there, for every thread and every child, after the scope has ended", floor=1)
    ctx.rule("R7", "a scoped override is private from its first instant: asked for a thread-local set, _set_item reaches the thread-local store on every normal path - no shortcut (same value, same object, unchanged) returns before it; writes and deletes inside the scope are routed by 'is the key in the private layer', so a swap that left no private entry sends them to the shared mapping", floor=1)
    ctx.rule("R6", "what a worker thread inherits is the spawning thread's whole private view: the hand-over accessor returns a complete copy of the thread-local overrides - masks (DELETE_VAR) included, nothing filtered out or rewritten", floor=2)
    ctx.rule("R5", "thread-local state crosses a thread boundary only as a copy: no public method of Env / its dict hands out a thread-local container itself, and none installs a caller's object as thread-local state", floor=2)
    ctx.rule("R4", "thread-local environment data does not flow into state shared between threads", floor=1)

    mod = ctx.repo.module(EN)
    env_cls = mod.cls("Env")
    meths = class_methods(env_cls)
    swap = flat(ctx, mod.func("Env.swap"), depth=2, skip=("_set_item", "_del_item", "_capture_for_swap"))
    st = f"{EN}:Env.swap"
    cfg = CFG(swap, catchall=("BaseException",))
    sets = [n for n in cfg.nodes if n.kind == "stmt" and any(call_name(c) == "self._set_item" for c in calls_in(n.ast))]
    ylds = [n for n in cfg.nodes if n.kind == "stmt" and any(isinstance(x, ast.Yield) for x in ast.walk(n.ast))]
    if len(ylds) != 1 or not sets:
        raise AnalysisError(f"{st}: expected one yield and some _set_item calls")
    y = ylds[0]
    before = [n for n in sets if y in cfg.reach([n]) and not any(isinstance(a, ast.Try) and n.ast in ast.walk(ast.Module(body=a.finalbody, type_ignores=[])) for a in ancestors(n.ast))]
    after = [n for n in sets if n not in before]
    # the capture dict: the local that receives `<d>[key] = self._capture_for_swap(...)`
    def _cap_of(m):
        """(dict name, key text) when CFG node m records a captured state: `<d>[k] = capture(..)` / `<d>.setdefault(k, capture(..))`"""
        if m.kind != "stmt" or not any(call_name(cc) == "self._capture_for_swap" for cc in calls_in(m.ast)):
            return None
        a_ = m.ast
        if isinstance(a_, ast.Assign) and isinstance(a_.targets[0], ast.Subscript) and isinstance(a_.targets[0].value, ast.Name):
            return a_.targets[0].value.id, unparse(a_.targets[0].slice)
        if isinstance(a_, ast.Expr) and isinstance(a_.value, ast.Call) and isinstance(a_.value.func, ast.Attribute) and a_.value.func.attr == "setdefault" and isinstance(a_.value.func.value, ast.Name) and a_.value.args:
            return a_.value.func.value.id, unparse(a_.value.args[0])
        return None

    capd = {_cap_of(m)[0] for m in cfg.nodes if _cap_of(m)}
    if len(capd) != 1:
        raise AnalysisError(f"{st}: expected one dict of captured states, found {sorted(capd)}")
    capd = next(iter(capd))
    for n in before:
        c = next(c for c in calls_in(n.ast) if call_name(c) == "self._set_item")
        k = unparse(c.args[0])
        tl = const_value(kwarg(c, "thread_local")) is True
        ctx.ob("R1", st, f"`{short(c)}` writes the thread-local layer only", tl, key="swap|set-not-thread-local", where=loc(c))
        caps = [m for m in cfg.nodes if _cap_of(m) == (capd, k)]
        loop = next((a for a in ancestors(n.ast) if isinstance(a, ast.For)), None)
        same_iter = [m for m in caps if loop is not None and lexically_inside(m.ast, loop)]
        # every way from the head of the iteration to the set passes the capture - or the branch that says the key is
        # captured already (`k not in old` false): then the first capture is the state to restore

        def _known(a_, b_, label, k=k):
            if a_.kind != "if" or label not in ("true", "false"):
                return False
            return any(isinstance(e, ast.Compare) and len(e.ops) == 1 and isinstance(e.ops[0], (ast.In, ast.NotIn)) and unparse(e.left) == k and unparse(e.comparators[0]) == capd and (pol == isinstance(e.ops[0], ast.In)) for e, pol in implied_facts(a_.ast.test, label == "true"))

        ok = bool(same_iter) and loop is not None
        if ok:
            heads = cfg.nodes_of(loop)
            seen = cfg.reach(heads, stop=lambda mm: mm in same_iter, skip_edge=_known)
            ok = n not in seen or n in same_iter
        ctx.ob("R1", st, f"`{short(c)}`: the previous state of the key is captured first, in the same iteration (or the key is known to be captured already)", ok, key="swap|set-before-capture", where=loc(c))
        # entering is part of the scope: a set that raises (conversion / validation of the value) must reach the restore
        exc_succ = [m_ for m_, l in n.succ if l == "exc"]
        rl_ = [m_ for m_ in cfg.nodes if m_.kind == "for" and any(unparse(m_.ast.iter) in (f"{c_}.items()", c_, f"list({c_}.items())") for c_ in copies_of(df.all_defs(swap), capd))]
        ok_e = bool(exc_succ) and bool(rl_)
        if ok_e:
            seen_e = cfg.reach(exc_succ, stop=lambda mm: mm in rl_, include_starts=True)
            ok_e = cfg.exit not in seen_e and cfg.raise_exit not in seen_e
        ctx.ob("R1", st, f"`{short(c)}` failing on entry (a value that does not convert) still reaches the restore of what was set before it", ok_e, key="swap|entry-outside-restore", where=loc(c), detail=None if ok_e else "the set is not protected by the try whose finally restores: the keys set before the failing one keep their scoped values for good")
    # a key is captured once: with more than one source of keys, a later capture must not replace an earlier one
    cap_nodes = [m for m in cfg.nodes if _cap_of(m) and _cap_of(m)[0] == capd]
    cap_loops = []
    for m in cap_nodes:
        lp_ = next((a for a in ancestors(m.ast) if isinstance(a, ast.For)), None)
        if lp_ is not None and lp_ not in cap_loops:
            cap_loops.append(lp_)
    cap_loops.sort(key=lambda l_: l_.lineno)
    for m in cap_nodes:
        lp_ = next((a for a in ancestors(m.ast) if isinstance(a, ast.For)), None)
        if lp_ is None or lp_ is cap_loops[0] or len({id(x_.ast) for x_ in cap_nodes}) < 2:
            continue
        kk = _cap_of(m)[1]
        keeps_first = isinstance(m.ast, ast.Expr) or any(isinstance(e, ast.Compare) and len(e.ops) == 1 and isinstance(e.ops[0], (ast.In, ast.NotIn)) and unparse(e.left) == kk and unparse(e.comparators[0]) == capd and (pol != isinstance(e.ops[0], ast.In)) for e, pol in facts_at(cfg, m))
        ctx.ob("R1", st, f"`{short(m.ast, 60)}` (second source of keys) keeps an earlier capture of the same key", keeps_first, key="swap|second-capture-replaces-first", where=loc(m.ast), detail=None if keeps_first else "a key given by both sources is captured twice: the second capture is the value the first source just set, and that is what the exit 'restores'")
    # restore in finally
    cap_names = copies_of(df.all_defs(swap), capd)
    restore_loops = [n for n in cfg.nodes if n.kind == "for" and any(unparse(n.ast.iter) in (f"{c_}.items()", c_, f"list({c_}.items())") for c_ in cap_names)]
    ok = bool(restore_loops)
    path = None
    if ok:
        ok, path = cfg.must_pass(y, lambda m: m in restore_loops)
    ctx.ob("R1", st, "every exit after the yield (return, exception, generator close) passes the restore loop over all captured keys", ok, key="swap|restore-not-on-all-exits", where=loc(swap), path=cfg.fmt_path(path) if path else None)
    for n in after:
        c = next(c for c in calls_in(n.ast) if call_name(c) == "self._set_item")
        ctx.ob("R1", st, f"restore `{short(c)}` writes the thread-local layer", const_value(kwarg(c, "thread_local")) is True, key="swap|restore-not-thread-local", where=loc(c))
    dels = [n for n in cfg.nodes if n.kind == "stmt" and any(call_name(c) == "self._del_item" and const_value(kwarg(c, "thread_local")) is True for c in calls_in(n.ast))]
    ok = False
    for d in dels:
        if any(t.endswith("is NotImplemented") and pol for t, pol in nfacts(cfg, d)):
            ok = True
    ctx.ob("R1", st, "a key that did not exist before (NotImplemented marker) is deleted again on exit", ok, key="swap|no-delete-for-new-key", where=loc(swap))
    # no step of the restore loop may abort it: user code inside the scope is free to delete a variable the swap
    # introduced, so removing "a key that did not exist before" must tolerate that the key is gone again
    di = mod.func("Env._del_item")
    del_raises = any(isinstance(n_, ast.Raise) and n_.exc is not None and "KeyError" in unparse(n_.exc) for n_ in walk_local(di))
    for d in {id(x.ast): x for x in dels}.values():
        protected = False
        for a_ in ancestors(d.ast):
            if isinstance(a_, (ast.For, ast.While)):
                break
            if isinstance(a_, ast.Try) and any(d.ast is x or lexically_inside(d.ast, x) for x in a_.body) and any(h_.type is None or any(t_ in unparse(h_.type) for t_ in ("KeyError", "LookupError", "Exception", "BaseException")) for h_ in a_.handlers):
                protected = True
            if isinstance(a_, ast.With) and any(isinstance(it.context_expr, ast.Call) and (call_name(it.context_expr) or "").split(".")[-1] == "suppress" and any(unparse(x_) in ("KeyError", "LookupError", "Exception", "BaseException") for x_ in it.context_expr.args) for it in a_.items):
                protected = True
        guarded = any(pol and isinstance(e, ast.Compare) and isinstance(e.ops[0], ast.In) for e, pol in facts_at(cfg, d) if "NotImplemented" not in unparse(e))
        ctx.ob("R1", st, f"`{short(d.ast, 60)}` in the restore loop cannot abort it (the key may have been deleted inside the scope: absence is tolerated, so the remaining variables are still restored)", (not del_raises) or protected or guarded, key="swap|restore-step-can-abort", where=loc(d.ast))
    cap = mod.func("Env._capture_for_swap")
    csrc = unparse(cap)
    ok = "NotImplemented" in csrc and "in local" in csrc
    ctx.ob("R1", f"{EN}:Env._capture_for_swap", "capture probes the thread-local layer first (so a mask survives nesting) and marks absent keys", ok, key="capture|shape")
    push = [n for n in cfg.nodes if n.kind == "stmt" and any(call_name(c) == "self._overlay_stack.append" for c in calls_in(n.ast))]
    pop = [n for n in cfg.nodes if n.kind == "stmt" and any(call_name(c) == "self._overlay_stack.pop" for c in calls_in(n.ast))]
    ok = bool(push) and bool(pop)
    if ok:
        # "pushed" flag idiom: a local set to True by the statement right after the push (nothing can fail in between)
        # and to a false constant everywhere else stands for 'the push happened'
        flags = set()
        for pn in push:
            blk = getattr(pn.ast, "_xv_parent", None)
            for fld in ("body", "orelse", "finalbody"):
                sts = getattr(blk, fld, None) if blk is not None else None
                if isinstance(sts, list) and pn.ast in sts:
                    i_ = sts.index(pn.ast)
                    nx = sts[i_ + 1] if i_ + 1 < len(sts) else None
                    if isinstance(nx, ast.Assign) and len(nx.targets) == 1 and isinstance(nx.targets[0], ast.Name) and const_value(nx.value, None) is True:
                        f_ = nx.targets[0].id
                        others = [a_ for a_ in walk_local(swap) if isinstance(a_, ast.Assign) and any(isinstance(t_, ast.Name) and t_.id == f_ for t_ in a_.targets) and a_ is not nx]
                        if all(const_value(a_.value, 1) in (False, None, 0) for a_ in others):
                            flags.add(f_)
        assume = cfg.stable_guards(push[0]) + [(f_, True) for f_ in flags]
        ok, path = cfg.must_pass(push, lambda m: m in pop, skip_edge=cfg.assume_edges(assume))
        gp = {(unparse(t), p) for t, p in facts_at(cfg, push[0])}
        ok = ok and all(gp <= {(unparse(t), p) for t, p in facts_at(cfg, n)} or any((f_, True) in {(unparse(t), p) for t, p in facts_at(cfg, n)} for f_ in flags) for n in pop)
    ctx.ob("R1", st, "the overlay pushed on entry is popped on every exit, under the same condition", ok, key="swap|overlay-not-popped", where=loc(swap))
    # the push must happen before the try whose finally pops (no pop without push)
    ok = bool(push) and bool(pop) and all(cfg.dominated(p, lambda m: m in push) or True for p in pop)
    # the overlay stack itself is thread-local
    osk = meths.get("_overlay_stack")
    ok = osk is not None and "_overlay_local.__dict__" in unparse(osk)
    ctx.ob("R1", f"{EN}:Env._overlay_stack", "the overlay stack lives in threading.local storage", ok, key="overlay-stack-not-thread-local")
    init = meths.get("__init__")
    ok = init is not None and any(isinstance(n, ast.Assign) and unparse(n.targets[0]) == "self._overlay_local" and "threading.local" in unparse(n.value) for n in ast.walk(init))
    ctx.ob("R1", f"{EN}:Env.__init__", "_overlay_local is a threading.local()", ok, key="overlay-local-init")

    # ------------------------------------------------------------------ R2
    for name in ("__getitem__", "__contains__", "__iter__", "detype"):
        fn = meths.get(name)
        if fn is None:
            raise AnchorMissing(f"{EN}:Env.{name}")
        st2 = f"{EN}:Env.{name}"
        fn = flat(ctx, fn, depth=2, skip=("get_detyper", "rawkeys", "_resolve_default", "get_converter"))
        c2 = CFG(fn)
        defs = df.all_defs(fn)
        # names that hold overlay dicts / the store / a merged copy
        layer_names = {"self._d"}
        for n_, ds in defs.items():
            for d in ds:
                if d.kind == "for" and "_overlay_stack" in unparse(d.value):
                    layer_names.add(n_)
                if d.kind == "assign" and d.value is not None and unparse(d.value) in ("dict(self._d)",):
                    layer_names.add(n_)
        # ... under every local name they go by (a merged copy built by a helper comes back under the caller's own local)
        for n_ in sorted(layer_names - {"self._d"}):
            layer_names |= alias_class(defs, n_)
        n_reads = 0
        for node in c2.nodes:
            if node.ast is None or node.kind in ("with_exit", "finally"):
                continue
            reads = []
            hdr = node.ast
            scope = [hdr.test] if node.kind in ("if", "while") else [hdr.iter] if node.kind == "for" else [hdr] if node.kind == "stmt" else []
            for sc in scope:
                for x in ast.walk(sc):
                    if isinstance(x, ast.Subscript) and isinstance(x.ctx, ast.Load) and unparse(x.value) in layer_names:
                        reads.append(("sub", x))
                    if isinstance(x, ast.Call) and last_attr(x) == "items" and isinstance(x.func, ast.Attribute) and unparse(x.func.value) in layer_names:
                        reads.append(("items", x))
            for kind, x in reads:
                n_reads += 1
                # (a) read directly inside a comparison with the mask
                p = parent(x)
                if isinstance(p, ast.Compare) and _mentions_mask(p):
                    ctx.ob("R2", st2, f"`{short(p, 60)}` compares the value with the mask where it is read", True, where=loc(x))
                    continue
                # (b) value bound to a name: every path from here to a use (return/yield/store/exit) tests it
                var = None
                if kind == "sub" and isinstance(node.ast, ast.Assign):
                    var = unparse(node.ast.targets[0]) if len(node.ast.targets) == 1 else unparse(node.ast.targets[-1])
                elif kind == "items" and node.kind == "for" and isinstance(node.ast.target, ast.Tuple):
                    var = unparse(node.ast.target.elts[1])
                if var is None:
                    ctx.ob("R2", st2, f"`{short(x, 60)}`: value read from a layer is bound to a name or compared at once", False, key=f"{name}|unrecognised-read|{unparse(x)}", where=loc(x))
                    continue
                vset = copies_of(defs, var)
                tests = lambda m, var=vset: m.kind in ("if", "while") and _mentions_mask(m.ast.test, var)
                starts = [m for m, l in node.succ if l in (None, "iter") and not tests(m)]

                def uses(m, var=vset):
                    if m.kind != "stmt" or getattr(m.ast, "_xv_call_marker", False) or getattr(m.ast, "_xv_bind", False):
                        return False
                    a = m.ast
                    if isinstance(a, ast.Return) and a.value is not None and var & df.names_read(a.value):
                        return True
                    if any(isinstance(z, (ast.Yield, ast.YieldFrom)) and z.value is not None and var & df.names_read(z.value) for z in ast.walk(a)):
                        return True
                    if isinstance(a, ast.Assign) and isinstance(a.targets[0], ast.Subscript) and var & df.names_read(a.value):
                        return True
                    # value passed to something that exports it (detyper(val))
                    if any(isinstance(z, ast.Call) and any(unparse(g) in var for g in z.args) and not (call_name(z) or "").startswith("isinstance") for z in ast.walk(a)):
                        return True
                    return False

                seen = c2.reach(starts, stop=tests, include_starts=True)
                bad = [m for m in seen if uses(m) and not tests(m)]
                ctx.ob("R2", st2, f"`{var}` read by `{short(x, 40)}` is compared with DELETE_VAR before it is returned, yielded or exported", not bad, key=f"{name}|mask-not-tested|{var}", where=loc(x), path=c2.fmt_path(c2.path_to(seen, bad[0])) if bad else None)
        if n_reads == 0:
            raise AnalysisError(f"{st2}: no layer reads recognised")
        n_tests = sum(1 for x in ast.walk(fn) if isinstance(x, ast.Compare) and _mentions_mask(x))
        ctx.ob("R2", st2, f"the mask is consulted for every layer the method reads ({n_tests} DELETE_VAR comparisons, at least {MASK_TEST_FLOOR[name]} needed: overlays and store)", n_tests >= MASK_TEST_FLOOR[name], key=f"{name}|mask-tests-missing", where=loc(fn))
    # top-most layer wins, in every read path
    for name in ("__getitem__", "__contains__"):
        fn = meths[name]
        loops = [n for n in ast.walk(fn) if isinstance(n, ast.For) and "_overlay_stack" in unparse(n.iter)]
        ok = bool(loops) and all(unparse(l.iter).startswith("reversed(") for l in loops) and all(any(isinstance(s, (ast.Return, ast.Raise)) for s in ast.walk(l)) for l in loops)
        ctx.ob("R2", f"{EN}:Env.{name}", "overlays are consulted top-down and the first layer containing the key decides", ok, key=f"{name}|overlay-order")
    it = meths["__iter__"]
    # the mask set of __iter__ must shadow: a key decided by a higher layer is not reconsidered below
    loops = [n for n in ast.walk(it) if isinstance(n, ast.For) and "_overlay_stack" in unparse(n.iter)]
    ok = False
    for l in loops:
        inner = [n for n in ast.walk(l) if isinstance(n, ast.For) and n is not l and last_attr(n.iter) == "items"]
        for i in inner:
            if not isinstance(i.target, ast.Tuple):
                continue
            k, v = (unparse(e) for e in i.target.elts)
            icfg = CFG(i.body)
            for n in icfg.nodes:
                if n.kind == "stmt" and any(last_attr(c) in ("add", "setdefault", "append") and c.args and unparse(c.args[0]) == k for c in calls_in(n.ast)):
                    facts = facts_text(facts_at(icfg, n))
                    if not any(f"{v} is DELETE_VAR" in f and not f.startswith("not ") for f in facts):
                        ok = True  # recorded for every key, masked or not -> shadowing possible
    # other accepted idiom: the layers are merged bottom-up (forward over the stack, later layers overwrite), and
    # the mask is read from the merged mapping — the same shape detype() uses
    for dc in (n for n in ast.walk(it) if isinstance(n, ast.DictComp)):
        g = dc.generators
        if len(g) == 2 and unparse(g[0].iter) == "self._overlay_stack" and isinstance(g[0].target, ast.Name) and unparse(g[1].iter) == f"{g[0].target.id}.items()" and isinstance(g[1].target, ast.Tuple) and [unparse(e) for e in g[1].target.elts] == [unparse(dc.key), unparse(dc.value)] and not g[0].ifs and not g[1].ifs:
            ok = True
    for l in loops:
        if unparse(l.iter) == "self._overlay_stack" and any(last_attr(c) == "update" and c.args and unparse(c.args[0]) == unparse(l.target) for c in calls_in(ast.Module(body=l.body, type_ignores=[]), local=False)):
            ok = True
    ctx.ob("R2", f"{EN}:Env.__iter__", "iteration decides a key's mask at the top-most overlay that contains it (a value above a mask unmasks, as in [] / in / detype)", ok, key="__iter__|mask-not-shadowed", where=loc(it))
    dt = meths["detype"]
    # (helper-transparent view: the merge of the layers may be a phase of its own)
    loops = [n for n in ast.walk(flat(ctx, dt, depth=2, skip=("get_detyper",))) if isinstance(n, ast.For) and "_overlay_stack" in unparse(n.iter)]
    ok = bool(loops) and all(not unparse(l.iter).startswith("reversed(") and any(last_attr(c) == "update" for c in calls_in(ast.Module(body=l.body, type_ignores=[]), local=False)) for l in loops)
    ctx.ob("R2", f"{EN}:Env.detype", "overlays are merged bottom-up with update() (top-most wins)", ok, key="detype|overlay-order")
    da = meths.get("detype_all")
    if da is not None:
        gi = [c for c in calls_in(da) if call_name(c) in ("self.__getitem__",)]
        from .c19 import _enclosing_try_with_handler

        ok = bool(gi) and all(_enclosing_try_with_handler(c, {"KeyError"}, da)[0] is not None for c in gi)
        ctx.ob("R2", f"{EN}:Env.detype_all", "defaults are read through __getitem__ (mask-aware) with the masked case skipped", ok, key="detype_all|mask")
    g = meths.get("get")
    ok = g is not None and "self[key]" in unparse(g) and "KeyError" in unparse(g)
    ctx.ob("R2", f"{EN}:Env.get", "get() is __getitem__ with KeyError mapped to the default", ok, key="get|shape")

    # ------------------------------------------------------------------ R3
    for rel, q in ((PX, "ProcProxyThread"), (PO, "PopenThread")):
        m2 = ctx.repo.module(rel)
        init = m2.func(f"{q}.__init__")
        run = m2.func(f"{q}.run")
        ic = CFG(init)
        reads = [n for n in ic.nodes if n.kind == "stmt" and any((call_name(c) or "").endswith("env.get_swapped_values") for c in calls_in(n.ast))]
        starts = [n for n in ic.nodes if n.kind == "stmt" and any(call_name(c) == "self.start" for c in calls_in(n.ast))]
        ok = bool(reads) and bool(starts) and all(ic.dominated(s, lambda m_: m_ in reads) for s in starts)
        ctx.ob("R3", f"{rel}:{q}.__init__", "the spawner's swapped values are read before the thread is started", ok, key=f"{q}|read-after-start", where=loc(init))
        rc = CFG(run)
        inst = [n for n in rc.nodes if n.kind == "stmt" and any((call_name(c) or "").endswith("env.set_swapped_values") for c in calls_in(n.ast))]
        envuse = [n for n in rc.nodes if n.ast is not None and n.kind in ("stmt", "if", "while", "for", "with") and n not in inst and any("XSH.env" in unparse(x) for x in ([n.ast.test] if n.kind in ("if", "while") else [n.ast.iter] if n.kind == "for" else n.ast.items if n.kind == "with" else [n.ast]))]
        ok = bool(inst) and all(rc.dominated(u, lambda m_: m_ in inst) for u in envuse)
        ctx.ob("R3", f"{rel}:{q}.run", f"the inherited view is installed before any other environment access ({len(envuse)} uses)", ok, key=f"{q}|env-use-before-install", where=loc(run))
    model = _TLModel(mod)
    # the view handed to a worker: whatever Env.get_swapped_values() ends in - in Env itself or in an accessor of its dict
    copied, roots = _handover(ctx, mod, model)
    # ... is a copy of a container that lives in threading.local storage: a property returning `self.<threading.local>.__dict__`
    is_tl = bool(roots) and all(a_ in model.views[c] and any(isinstance(r, ast.Return) and r.value is not None and any(f"self.{t}.__dict__" in unparse(r.value) for t in model.tl[c]) for r in walk_local(model.ms[c][a_])) for c, a_ in roots)
    ctx.ob("R3", f"{EN}:InternalEnvironDict", "the override layer is a threading.local dict; the view handed to a worker is a copy", is_tl and copied, key="ied|local-shape")
    _thread_local_boundary(ctx, mod, model)
    _local_set_always_lands(ctx, mod)
    _one_layer_per_write(ctx, mod)
    _no_pin_left(ctx, mod)
    _computed_default_stays_scoped(ctx, mod, meths)
    _iteration_sees_overlays(ctx, mod)
    # installing: the function that does the work empties and refills the thread's own container - the same one
    icls, ifn, iparam = _installer(model)
    idefs = df.all_defs(ifn)
    icfg = CFG(ifn)
    meth_calls = [(n, c) for n in icfg.nodes if n.kind == "stmt" and isinstance(n.ast, ast.Expr) for c in [n.ast.value] if isinstance(c, ast.Call) and isinstance(c.func, ast.Attribute)]
    clears = [(n, model.root_via_local(c.func.value, icls, idefs)) for n, c in meth_calls if c.func.attr == "clear" and not c.args and not c.keywords]
    fills = [(n, model.root_via_local(c.func.value, icls, idefs)) for n, c in meth_calls if c.func.attr == "update" and len(c.args) == 1 and not c.keywords and isinstance(c.args[0], ast.Name) and c.args[0].id == iparam]
    fills = [(n, rt) for n, rt in fills if rt is not None]
    ok = bool(fills) and not [d for d in idefs.get(iparam, []) if d.kind != "param"]
    for n, rt in fills:
        before = [m for m, rt2 in clears if rt2 == rt]
        # (roots is empty when the hand-over itself is not recognised as whole: reported there, R6)
        ok = ok and (not roots or rt in roots) and bool(before) and icfg.dominated(n, lambda m_: m_ in before)
    ctx.ob("R3", f"{EN}:{icls}.{ifn.name}", "installing a view replaces the thread's own layer only: the container the view was copied from is emptied, then filled with the view", ok, key="ied|install-shape", where=loc(ifn))

    # ------------------------------------------------------------------ R4
    # taint: values derived from iterating self._d (ChainMap over the thread-local layer) stored in self.<attr>
    n_sinks = 0
    for name, fn in meths.items():
        # on the helper-transparent view: the mapping that is memoised may be built by a helper of the method (a phase of
        # detype() extracted into its own method) - its provenance is then only visible with the helper expanded in place
        if any(isinstance(n, ast.Assign) and not isinstance(n.value, ast.Constant) and any(isinstance(t, ast.Attribute) and isinstance(t.value, ast.Name) and t.value.id == "self" for t in n.targets) for n in walk_local(fn)):
            fn = flat(ctx, fn, depth=2, skip=("get_detyper", "rawkeys", "_resolve_default", "get_converter"))
        defs = df.all_defs(fn)
        c4 = None
        for n in walk_local(fn):
            if isinstance(n, ast.Assign) and any(isinstance(t, ast.Attribute) and isinstance(t.value, ast.Name) and t.value.id == "self" for t in n.targets):
                tgt = [t for t in n.targets if isinstance(t, ast.Attribute)][0]
                if isinstance(n.value, ast.Constant):
                    continue
                nval = _uncopy(n.value)
                lv = df.leaves(defs, nval)
                # in-place growth of a local dict from items of a tainted dict
                tainted = any(t == ("attr", "self._d") for t in lv)
                if isinstance(nval, ast.Name):
                    # (the mapping under every local name it goes by: plain copies in either direction are one object)
                    vnames = alias_class(defs, nval.id)
                    for s in walk_local(fn):
                        if isinstance(s, ast.Assign) and isinstance(s.targets[0], ast.Subscript) and unparse(s.targets[0].value) in vnames:
                            loop = next((a for a in ancestors(s) if isinstance(a, ast.For)), None)
                            if loop is not None:
                                il = df.leaves(defs, loop.iter)
                                if ("attr", "self._d") in il:
                                    tainted = True
                if not tainted:
                    continue
                n_sinks += 1
                # accepted only if the store is guarded by "this thread has no local overrides"
                c4 = c4 or CFG(fn)
                facts = []
                guarded = False
                for nd in c4.nodes_of(n):
                    fa = _through_predicates(facts_at(c4, nd), meths)
                    facts = facts_text(fa)
                    guarded = any((not pol) and unparse(e) in NO_OVERRIDES for e, pol in fa)
                ctx.ob("R4", f"{EN}:Env.{name}", f"`{short(n, 60)}`: a mapping computed from the thread's view (swaps included) is stored in the shared attribute {unparse(tgt)} only when the thread has no local overrides", guarded, key=f"{name}|thread-local-into-shared|{unparse(tgt)}", where=loc(n), detail="facts: " + "; ".join(facts))
        # and the shared cache is handed out only under the same condition
    dcfg = CFG(dt)
    for n in dcfg.nodes:
        if n.kind == "stmt" and isinstance(n.ast, ast.Return) and n.ast.value is not None and unparse(_uncopy(n.ast.value)) == "self._detyped":
            fa = _through_predicates(facts_at(dcfg, n), meths)
            facts = facts_text(fa)
            guarded = any((not pol) and unparse(e) in NO_OVERRIDES for e, pol in fa)
            ctx.ob("R4", f"{EN}:Env.detype", "the shared cache is handed out only to a thread without local overrides", guarded, key="detype|shared-cache-read-with-overrides", where=loc(n.ast), detail="facts: " + "; ".join(facts))
    if n_sinks < 1:
        raise AnalysisError("no memoisation of the thread's view found in Env (the _detyped cache is expected)")


META = {
    "technique": "static analysis: CFG must-pass-through over swap's finally (generator exits included), per-read typestate of values taken from overlay/store layers against the DELETE_VAR mask, dominance of view installation in worker threads, taint from the thread-local layer to shared attributes",
    "text": "Decides for all nestings/exits and all threads the structural reasons the property holds: each key is "
    "captured before it is set and set thread-locally; the restore loop, the NotImplemented->delete branch and the "
    "overlay pop are on every path from the yield to any exit (BaseException and generator close included); in "
    "[], in, iteration and detype every value read from an overlay or the store reaches a return/yield/export only "
    "through a DELETE_VAR comparison, and the top-most layer containing a key decides in all of them; both thread "
    "classes read get_swapped_values() before start() and call set_swapped_values() before any other env access; "
    "and a mapping computed from the thread's view is cached in / served from shared state only when the thread has "
    "no local overrides. Schedules themselves are not explored.",
    "note": "Decides the listed structural clauses, not the behaviour. Trusted: threading.local isolation, "
    "contextlib.contextmanager semantics (generator close raises at the yield).",
    "more": "Thread-local containers cross a thread boundary only as copies (no public method returns one uncopied or adopts a caller's object). The hand-over accessor returns the whole thread-local view (masks included); asked for a thread-local set, _set_item reaches the private layer on every normal path.",
}

META["more"] += ' No write or delete changes both layers of the two-layer store. Env.swap captures a key once (a second source keeps the first capture), a set that fails on entry still reaches the restore, the overlay pop may be governed by a flag set right after the push, and the exit leaves no private copy for a key that had none when captured (four defects repaired). Iteration yields keys that only an overlay provides.'

META["more"] += " A default computed from the thread's scoped view must not be stored in the shared mapping (known finding: Env.__getitem__ materialises computed defaults unconditionally)."
