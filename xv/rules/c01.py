"""C01 — Python superset: the parser builds CPython's tree.

Tree equality over all programs is not decidable here (grammar inclusion between an
LALR grammar with ~1600 resolved conflicts and CPython's PEG grammar).  Decided are
clauses over the **effective grammar** of the parser class selected for the running
interpreter (dumped from the working tree, with the LALR table generated from it to
tell live productions from never-reduced ones) and the MRO-resolved action functions:
node-kind and token exhaustiveness against the interpreter's own ``ast``/``token``
modules, operator tables against ``ast._Unparser``'s, sibling agreement of the
parameter grammars, load/store context discipline, required-field completeness,
computed int fields, the distinguishing trailing-comma slot, and (thorough) agreement of
the grammar with the generated table on disk.
"""

from __future__ import annotations

import ast
import re
import keyword
import token as pytoken

from .common import *
from ..engine import grammar
from ..engine.asdl import Asdl

PARSER_DIR = "xonsh/parsers"
BP = "xonsh/parsers/base.py"
HELPER_FILES = ("xonsh/parsers/base.py", "xonsh/parsers/ast.py", "xonsh/parsers/fstring_adaptor.py", "xonsh/parsers/context_check.py")
# node kinds of `mod` that exec/eval/single mode cannot produce
EXCLUDED_KINDS = {"FunctionType": "mode 'func_type' only", "TypeIgnore": "only with type_comments=True"}
LOC_SPLATS = ("get_line_cols", "loc", "locs", "lc", "_loc")
BIND = {"Assign": "targets", "AugAssign": "target", "AnnAssign": "target", "For": "target", "AsyncFor": "target", "comprehension": "target", "withitem": "optional_vars", "NamedExpr": "target", "Delete": "targets"}
CTX_SETTERS = {"store_ctx", "del_ctx"}
# (kind, int field) -> RHS symbols whose presence means the field has more than one possible value
# ("*" = always: the value depends on the shape of a child, never a constant)
INT_DECIDERS = {
    ("AnnAssign", "simple"): "*",
    ("ImportFrom", "level"): {"import_from_pre", "period_or_ellipsis_list", "period_or_ellipsis_list_opt", "PERIOD", "ELLIPSIS", "period_or_ellipsis"},
    ("comprehension", "is_async"): {"ASYNC", "async_tok"},
    ("FormattedValue", "conversion"): {"fstring_conversion"},
}
TUPLE_CONTEXTS = {"subject_expr", "testlist_comp", "maybe_sequence_pattern", "testlist_star_expr", "exprlist", "testlist", "subscriptlist", "open_sequence_pattern"}
OP_TOKEN_SPELLING = {"AND": "and", "OR": "or", "NOT": "not", "IN": "in", "IS": "is"}


def _ast_refs(node, kinds, prefix="ast"):
    out = set()
    for n in ast.walk(node):
        if isinstance(n, ast.Attribute) and isinstance(n.value, ast.Name) and n.value.id == prefix and n.attr in kinds:
            out.add(n.attr)
    return out


def _ctor_calls(fn, asdl):
    for c in calls_in(fn, local=False):
        nm = call_name(c) or ""
        if nm.startswith("ast.") and nm[4:] in asdl.kinds:
            yield nm[4:], c


def _given_fields(asdl, kind, call):
    fields = [f for ty, q, f in asdl.kinds[kind]]
    given = set(fields[: len(call.args)]) | {k.arg for k in call.keywords if k.arg}
    other_splat = [unparse(k.value) for k in call.keywords if k.arg is None and not any(t in unparse(k.value) for t in LOC_SPLATS)]
    return given, other_splat


def check(ctx):
    thorough = ctx.tier == "thorough"
    ctx.not_decided += [
        "acceptance of every Python program (missing alternatives such as `{a, *b}`, `with (a as b, c as d)`; lexer mis-tokenisation `1>=1`)",
        "precedence / associativity outcomes of the LALR conflict resolution",
        "f-string internals beyond node construction; source locations",
        "identifier / constant values (tokenizer + literal_eval)",
    ]
    ctx.rule("R1", "every concrete node kind of the interpreter's ast module that exec/eval/single mode can produce is constructed by the effective parser", floor=95)
    ctx.rule("R2", "every operator/delimiter spelling and keyword of the interpreter maps to a PLY token that occurs in a production reachable from the start symbol", floor=75)
    ctx.rule("R3", "operator tables and inline operator constructions agree with the interpreter's own class<->spelling tables (ast._Unparser)", floor=40)
    ctx.rule("R4", "sibling agreement of the parameter grammars: typedargslist productions use only the annotated family (tfpdef), varargslist only vfpdef", floor=20)
    ctx.rule("R5", "context discipline: every ctx-bearing node is constructed with a ctx; every binding construct's target passes through store_ctx/del_ctx before the node is built", floor=35)
    ctx.rule("R6", "every node construction in a live action supplies all required (neither ? nor *) fields", floor=150)
    ctx.rule("R7", "int-typed fields (simple, is_async, level, conversion) are computed, not literal, wherever the production admits more than one value", floor=4)
    ctx.rule("R8", "a trailing-comma slot that distinguishes a one-element tuple from a scalar is read by the action", floor=4)
    ctx.rule("R10", "record-valued nonterminals (comprehension clauses, call arguments, yield arguments ...): every field a child can carry is read, or the child handed on whole, on every path on which it can be present", floor=20)
    ctx.rule("R11", "tokenizer typestate: the backslash-continuation flag of a string never outlives that string on a path without a tokenizer error", floor=1)
    ctx.rule("R12", "the value of a string or bytes literal is computed by the interpreter's own evaluators (ast.literal_eval / the host parser / the f-string adaptor) on every path - never by slicing the token text (escapes, line-ending translation, prefixes)", floor=3)
    ctx.rule("R13", "the post-parse target check rejects a program only on the verdict of its one decision function (_not_assignable), and that function never rejects a Name, Attribute, Subscript or Starred target: valid Python is not turned into a SyntaxError by an extra check", floor=4)
    ctx.rule("R14", "the context setters reach every nested target: store_ctx / del_ctx / load_ctx (and a shared worker, if they delegate to one) call themselves on each element of a Tuple or List target and on the value of a Starred target - the three places where the interpreter's grammar nests a target inside a target (`a, *(b, c) = x`, `for a, *[b, c] in xs`)", floor=9)
    ctx.rule("R15", "a multi-character token that stands for several grammatical units keeps its multiplicity: the action of every production whose alternatives are single tokens of different lengths that a parent measures (PERIOD | ELLIPSIS for the level of `from ... import`) hands up the token's own text - or its length -, never a fixed-size wrapper per token: a level counted in tokens reads `from ... import a` as level 1", floor=1)
    ctx.rule("R9", "the generated LALR table on disk (if present) was generated from the grammar of the working tree", floor=1)

    asdl = Asdl()
    g = grammar.load(ctx.repo, lalr=True)
    prods = g["productions"]
    live_idx = set(g["lalr"]["reduced"])
    live = [p for p in prods if p["n"] in live_idx]
    dead = [p for p in prods if p["n"] not in live_idx]
    ctx.extra["grammar"] = {
        "selected": g["selected"], "python": g["python"], "productions": len(prods), "actions": len(g["pfuncs"]), "tokens": len(g["tokens"]),
        "lalr_states": g["lalr"]["states"], "sr_conflicts": g["lalr"]["sr_conflicts"], "rr_conflicts": g["lalr"]["rr_conflicts"],
        "never_reduced": [f"{p['lhs']} : {' '.join(p['rhs'])}" for p in dead],
    }
    if len(prods) < 1000 or len(g["pfuncs"]) < 400:
        raise AnalysisError(f"effective grammar too small ({len(prods)} productions, {len(g['pfuncs'])} actions)")
    live_funcs = sorted({p["func"] for p in live})
    prods_of = {}
    for p in live:
        prods_of.setdefault(p["func"], []).append(p)
    bodies = {}
    for f in live_funcs:
        bodies[f] = grammar.action_bodies(ctx.repo, g, f)

    # ------------------------------------------------------------------ R1
    built = {}
    for f, bl in bodies.items():
        for mod, fn in bl:
            for k in _ast_refs(fn, asdl.kinds):
                built.setdefault(k, f"{mod.rel}:{fn.name}")
    for mod, cls in grammar.mro_classes(ctx.repo, g):
        for n in cls.body:
            if isinstance(n, ast.Assign):
                for k in _ast_refs(n.value, asdl.kinds):
                    built.setdefault(k, f"{mod.rel}:{cls.name}.{unparse(n.targets[0])}")
            elif isinstance(n, ast.FunctionDef) and not n.name.startswith("p_"):
                for k in _ast_refs(n, asdl.kinds):
                    built.setdefault(k, f"{mod.rel}:{cls.name}.{n.name}")
    for rel in HELPER_FILES:
        if not ctx.repo.exists(rel):
            continue
        m = ctx.repo.module(rel)
        for q, fn in m.functions():
            if "." in q and q.split(".")[-1].startswith("p_"):
                continue
            for k in _ast_refs(fn, asdl.kinds):
                built.setdefault(k, f"{rel}:{q}")
            if rel.endswith("parsers/ast.py"):
                for n in ast.walk(fn):
                    if isinstance(n, ast.Call) and isinstance(n.func, ast.Name) and n.func.id in asdl.kinds:
                        built.setdefault(n.func.id, f"{rel}:{q}")
    want = sorted(asdl.reachable("mod") - set(EXCLUDED_KINDS))
    for k in want:
        ctx.ob("R1", f"ast.{k}", "constructed by an effective action, a class table or a parser helper" + (f" ({built[k]})" if k in built else ""), k in built, key=f"kind-not-built|{k}")

    # ------------------------------------------------------------------ R2
    from .c18 import spelling_table

    tab = spelling_table(ctx.repo)
    nts = {p["lhs"] for p in prods}
    by_lhs = {}
    for p in live:
        by_lhs.setdefault(p["lhs"], []).append(p)
    seen, todo = set(), [g["start"]]
    while todo:
        n = todo.pop()
        if n in seen:
            continue
        seen.add(n)
        for p in by_lhs.get(n, []):
            for s in p["rhs"]:
                if s in nts:
                    todo.append(s)
    terms = {s for n in seen for p in by_lhs.get(n, []) for s in p["rhs"] if s not in nts}
    for sp in sorted(pytoken.EXACT_TOKEN_TYPES):
        types = tab.get(sp, set())
        ok = any(t in terms for t in types)
        ctx.ob("R2", f"spelling {sp!r}", f"maps to a token used by a reachable live production ({sorted(types)})", ok, key=f"spelling-unmapped|{sp}")
    lx = ctx.repo.module("xonsh/parsers/lexer.py")
    hn = lx.func("handle_name")
    # the containers of the function's membership tests, module-level tables resolved to their definitions
    containers = []
    for n in ast.walk(hn):
        if isinstance(n, ast.Compare) and any(isinstance(o, (ast.In, ast.NotIn)) for o in n.ops):
            for c_ in n.comparators:
                containers.append(c_)
                for x in ast.walk(c_):
                    if isinstance(x, ast.Name) and x.id in lx.assigns:
                        containers.append(lx.assigns[x.id][-1].value)
    ctext = " ".join(unparse(c_) for c_ in containers)
    kw_rule = "kwmod.kwlist" in ctext and ".upper()" in unparse(hn)
    soft = [n.value for c_ in containers for n in ast.walk(c_) if isinstance(n, ast.Constant) and isinstance(n.value, str)]
    for kw in keyword.kwlist + [k for k in keyword.softkwlist if k != "_"]:
        ok = kw.upper() in terms and (kw_rule if kw in keyword.kwlist else kw in soft)
        ctx.ob("R2", f"keyword {kw!r}", f"is turned into token {kw.upper()} which a reachable live production uses", ok, key=f"keyword-unmapped|{kw}")

    # ------------------------------------------------------------------ R3
    U = ast._Unparser
    oracle = {}
    oracle.update(U.binop)
    oracle.update(U.cmpops)
    oracle.update(U.unop)
    oracle.update(U.boolops)
    tables = {}
    for mod, cls in grammar.mro_classes(ctx.repo, g):
        for n in cls.body:
            if isinstance(n, ast.Assign) and isinstance(n.value, ast.Dict) and unparse(n.targets[0]) in ("_augassign_op", "_comp_ops", "_term_binops", "_factor_ops"):
                tables.setdefault(unparse(n.targets[0]), (mod, n))
    for tname in ("_augassign_op", "_comp_ops", "_term_binops", "_factor_ops"):
        if tname not in tables:
            raise AnchorMissing(f"operator table {tname} not found in the parser classes")
        mod, n = tables[tname]
        for k, v in zip(n.value.keys, n.value.values):
            if isinstance(k, ast.Tuple):
                sp = " ".join(const_value(e) for e in k.elts)
            else:
                sp = const_value(k)
            cls_name = v.attr if isinstance(v, ast.Attribute) else unparse(v)
            want_sp = oracle.get(cls_name)
            eff = sp[:-1] if tname == "_augassign_op" and isinstance(sp, str) and sp.endswith("=") else sp
            ctx.ob("R3", f"{mod.rel}:{tname}[{sp!r}]", f"spelling {sp!r} builds ast.{cls_name} (interpreter: ast.{cls_name} is written {want_sp!r})", want_sp == eff, key=f"{tname}|{sp}|{cls_name}", where=loc(k))
        # completeness of the table against the interpreter
        have = {(v.attr if isinstance(v, ast.Attribute) else unparse(v)) for v in n.value.values}
        need = {"_augassign_op": set(U.binop), "_comp_ops": set(U.cmpops), "_term_binops": {"Add", "Sub", "Mult", "MatMult", "Div", "Mod", "FloorDiv"}, "_factor_ops": {"UAdd", "USub", "Invert"}}[tname]
        ctx.ob("R3", f"{mod.rel}:{tname}", f"covers every operator class of its family ({len(need)})", need <= have, key=f"{tname}|incomplete", detail=str(sorted(need - have)))
    # inline constructions keyed by the production's operator token
    tok_spelling = dict(OP_TOKEN_SPELLING)
    for sp, types in tab.items():
        for t in types:
            tok_spelling.setdefault(t, sp)
    opnames = set(oracle)
    for f, bl in bodies.items():
        mod, fn = bl[0]
        inline = [n for n in ast.walk(fn) if isinstance(n, ast.Call) and isinstance(n.func, ast.Attribute) and isinstance(n.func.value, ast.Name) and n.func.value.id == "ast" and n.func.attr in opnames and not n.args and not n.keywords]
        if not inline or fn.name.startswith("p_match") or "pattern" in fn.name:
            continue
        toks = set()
        for p in prods_of[f]:
            for s in p["rhs"]:
                base = s[:-4].upper() if s.endswith("_tok") else s
                if base in tok_spelling and base not in ("LPAREN", "RPAREN", "COMMA", "COLON", "NAME", "TIMES_DUMMY"):
                    toks.add(base)
        for c in inline:
            cls_name = c.func.attr
            want_sp = oracle[cls_name]
            # the spelling test that selects this constructor: the nearest enclosing conditional expression or if/else
            # statement (the two are one shape) whose test compares with a string literal
            lit = in_eq = None
            child = c
            for a_ in ancestors(c):
                t_ = a_.test if isinstance(a_, (ast.IfExp, ast.If)) else None
                if t_ is not None and isinstance(t_, ast.Compare) and len(t_.ops) == 1 and isinstance(t_.ops[0], (ast.Eq, ast.NotEq)) and isinstance(const_value(t_.comparators[0]), str):
                    in_body = (child is a_.body) if isinstance(a_, ast.IfExp) else any(child is b_ or lexically_inside(child, b_) for b_ in a_.body)
                    in_else = (child is a_.orelse) if isinstance(a_, ast.IfExp) else any(child is b_ or lexically_inside(child, b_) for b_ in a_.orelse)
                    if in_body or in_else:
                        lit = const_value(t_.comparators[0])
                        in_eq = in_body == isinstance(t_.ops[0], ast.Eq)
                        break
                if isinstance(a_, (ast.FunctionDef, ast.AsyncFunctionDef)):
                    break
                child = a_
            if lit is not None:
                if in_eq:
                    ok = lit == want_sp
                else:
                    others = {tok_spelling[t] for t in toks} - {lit}
                    ok = want_sp in others
            else:
                ok = any(tok_spelling[t] == want_sp for t in toks)
            ctx.ob("R3", f"{mod.rel}:{fn.name}", f"inline ast.{cls_name}() belongs to a production with the token written {want_sp!r} (tokens: {sorted(toks)})", ok, key=f"{fn.name}|inline-op|{cls_name}", where=loc(c))

    # ------------------------------------------------------------------ R4
    for p in live:
        if p["lhs"].startswith("typedargslist") or p["lhs"].startswith("varargslist"):
            fam, other = ("tfpdef", "vfpdef") if p["lhs"].startswith("typedargslist") else ("vfpdef", "tfpdef")
            bad = [s for s in p["rhs"] if other in s]
            ctx.ob("R4", f"{p['file']}:{p['func']}", f"`{p['lhs']} : {' '.join(p['rhs'])}` names only the {fam} family", not bad, key=f"{p['func']}|foreign-family|{','.join(bad)}", where=f"{p['file']}:{p['line']}", detail=f"uses {bad}: a parameter there cannot carry an annotation" if bad and fam == "tfpdef" else None)

    # ------------------------------------------------------------------ R5 / R6 / R7
    seen_fn = set()
    n_ctor = 0
    for f, bl in bodies.items():
        for mod, fn in bl:
            if id(fn) in seen_fn:
                continue
            seen_fn.add(id(fn))
            st = f"{mod.rel}:{fn.name}"
            cfg = None
            fdefs = None
            for kind, c in _ctor_calls(fn, asdl):
                n_ctor += 1
                given, other_splat = _given_fields(asdl, kind, c)
                if asdl.has_ctx(kind):
                    ctx.ob("R5", st, f"`{short(c, 60)}` is constructed with an explicit ctx (CPython refuses to compile a tree without it)", "ctx" in given or bool(other_splat), key=f"{fn.name}|no-ctx|{kind}", where=loc(c))
                miss = [x for x in asdl.required(kind) if x not in given and x != "ctx"]
                ctx.ob("R6", st, f"`ast.{kind}(...)` supplies every required field", not miss or bool(other_splat), key=f"{fn.name}|missing-field|{kind}|{','.join(miss)}", where=loc(c), detail=f"missing {miss}" if miss else None)
                for fld in asdl.int_fields(kind):
                    v = next((k.value for k in c.keywords if k.arg == fld), None)
                    if v is None or (kind, fld) not in INT_DECIDERS:
                        continue
                    dec = INT_DECIDERS[(kind, fld)]
                    rhs_syms = {s for p in prods_of.get(f, []) for s in p["rhs"]}
                    multi = dec == "*" or bool(dec & rhs_syms)
                    const = isinstance(v, ast.Constant) or (isinstance(v, ast.UnaryOp) and isinstance(v.operand, ast.Constant))
                    ctx.ob("R7", st, f"`{kind}.{fld} = {unparse(v)}`: " + ("the production admits several values, so the field is computed" if multi else "the production admits one value"), not (multi and const), key=f"{fn.name}|constant-int|{kind}.{fld}", where=loc(c))
                if kind in BIND:
                    fldname = BIND[kind]
                    t = next((k.value for k in c.keywords if k.arg == fldname), None)
                    if t is None:
                        if other_splat:
                            ctx.ob("R5", st, f"{kind} is re-classed from an already built node ({other_splat[0]})", True, where=loc(c))
                        continue
                    if isinstance(t, ast.Constant) and t.value is None:
                        continue
                    cfg = cfg or CFG(fn)
                    fdefs = fdefs or df.all_defs(fn)
                    ok, how = _target_ctx_ok(ctx, g, asdl, fn, cfg, fdefs, c, t, prods_of.get(f, []), kind)
                    ctx.ob("R5", st, f"{kind}.{fldname} = `{unparse(t)}` passes through {'del_ctx' if kind == 'Delete' else 'store_ctx'} on every path before the node is built ({how})", ok, key=f"{fn.name}|target-ctx|{kind}", where=loc(c))
    if n_ctor < 200:
        raise AnalysisError(f"only {n_ctor} node constructions seen in live actions (247 confirmed by hand)")

    # ------------------------------------------------------------------ R8
    for p in live:
        if len(p["rhs"]) == 2 and p["rhs"][1] == "comma_opt" and p["lhs"] in TUPLE_CONTEXTS:
            txt = " || ".join(unparse(fn) for mod, fn in bodies[p["func"]])
            reads = "p[2]" in txt or "len(p)" in txt or "list(p)" in txt
            ctx.ob("R8", f"{p['file']}:{p['func']}", f"`{p['lhs']} : {' '.join(p['rhs'])}`: the optional trailing comma (one-element tuple vs scalar) is read by the action", reads, key=f"{p['func']}|comma-slot-ignored", where=f"{p['file']}:{p['line']}")

    # ------------------------------------------------------------------ R10
    from .c01_records import check_records

    check_records(ctx, bodies, prods_of)

    # ------------------------------------------------------------------ R11
    # tokenizer typestate: `needcont` (every further physical line must end in a backslash) belongs to ONE
    # continued single-quoted string.  Once set it must be cleared before any *other* continuation starts
    # that does not assign it itself (a triple-quoted string): otherwise an ordinary docstring after a
    # backslash-continued string is tokenised as an error.  Paths through an ERRORTOKEN / TokenError are
    # outside "valid programs" and are not followed.
    tk = ctx.repo.module("xonsh/parsers/tokenize.py")
    tz = tk.func("_tokenize", raw=True) if "raw" in tk.func.__code__.co_varnames else tk.func("_tokenize")
    tcfg = CFG(tz)
    tdefs = df.all_defs(tz)

    def bound_values(n_, name):
        """values a CFG statement node assigns to ``name`` (tuple assignments unpacked)"""
        out = []
        a_ = n_.ast
        if n_.kind == "stmt" and isinstance(a_, ast.Assign):
            for t in a_.targets:
                if isinstance(t, ast.Name) and t.id == name:
                    out.append(a_.value)
                elif isinstance(t, ast.Tuple) and isinstance(a_.value, ast.Tuple) and len(t.elts) == len(a_.value.elts):
                    out += [v for tt, v in zip(t.elts, a_.value.elts) if isinstance(tt, ast.Name) and tt.id == name]
        return out

    # the flag: a local that is only ever assigned the constants 0/1 (False/True) and is tested in a condition
    # together with a line-continuation literal; its owner: the text accumulator assigned in the same statement
    flags = []
    for n_, ds_ in tdefs.items():
        vals = [v for node in tcfg.nodes for v in bound_values(node, n_)]
        if vals and all(isinstance(v, ast.Constant) and v.value in (0, 1, True, False) for v in vals) and any(v.value for v in vals) and any(not v.value for v in vals):
            flags.append(n_)
    def mentions_continuation(test):
        """the test looks at a backslash-newline literal, itself or through a local that names the comparison"""
        if "\\\\" in unparse(test):
            return True
        return any("\\\\" in unparse(d_.value) for nm_ in df.names_read(test) for d_ in tdefs.get(nm_, []) if d_.value is not None and d_.kind == "assign")

    flags = [f_ for f_ in flags if any(node.kind == "if" and f_ in df.names_read(node.ast.test) and mentions_continuation(node.ast.test) for node in tcfg.nodes)]
    if len(flags) != 1:
        raise AnalysisError(f"xonsh/parsers/tokenize.py:_tokenize: continuation flag not identified ({flags})")
    FLAG = flags[0]
    set1 = [n_ for n_ in tcfg.nodes if any(isinstance(v, ast.Constant) and v.value for v in bound_values(n_, FLAG))]
    reset0 = [n_ for n_ in tcfg.nodes if any(isinstance(v, ast.Constant) and not v.value for v in bound_values(n_, FLAG))]
    owners = set()
    for n_ in set1:
        for t in n_.ast.targets:
            if isinstance(t, ast.Tuple):
                owners |= {x.id for x in t.elts if isinstance(x, ast.Name) and x.id != FLAG}
    if len(owners) != 1:
        raise AnalysisError(f"xonsh/parsers/tokenize.py:_tokenize: the text accumulator set together with `{FLAG}` is not unique ({sorted(owners)})")
    OWNER = next(iter(owners))
    starts_other = [n_ for n_ in tcfg.nodes if n_ not in set1 and any(not (isinstance(v, ast.Constant) and v.value == "") and not (isinstance(v, ast.BinOp) and OWNER in df.names_read(v)) for v in bound_values(n_, OWNER))]
    is_err = lambda n_: n_.ast is not None and n_.kind == "stmt" and (isinstance(n_.ast, ast.Raise) or any(isinstance(y, ast.Yield) and y.value is not None and "ERRORTOKEN" in unparse(y.value) for y in ast.walk(n_.ast)))
    if not set1 or not reset0 or not starts_other:
        raise AnalysisError(f"xonsh/parsers/tokenize.py:_tokenize: typestate anchors missing (set={len(set1)} reset={len(reset0)} other-starts={len(starts_other)})")
    def owner_after(n_, bit):
        """is the accumulator non-empty after node n_ (given whether it was before)"""
        for v in bound_values(n_, OWNER):
            if isinstance(v, ast.Constant) and v.value == "":
                bit = False
            elif isinstance(v, ast.BinOp) and OWNER in df.names_read(v):
                pass  # accumulates: keeps what it had
            else:
                bit = True
        return bit

    for s1 in set1:
        # reachability over (node, accumulator-non-empty): `if <accumulator>:` is decided by the tracked bit, so
        # that the path cannot jump over the continued-string branch while a string is being continued
        start = (s1, True)
        prev = {start: None}
        todo = [start]
        bad = None
        while todo and bad is None:
            node, bit = todo.pop()
            for m_, label in node.succ:
                if node.kind == "if" and unparse(node.ast.test) == OWNER and ((bit and label == "false") or (not bit and label == "true")):
                    continue
                st2 = (m_, owner_after(m_, bit))
                if st2 in prev:
                    continue
                prev[st2] = (node, bit)
                if m_ in starts_other:
                    bad = st2
                    break
                if m_ in reset0 or is_err(m_):
                    continue
                todo.append(st2)
        path = None
        if bad is not None:
            chain, cur = [], bad
            while cur is not None:
                chain.append(cur[0])
                cur = prev[cur]
            path = tcfg.fmt_path(list(reversed(chain)))
        ctx.ob(
            "R11",
            "xonsh/parsers/tokenize.py:_tokenize",
            f"after `{short(s1.ast, 50)}` the flag `{FLAG}` is cleared before a continuation starts that does not set it (`{short(starts_other[0].ast, 40)}`): the flag of a finished backslash-continued string must not leak into the next multi-line string",
            bad is None,
            key="tokenize|continuation-flag-leaks",
            where=loc(s1.ast),
            path=path,
        )

    # ------------------------------------------------------------------ R9
    tbl = "xonsh/parser_table.py"
    if ctx.repo.exists(tbl):
        src = ctx.repo.read(tbl)
        sig = None
        for line in src.splitlines()[:20]:
            if line.startswith("_lr_signature"):
                try:
                    sig = ast.literal_eval(line.split("=", 1)[1].strip())
                except (ValueError, SyntaxError):
                    sig = None
        if thorough:
            # PLY's signature string concatenates the docstrings in (line, file, name) order over *all* parser
            # files, so an edit that only shifts line numbers in one file permutes it.  What makes a table stale
            # is a different set of productions / action bindings, which is compared order-insensitively here.
            ok9 = sig == g["signature"]
            detail9 = None
            if not ok9:
                m9 = re.search(r"^_lr_productions = \[$(.*?)^\]$", src, re.S | re.M)
                if m9 is None or sig is None:
                    raise AnalysisError(f"{tbl}: cannot read _lr_signature / _lr_productions from the generated table")
                on_disk = sorted((e[0], e[3]) for e in ast.literal_eval("[" + m9.group(1) + "]")[1:])
                tree = sorted((f"{p_['lhs']} -> {' '.join(p_['rhs']) if p_['rhs'] else '<empty>'}", p_["func"]) for p_ in g["productions"])
                ok9 = on_disk == tree and sorted(sig) == sorted(g["signature"])
                if not ok9:
                    only_disk = [x for x in on_disk if x not in tree][:3]
                    only_tree = [x for x in tree if x not in on_disk][:3]
                    detail9 = f"only in the table on disk: {only_disk}; only in the working tree: {only_tree}"
            ctx.ob("R9", tbl, "the generated table on disk holds exactly the productions (and action bindings) of the working tree's grammar - compared as a set: PLY orders them by line number across files, so a pure line shift permutes the recorded signature without making the table wrong (the shell loads the table with optimize=True, i.e. without any check)", ok9, key="stale-parser-table", detail=detail9)
        else:
            ctx.ob("R9", tbl, "generated table present; signature comparison runs in the thorough tier", True)
    else:
        ctx.ob("R9", tbl, "no generated table on disk: the parser regenerates it from the working tree", True)
    _ctx_setters_recurse(ctx, asdl)
    _token_multiplicity(ctx)
    _literal_values(ctx)
    fstring_chunk_values(ctx, "R12")
    _target_check_grounds(ctx)


def _target_ctx_ok(ctx, g, asdl, fn, cfg, fdefs, ctor, target, prods, kind):
    """The binding target reaches the constructor only through store_ctx/del_ctx."""
    setter = "del_ctx" if kind == "Delete" else "store_ctx"
    cn = None
    for nd in cfg.nodes_of(stmt_of(ctor)):
        cn = nd
    if cn is None:
        return False, "constructor statement not in CFG"
    names = set()
    for n in ast.walk(target):
        if isinstance(n, ast.Name):
            names.add(n.id)
    # (1) a setter call on one of the target's names (or on the loop variable of a loop over them) on every path
    setters = []
    for n in cfg.nodes:
        if n.ast is None or n.kind not in ("stmt", "for"):
            continue
        scope = n.ast if n.kind == "stmt" else n.ast
        for c in calls_in(scope, local=False) if n.kind == "stmt" else []:
            nm = call_name(c) or ""
            if nm == setter and c.args:
                a0 = unparse(c.args[0])
                if a0 in names:
                    setters.append(n)
                else:
                    loop = next((a for a in ancestors(c) if isinstance(a, ast.For)), None)
                    if loop is not None and unparse(loop.target) == a0 and (df.names_read(loop.iter) & names):
                        setters.append(n)
            if nm in ("map", "list") and setter in unparse(c):
                if df.names_read(c) & names:
                    setters.append(n)
    good = list(setters)
    for s_ in setters:
        loop = next((a for a in ancestors(s_.ast) if isinstance(a, ast.For)), None)
        if loop is not None:
            good += cfg.nodes_of(loop)
    for n in cfg.nodes:
        if n.kind == "stmt" and isinstance(n.ast, ast.Assign) and unparse(n.ast.targets[0]) in names and isinstance(n.ast.value, ast.Call) and any(k.arg == "ctx" and ("Store" in unparse(k.value) or "Del" in unparse(k.value)) for k in n.ast.value.keywords):
            good.append(n)
    if good and cfg.dominated(cn, lambda m: m in good):
        return True, f"{setter} / ctx=Store() on every path in the action"
    # (2) inline ctx
    if isinstance(target, ast.Call) and any(k.arg == "ctx" and "Store" in unparse(k.value) for k in target.keywords):
        return True, "built with ctx=Store()"
    # (3) the value comes from a child production whose action applies the setter: p[i]
    t = df.resolve_copy(fdefs, target)
    arms = [a_ for a_ in value_arms(fdefs, t) if not (isinstance(a_, ast.Constant) and a_.value is None)]
    if len(arms) == 1:
        t = arms[0]
    idx = None
    if isinstance(t, ast.Subscript) and unparse(t.value) == "p" and isinstance(const_value(t.slice), int):
        idx = const_value(t.slice)
    if idx is not None:
        syms = {p["rhs"][idx - 1] for p in prods if len(p["rhs"]) >= idx}
        ok_all = bool(syms)
        for s in syms:
            child = [p for p in g["productions"] if p["lhs"] == s]
            if not child:
                ok_all = False
            for cp in child:
                if cp["rhs"] == ["empty"]:
                    continue
                txt = " ".join(unparse(f2) for m2, f2 in grammar.action_bodies(ctx.repo, g, cp["func"]))
                if f"{setter}(" not in txt:
                    # one more level: opt rule wrapping `x_opt : x`
                    if len(cp["rhs"]) == 1:
                        sub = [p for p in g["productions"] if p["lhs"] == cp["rhs"][0] and p["rhs"] != ["empty"]]
                        if sub and all(f"{setter}(" in " ".join(unparse(f3) for m3, f3 in grammar.action_bodies(ctx.repo, g, sp_["func"])) for sp_ in sub):
                            continue
                    ok_all = False
        if ok_all:
            return True, f"{setter} applied by the child production(s) {sorted(syms)}"
    return False, "no dominating context change found"



def _literal_values(ctx):
    bpm = ctx.repo.module("xonsh/parsers/base.py")
    raw = bpm.func("BaseParser.p_string_literal", raw=True)
    fn = flat(ctx, raw, 2, skip=("xonsh_call", "_set_error", "currloc", "pyparse", "FStringAdaptor", "increment_lineno", "literal_eval"))
    st = "xonsh/parsers/base.py:BaseParser.p_string_literal"
    defs = df.all_defs(fn)
    DELEG = ("literal_eval", "pyparse", "FStringAdaptor", "eval_fstr_fields")
    # the names whose value becomes the literal's value: `s=` keywords of node constructors, plain names stored into p[0]
    vals = set()
    for n in walk_local(fn):
        if isinstance(n, ast.Call):
            for k in n.keywords:
                if k.arg in ("s", "value") and isinstance(k.value, ast.Name):
                    vals.add(k.value.id)
                elif k.arg in ("s", "value") and not isinstance(k.value, ast.Name):
                    ok = any(isinstance(c, ast.Call) and (call_name(c) or "").split(".")[-1] in DELEG for c in ast.walk(k.value))
                    ctx.ob("R12", st, f"`{short(k.value, 50)}` (literal value written in place) is delegated", ok, key=f"string-literal|value-not-delegated|{short(k.value, 30)}", where=loc(k.value))
        if isinstance(n, ast.Assign) and any(isinstance(t, ast.Subscript) and unparse(t) == "p[0]" for t in n.targets) and isinstance(n.value, ast.Name):
            vals.add(n.value.id)
    if not vals:
        raise AnchorMissing(f"{st}: no literal value names found")
    # values handed through a position fixer (`increment_lineno(x, ..)`) or copied from another local: judge that local too
    for _ in range(4):
        for v in sorted(vals):
            for d in defs.get(v, []):
                e = d.value
                if isinstance(e, ast.Call) and (call_name(e) or "").split(".")[-1] in ("increment_lineno", "copy_location", "fix_missing_locations") and e.args and isinstance(e.args[0], ast.Name):
                    vals.add(e.args[0].id)
                elif isinstance(e, ast.Name) and defs.get(e.id):
                    vals.add(e.id)
    n_defs = 0
    for v in sorted(vals):
        for d in defs.get(v, []):
            if d.kind == "param" or d.value is None:
                continue
            if getattr(d.stmt, "_xv_bind", False):
                continue
            n_defs += 1
            e = d.value
            deleg = any(isinstance(c, ast.Call) and (call_name(c) or "").split(".")[-1] in DELEG for c in ast.walk(e))
            passthrough = (isinstance(e, ast.Constant) and e.value is None) or (isinstance(e, ast.Call) and any(isinstance(a, ast.Name) and a.id in vals for a in e.args) and (call_name(e) or "").split(".")[-1] in ("increment_lineno", "copy_location", "fix_missing_locations")) or (isinstance(e, ast.Name) and e.id in vals)
            if isinstance(e, ast.Name) and e.id not in vals and defs.get(e.id):
                # a copy of another local (return value of an expanded helper): judge that local as well
                vals_more = e.id
                deleg = all(any(isinstance(c, ast.Call) and (call_name(c) or "").split(".")[-1] in DELEG for c in ast.walk(d2.value)) for d2 in defs.get(vals_more, []) if d2.value is not None and d2.kind != "param")
            ctx.ob("R12", st, f"`{v} = {short(e, 50)}`: the literal's value comes out of the interpreter's evaluator", deleg or passthrough, key=f"string-literal|value-not-delegated|{short(e, 30)}", where=loc(d.stmt), detail=None if (deleg or passthrough) else "hand-computed from the token text: escapes, \\r\\n translation and prefix rules are the evaluator's business")
    if n_defs < 3:
        raise AnalysisError(f"{st}: only {n_defs} value definitions seen")


def _target_check_grounds(ctx):
    """Every store of a non-None value into the visitor's error slot is judged where it EXECUTES: in the
    helper-transparent view of each entry point of the NodeVisitor protocol (visit_<Kind>, visit, generic_visit), so
    that a rejection written once in a shared method of the class is judged once per visitor method that reaches it,
    under the guards of the helper and of the caller alike.  A rejection site of the class that no entry point reaches
    in that view must carry the proof in its own method; otherwise its ground is not known (analysis error)."""
    from ..engine.loader import class_methods as _cm

    rel = "xonsh/parsers/context_check.py"
    DECIDER = "_not_assignable"
    m = ctx.repo.module(rel)
    m.func(DECIDER)  # anchor
    cls = m.cls("ContextCheckingVisitor")

    def receiver(f):
        return f.args.args[0].arg if f.args.args else None

    def sites(f, me):
        """statements of f that store something other than None into <receiver>.error"""
        out = []
        for x in walk_local(f):
            if isinstance(x, ast.Assign):
                tg, val = x.targets, x.value
            elif isinstance(x, (ast.AnnAssign, ast.AugAssign)) and x.value is not None:
                tg, val = [x.target], x.value
            else:
                continue
            flat_t = [y for t in tg for y in (t.elts if isinstance(t, (ast.Tuple, ast.List)) else [t])]
            if not any(isinstance(t, ast.Attribute) and t.attr == "error" and isinstance(t.value, ast.Name) and t.value.id == me for t in flat_t):
                continue
            if isinstance(x, ast.Assign) and const_value(val, 0) is None:
                continue
            out.append(x)
        return out

    def verdict_of_decider(e, defs, seen=frozenset()):
        """e is the decision function's return value: the call itself, a walrus around it, or a local all of whose
        definitions are (copies of) such a value - a parameter of an expanded helper is bound by an assignment"""
        if isinstance(e, ast.NamedExpr):
            return verdict_of_decider(e.value, defs, seen)
        if isinstance(e, ast.Call):
            return call_name(e) == DECIDER
        if isinstance(e, ast.Name) and e.id not in seen:
            ds = defs.get(e.id, [])
            return bool(ds) and all(d.value is not None and verdict_of_decider(d.value, defs, seen | {e.id}) for d in ds)
        return False

    def decided(a, cfg, defs):
        for nd in cfg.nodes_of(a):
            for e, pol in facts_at(cfg, nd):
                # `<v> is None` false (or `<v>` true: a verdict that is true is not None), <v> the decision function's verdict
                if isinstance(e, ast.Compare) and len(e.ops) == 1 and isinstance(e.ops[0], (ast.Is, ast.IsNot)):
                    l, r = e.left, e.comparators[0]
                    if isinstance(l, ast.Constant) and l.value is None:
                        l, r = r, l
                    if isinstance(r, ast.Constant) and r.value is None and pol == isinstance(e.ops[0], ast.IsNot) and verdict_of_decider(l, defs):
                        return True
                elif isinstance(e, (ast.Name, ast.NamedExpr)) and pol and verdict_of_decider(e, defs):
                    return True
        return False

    DETAIL = "a second ground for rejecting a target: the first such ground that is wrong about nested / starred / subscripted targets turns valid Python into a SyntaxError"
    methods = _cm(cls, raw=True)
    entries = {nm: f for nm, f in methods.items() if nm.startswith("visit_") or nm in ("visit", "generic_visit")}
    n = 0
    reached = set()
    for nm, f in entries.items():
        fl = flat(ctx, f, 3, skip=(DECIDER,))
        ss = sites(fl, receiver(f))
        if not ss:
            continue
        cfg, defs = CFG(fl), df.all_defs(fl)
        for a in ss:
            n += 1
            reached.add((a.lineno, a.col_offset))
            ok = decided(a, cfg, defs)
            ctx.ob("R13", f"{rel}:ContextCheckingVisitor.{nm}", f"`{short(a, 60)}` is decided by a non-None verdict of {DECIDER}()", ok, key=f"{nm}|rejection-on-other-grounds", where=loc(a), detail=None if ok else DETAIL)
    # rejection sites outside the entry points (shared methods, the constructor): judged above wherever an entry point
    # reaches them; one that none reaches (call not expandable, dispatch by other means) has to prove itself
    for nm, f in methods.items():
        if nm in entries:
            continue
        ss = [a for a in sites(f, receiver(f)) if (a.lineno, a.col_offset) not in reached]
        if not ss:
            continue
        cfg, defs = CFG(f), df.all_defs(f)
        for a in ss:
            if not decided(a, cfg, defs):
                raise AnalysisError(f"{rel}:{a.lineno}: ContextCheckingVisitor.{nm} rejects (`{short(a, 50)}`) outside the visitor methods and no visit_* method reaches it in the helper-transparent view: the ground of this rejection is not known")
            ctx.ob("R13", f"{rel}:ContextCheckingVisitor.{nm}", f"`{short(a, 60)}` is decided by a non-None verdict of {DECIDER}()", True, key=f"{nm}|rejection-on-other-grounds", where=loc(a))
    if n < 3:
        raise AnalysisError(f"{rel}: only {n} rejection sites found in the visitor methods of the target check")
    na = m.func("_not_assignable")
    bad = []
    for r in [r for r in walk_local(na) if isinstance(r, ast.Return) and r.value is not None and isinstance(const_value(r.value, None), str)]:
        for a_ in ancestors(r):
            if isinstance(a_, ast.If) and any(r is b or lexically_inside(r, b) for b in a_.body):
                for c in ast.walk(a_.test):
                    if isinstance(c, ast.Call) and call_name(c) == "isinstance" and len(c.args) == 2:
                        kinds = {x.attr for x in ast.walk(c.args[1]) if isinstance(x, ast.Attribute)}
                        if kinds & {"Attribute", "Subscript", "Starred"}:
                            bad.append(r)
    ctx.ob("R13", f"{rel}:_not_assignable", "no rejecting branch tests for Attribute, Subscript or Starred (always assignable)", not bad, key="not_assignable|rejects-assignable-kind", where=loc(bad[0]) if bad else loc(na))


def fstring_chunk_values(ctx, rule):
    """3.12+ grammar: the literal chunks of an f-string arrive as Constant nodes holding the *source* text of the chunk; the
    action of `fstring_expr` replaces that text by its value.  Every such replacement must come out of the interpreter's
    own parser (the chunk re-quoted and parsed) - or be the chunk itself, unchanged."""
    rel = "xonsh/parsers/fstring_rules_llm.py"
    fm = ctx.repo.module(rel)
    raw = fm.func("FStringRules.p_fstring_expr", raw=True) if "raw" in fm.func.__code__.co_varnames else fm.func("FStringRules.p_fstring_expr")
    fn = flat(ctx, raw, 2, skip=("xonsh_call", "pyparse", "parse", "literal_eval"))
    st = f"{rel}:FStringRules.p_fstring_expr"
    defs = df.all_defs(fn)
    DELEG = ("pyparse", "parse", "literal_eval", "FStringAdaptor")
    stores = [n for n in walk_local(fn) if isinstance(n, ast.Assign) and any(isinstance(t, ast.Attribute) and t.attr == "value" for t in n.targets)]
    if not stores:
        raise AnchorMissing(f"{st}: the replacement of a chunk's text by its value (`node.value = ...`)")
    for a in stores:
        tgt = next(t for t in a.targets if isinstance(t, ast.Attribute) and t.attr == "value")
        chunk = unparse(tgt)

        def judged(e, seen=frozenset()):
            """None if fine, else the offending expression"""
            if any(isinstance(c, ast.Call) and (call_name(c) or "").split(".")[-1] in DELEG for c in ast.walk(e)):
                return None
            if unparse(e) == chunk:
                return None  # the chunk as it is
            if isinstance(e, ast.Name) and e.id not in seen:
                ds = [d for d in defs.get(e.id, []) if d.value is not None]
                if ds:
                    for d in ds:
                        r = judged(d.value, seen | {e.id})
                        if r is not None:
                            return r
                    return None
            return e

        bad = judged(a.value)
        ctx.ob(rule, st, f"`{short(a, 60)}`: the value of a literal chunk comes out of the interpreter's own parser (or is the chunk unchanged)", bad is None, key="fstring-chunk|value-not-delegated", where=loc(a), detail=f"`{short(bad, 60)}` computes the value by other means (a codec, a hand-written unescape): non-ASCII text, \\N{{...}}, line continuations differ" if bad is not None else None)
        # ... and each chunk is unescaped once: the node whose value is replaced ranges over the direct parts of *this* literal.
        # Constants nested deeper (a string inside a replacement field, a nested f-string, a format spec) already hold
        # their value - their own action ran first - and a recursive walk unescapes them a second time (r'\\n' -> newline)
        root_ = tgt.value
        it_ = element_source(fn, root_.id, defs) if isinstance(root_, ast.Name) else None
        deep = [c for l_ in ast.walk(fn) if isinstance(l_, (ast.For, ast.comprehension)) and isinstance(l_.target, ast.Name) and isinstance(root_, ast.Name) and l_.target.id == root_.id for c in ast.walk(l_.iter) if isinstance(c, ast.Call) and (call_name(c) or "").split(".")[-1] in ("walk", "iter_child_nodes", "_walk", "walk_local")]
        ctx.ob(rule, st, f"`{short(a, 40)}`: the chunk being unescaped is a direct part of this literal (one pass per literal; no recursive walk into fields that were processed already)", not deep, key="fstring-chunk|unescaped-recursively", where=loc(deep[0]) if deep else loc(a), detail=f"`{short(deep[0], 50)}` also reaches constants nested inside replacement fields" if deep else None)



def _token_multiplicity(ctx):
    """R15: productions `x : TOK_A | TOK_B` whose tokens' texts differ in length and whose value is measured upstream."""
    import re as _re

    n = 0
    for rel in ("xonsh/parsers/base.py", "xonsh/parsers/v36.py", "xonsh/parsers/v38.py", "xonsh/parsers/v39.py", "xonsh/parsers/v310.py", "xonsh/parsers/v313.py"):
        try:
            m = ctx.repo.module(rel)
        except Exception:
            continue
        for q, f in m.functions():
            doc = ast.get_docstring(f, clean=False) if q.split(".")[-1].startswith("p_") else None
            if not doc or ":" not in doc:
                continue
            head, _, rhs = doc.partition(":")
            alts = [a.split() for a in rhs.split("|")]
            # every alternative one terminal (upper case), at least two alternatives, ELLIPSIS among them
            if len(alts) < 2 or not all(len(a) == 1 and a[0].isupper() for a in alts) or "ELLIPSIS" not in {a[0] for a in alts}:
                continue
            n += 1
            stores = [a for a in walk_local(f) if isinstance(a, ast.Assign) and any(unparse(t) == "p[0]" for t in a.targets)]
            ok = bool(stores) and all(unparse(a.value) == "p[1]" or (isinstance(a.value, ast.Call) and call_name(a.value) == "len" and unparse(a.value.args[0]) == "p[1]") for a in stores)
            bad = next((a for a in stores if not (unparse(a.value) == "p[1]" or (isinstance(a.value, ast.Call) and call_name(a.value) == "len"))), None)
            ctx.ob("R15", f"{rel}:{q}", f"`{head.strip()}` ({' | '.join(a[0] for a in alts)}) hands up the token's own text", ok, key=f"{q.split('.')[-1]}|token-multiplicity-lost", where=loc(bad) if bad is not None else loc(f), detail=None if ok else f"`{short(bad, 40)}`: one entry per token - `...` is one ELLIPSIS token of three dots, so a length taken upstream counts tokens, not dots")
    if n == 0:
        raise AnalysisError("no production over PERIOD | ELLIPSIS found in the parser modules")


def _ctx_setters_recurse(ctx, asdl):
    """Tuple.elts / List.elts / Starred.value are the slots in which a target contains targets."""
    SLOTS = (("Tuple", "elts"), ("List", "elts"), ("Starred", "value"))
    # the setters live in base.py today; a move to a sibling helper module (imported back) is followed
    bp = next((ctx.repo.module(rel) for rel in HELPER_FILES if ctx.repo.module(rel).has("store_ctx")), None)
    if bp is None:
        raise AnchorMissing("xonsh/parsers: no definition of store_ctx in the parser helper modules")
    BP = bp.rel
    for k, f in SLOTS:
        if f not in {fl for ty_, q_, fl in asdl.kinds.get(k, []) if ty_ == "expr"} or not asdl.has_ctx(k):
            raise AnalysisError(f"the interpreter's grammar has no {k}.{f} / {k}.ctx: the slot table of R14 is out of date")
    for pub in ("store_ctx", "del_ctx", "load_ctx"):
        fn = bp.func(pub, raw=True)
        worker, family = fn, {pub}
        body = [s_ for s_ in fn.body if not (isinstance(s_, ast.Expr) and isinstance(s_.value, ast.Constant))]
        if len(body) == 1 and isinstance(body[0], (ast.Expr, ast.Return)) and isinstance(body[0].value, ast.Call) and isinstance(body[0].value.func, ast.Name) and bp.has(body[0].value.func.id):
            worker = bp.func(body[0].value.func.id, raw=True)
            family = {pub, worker.name}
        xp = worker.args.args[0].arg
        wdefs = df.all_defs(worker)
        rec = [c for c in calls_in(worker) if isinstance(c.func, ast.Name) and c.func.id in family and c.args]
        covered = set()
        for c in rec:
            a0 = c.args[0]
            # x.value / x.elts[i] / a loop (or comprehension) variable ranging over x.elts
            if isinstance(a0, ast.Attribute) and unparse(a0.value) == xp:
                fld = a0.attr
            else:
                src = element_source(worker, a0.id, wdefs) if isinstance(a0, ast.Name) else None
                fld = src.attr if isinstance(src, ast.Attribute) and unparse(src.value) == xp else None
                if fld is None and isinstance(a0, ast.Name):
                    comp = next((g for g in ast.walk(worker) if isinstance(g, ast.comprehension) and isinstance(g.target, ast.Name) and g.target.id == a0.id), None)
                    if comp is not None and isinstance(comp.iter, ast.Attribute) and unparse(comp.iter.value) == xp:
                        fld = comp.iter.attr
            if fld is None:
                continue
            # which node kinds is this call made for: isinstance facts governing it
            kinds = set()
            for a in ancestors(c):
                if isinstance(a, ast.If):
                    for t in ast.walk(a.test):
                        if isinstance(t, ast.Call) and call_name(t) == "isinstance" and len(t.args) == 2 and unparse(t.args[0]) == xp:
                            kinds |= {n_.attr if isinstance(n_, ast.Attribute) else n_.id for n_ in ast.walk(t.args[1]) if isinstance(n_, (ast.Attribute, ast.Name)) and (n_.attr if isinstance(n_, ast.Attribute) else n_.id) != "ast"}
            for k in kinds or {"?"}:
                covered.add((k, fld))
        for k, f in SLOTS:
            ok = (k, f) in covered or ("?", f) in covered
            ctx.ob("R14", f"{BP}:{worker.name if worker is not fn else pub}", f"{pub}: the setter is applied to {k}.{f} (a target nested in a target gets the context too)", ok, key=f"{pub}|nested-target-not-reached|{k}.{f}", where=loc(worker))

META = {
    "technique": "static analysis over the effective PLY grammar (dumped from the working tree; LALR table generated to find live productions) and MRO-resolved action ASTs, with the running interpreter's ast/token/keyword modules and ast._Unparser tables as oracles",
    "text": "Not tree equality for all programs (undecidable here) but eleven necessary conditions, each checked for "
    "every live production/action rather than for sampled one-liners: every concrete node kind reachable from `mod` "
    "is constructed somewhere; every operator/delimiter spelling and keyword of the interpreter reaches a live "
    "production; the four operator tables and the inline operator constructions agree with ast._Unparser's "
    "class<->spelling tables and are complete; typedargslist/varargslist productions stay inside their parameter "
    "family; each of ~250 node constructions passes a ctx where the node has one and every required field; binding "
    "targets pass store_ctx/del_ctx on every path (following the value into the child production when needed); "
    "int fields are computed where the production admits several values; the trailing-comma slot of tuple-forming "
    "productions is read; dict-valued semantic values (comprehension clauses, call arguments, yield arguments: field "
    "sets computed by fixpoint over the effective grammar) have every field read, or are handed on whole, on every "
    "path on which the field can be present; the tokenizer's backslash-continuation flag never outlives its "
    "string on an error-free path (typestate over flag x accumulator-non-empty); thorough: the table on disk carries the working tree's grammar signature. Known findings: "
    "`**kw: T` after `*args` is not annotatable (vfpdef in a typedargslist production), `for i, in xs`.",
    "note": "Decides the listed structural clauses, not the behaviour. The grammar is read by importing "
    "xonsh.parsers from the analysed tree in a helper subprocess (static initialisers and grammar templating only).",
    "more": "Also decided: every definition of a string/bytes literal's value in p_string_literal (helpers expanded) is delegated to ast.literal_eval, the host parser or the f-string adaptor - never computed from the token text. The post-parse target check rejects only on the verdict of its one decision function, which never rejects Attribute/Subscript/Starred targets; the value of every literal chunk of a 3.12 f-string comes from the host parser. The context setters (store_ctx / del_ctx / load_ctx, or a worker they share) call themselves on every element of a Tuple or List target and on the value of a Starred target, the three slots in which a target nests a target. Each literal chunk of a 3.12 f-string is unescaped once: the pass ranges over the direct parts of the literal, never a recursive walk into replacement fields.",
}

META["more"] += " A production whose alternatives are single tokens of different lengths (PERIOD | ELLIPSIS) hands up the token's own text, so that the level of a relative import counts dots, not tokens."
