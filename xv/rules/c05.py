"""C05 — chains, exit codes and fail-fast follow the documented truth table.

The run-time decision logic is three loop-free functions over a handful of flags;
their complete decision tables are extracted from the source (path enumeration with
forward substitution) and compared with the oracle written from the property
statement and docs/error_handling.rst.  Plus: parser-side marking of chain operands,
wrapper coverage of the subprocess helper family, the token -> helper -> capture-kind
table across three modules, and the exit-status plumbing.  Not decided: Python's own
short-circuit evaluation, real process exit codes.
"""

from __future__ import annotations

import ast
import re

from .common import *
from ..engine import dtable
from ..engine.fold import Folder, NotConstant

PL = "xonsh/procs/pipelines.py"
BI = "xonsh/built_ins.py"
BP = "xonsh/parsers/base.py"
SP = "xonsh/procs/specs.py"
EX = "xonsh/execer.py"
MN = "xonsh/main.py"

CAPTURE_KIND = {
    "subproc_captured_stdout": "stdout",
    "subproc_captured_inject": "stdout",
    "subproc_captured_object": "object",
    "subproc_captured_hiddenobject": "hiddenobject",
    "subproc_uncaptured": False,
}
TOKEN_HELPER = {"$(": "subproc_captured_stdout", "!(": "subproc_captured_object", "![": "subproc_captured_hiddenobject", "$[": "subproc_uncaptured"}


def _atom(e, pol):
    """Classify a literal of the decision functions into an abstract atom (name, truth)."""
    t = unparse(e)
    t1 = t.replace('"', "'")
    # returncode atoms
    m = re.fullmatch(r"(.+) is None", t1)
    if m and ("returncode" in m.group(1)):
        return ("rtn_none", pol)
    m = re.fullmatch(r"(.+) == 0", t1)
    if m and ("returncode" in m.group(1)):
        return ("rtn_zero", pol)
    if "XONSH_SUBPROC_CMD_RAISE_ERROR" in t1 and t1.startswith("XSH.env"):
        return ("cmd_flag", pol)
    if "XONSH_SUBPROC_RAISE_ERROR" in t1 and t1.startswith("XSH.env"):
        return ("chain_flag", pol)
    if "raise_subproc_error" in t1:
        if t1.endswith(" is False"):
            return ("rse_false", pol)
        if t1.endswith(" is True"):
            return ("rse_true", pol)
        if t1.startswith("callable("):
            return ("rse_callable", pol)
        if t1.endswith(" is not True"):
            return ("rse_true", not pol)
        if t1.endswith(" is not False"):
            return ("rse_false", not pol)
    if "in_boolop" in t1 and "==" not in t1:
        return ("in_boolop", pol)
    if "'background'" in t1 or ".background" in t1:
        return ("background", pol)
    if "captured" in t1 and t1.endswith("== 'object'"):
        return ("captured_object", pol)
    if "captured" in t1 and t1.endswith("!= 'object'"):
        return ("captured_object", not pol)
    m = re.fullmatch(r"(.+) is None", t1)
    if m and "'spec'" in m.group(1) or (m and m.group(1).endswith(".spec")):
        return ("spec_none", pol)
    if t1 in ("XSH.lastcmd is None",):
        return ("last_none", pol)
    if t1.endswith(" is not None"):
        a = _atom(ast.parse(t[: -len(" is not None")] + " is None", mode="eval").body, not pol)
        return a
    return ("?" + t1, pol)


def _table(paths, st):
    rows = []
    for p in paths:
        atoms = {}
        unknown = []
        seen_txt = {}
        feasible = True
        for e, pol in dtable.literals(p):
            tx = unparse(e)
            if seen_txt.setdefault(tx, pol) != pol:
                feasible = False  # the same (substituted) test with both outcomes: infeasible path
        if not feasible:
            continue
        for e, pol in dtable.literals(p):
            a, v = _atom(e, pol)
            if a.startswith("?"):
                unknown.append(a[1:])
                continue
            # the same atom may be tested on the value and on the fallback pipeline: the later test wins
            atoms[a] = v
        raises = p.outcome == "raise" and "CalledProcessError" in unparse(p.value)
        if p.outcome == "raise" and not raises:
            raise AnalysisError(f"{st}: path raises something else: {p!r}")
        rows.append((atoms, raises, unknown, p))
    return rows


WRAP_TARGET = "subproc_check_boolop"
DOCUMENTED_VALUE_STMTS = ("ast.Expr", "ast.Assign", "ast.AugAssign", "ast.AnnAssign")


def _standalone_wrap(ctx, bp, wr, chain_skip=()):
    """R3 'standalone-wrap', decided on the helper-transparent view of the wrapper's ``visit`` - wherever the wrap of a
    value statement sits (a method of its own, in place, behind one merged short-circuit condition, or a helper that
    returns the new value).

    Roles, not names: the *statement* is the node parameter of ``visit`` and its plain copies (parameter bindings of
    expanded helpers included); the *value* is any local read from ``<statement>.value`` / ``getattr(<statement>,
    'value'[, None])``; a *wrap step* is a call of a function that builds the ``ast.Call`` to
    ``__xonsh__.subproc_check_boolop`` on the value; a *wrap site* stores such a call into ``<statement>.value``
    (directly, as an arm of a conditional expression, or through a local / a helper's return value).

    Decided by walking the CFG under a scenario with three-valued evaluation of every ``if`` test (single-expression
    predicates of the module are looked through, `_is_subproc_helper_call` is the family test):
      * for each documented statement type, value = call of a raising helper  -> every normal path stores the wrap;
      * value = not a helper call / a helper call that is not in the raising set -> no wrap site can be reached.
    A test that cannot be evaluated and on which the verdict depends is an AnalysisError, never a pass.
    Returns (ok, detail, where)."""
    from ..engine.loader import class_assigns, class_methods

    visit_src = bp.func("_SubprocChainRaiseWrapper.visit", raw=True)
    st = f"{BP}:_SubprocChainRaiseWrapper.visit"

    def real_strings(fn):
        return [n.value for n in ast.walk(fn) if isinstance(n, ast.Constant) and isinstance(n.value, str) and not isinstance(parent(n), ast.Expr)]

    module_funcs = {q: f_ for q, f_ in bp.functions() if "." not in q}
    candidates = dict(module_funcs)
    candidates.update(class_methods(wr, raw=True))
    wrap_fns = {n for n, f_ in candidates.items() if any(WRAP_TARGET in s_ for s_ in real_strings(f_)) and any(call_name(c) == "ast.Call" for c in calls_in(f_))}
    if not wrap_fns:
        raise AnalysisError(f"{st}: no function builds the call to __xonsh__.{WRAP_TARGET}")
    skip = {"_recurse", "_visit_boolop", "_is_subproc_helper_call"} | wrap_fns | set(chain_skip)
    vv = flat(ctx, visit_src, depth=2, skip=tuple(sorted(skip)))
    cfg = CFG(vv)
    defs = df.all_defs(vv)
    STMTS = alias_class(defs, param_name(visit_src, 0))
    cattrs = class_assigns(wr)

    def is_stmt(e):
        return isinstance(e, ast.Name) and e.id in STMTS

    def is_value_read(e):
        if isinstance(e, ast.Attribute) and e.attr == "value" and is_stmt(e.value):
            return True
        if isinstance(e, ast.Call) and call_name(e) == "getattr" and not e.keywords and len(e.args) in (2, 3) and is_stmt(e.args[0]) and const_value(e.args[1]) == "value":
            return len(e.args) == 2 or const_value(e.args[2], default=0) is None
        return False

    VALS = set()
    while True:
        new = {n for n, ds in defs.items() if "." not in n and n not in VALS and ds and all(d.kind in ("assign", "walrus") and d.value is not None and (is_value_read(d.value) or (isinstance(d.value, ast.Name) and d.value.id in VALS)) for d in ds)}
        if not new:
            break
        VALS |= new

    def type_set(t):
        if isinstance(t, ast.Tuple):
            parts = [type_set(x) for x in t.elts]
            return None if any(p is None for p in parts) else set().union(*parts) if parts else set()
        tx = unparse(t)
        if re.fullmatch(r"ast\.\w+", tx):
            return {tx}
        if isinstance(t, ast.Attribute) and unparse(t.value) in ("self", "type(self)", "self.__class__", wr.name) and t.attr in cattrs:
            return type_set(cattrs[t.attr])
        return None

    _attr_fn = {}

    def names_callee_attr(f_):
        """f_(x) is `x.func.attr` whenever x is a call `__xonsh__.<attr>(...)` (and every return of f_ is that attribute or
        None): an accessor for the callee's name, found by what it returns, decided on its own CFG"""
        if f_.name in _attr_fn:
            return _attr_fn[f_.name]
        _attr_fn[f_.name] = res = False
        a_ = f_.args
        if len(a_.args) != 1 or a_.posonlyargs or a_.kwonlyargs or a_.vararg or a_.kwarg:
            return res
        p = a_.args[0].arg
        fdefs = df.all_defs(f_)
        if len(fdefs.get(p, [])) != 1:
            return res

        def closure(is_base):
            got = set()
            while True:
                new = {n for n, ds in fdefs.items() if "." not in n and n not in got and ds and all(d.kind in ("assign", "walrus") and d.value is not None and (is_base(d.value) or (isinstance(d.value, ast.Name) and d.value.id in got)) for d in ds)}
                if not new:
                    return got
                got |= new

        def is_p(x):
            return isinstance(x, ast.Name) and x.id == p

        def func_read(x):
            return isinstance(x, ast.Attribute) and x.attr == "func" and is_p(x.value)

        FUNC = closure(func_read)

        def is_func(x):
            return func_read(x) or (isinstance(x, ast.Name) and x.id in FUNC)

        def owner_read(x):
            return isinstance(x, ast.Attribute) and x.attr == "value" and is_func(x.value)

        OWNER = closure(owner_read)

        def is_owner(x):
            return owner_read(x) or (isinstance(x, ast.Name) and x.id in OWNER)

        def is_attr(x):
            return isinstance(x, ast.Attribute) and x.attr == "attr" and is_func(x.value)

        rets = [n for n in walk_local(f_) if isinstance(n, ast.Return)]
        if not rets or not all(r.value is None or (isinstance(r.value, ast.Constant) and r.value.value is None) or is_attr(r.value) for r in rets):
            return res

        def fatom(e):  # x is `__xonsh__.<attr>(...)`
            if isinstance(e, ast.Call) and call_name(e) == "isinstance" and len(e.args) == 2 and not e.keywords:
                t = unparse(e.args[1])
                if (is_p(e.args[0]) and t == "ast.Call") or (is_func(e.args[0]) and t == "ast.Attribute") or (is_owner(e.args[0]) and t == "ast.Name"):
                    return True
            if isinstance(e, ast.Compare) and len(e.ops) == 1 and isinstance(e.ops[0], (ast.Eq, ast.NotEq)) and isinstance(e.left, ast.Attribute) and e.left.attr == "id" and is_owner(e.left.value) and const_value(e.comparators[0]) == "__xonsh__":
                return isinstance(e.ops[0], ast.Eq)
            return None

        fcfg = CFG(f_)

        def fskip(a, b, label):
            if label in ("exc", "raise"):
                return True
            if a.kind == "if" and label in ("true", "false"):
                v = ev3(a.ast.test, fatom)
                return v is not None and v != (label == "true")
            return False

        live = fcfg.reach([fcfg.entry], skip_edge=fskip, include_starts=True)
        ends = [pr for pr, label in fcfg.exit.pred if pr in live and not fskip(pr, fcfg.exit, label)]
        res = bool(ends) and all(pr.kind == "stmt" and isinstance(pr.ast, ast.Return) and pr.ast.value is not None and is_attr(pr.ast.value) for pr in ends)
        _attr_fn[f_.name] = res
        return res

    def atom(e, sc, vals, depth=2):
        def is_val(x):
            return (isinstance(x, ast.Name) and x.id in vals) or (vals is VALS and is_value_read(x))

        def is_callee_attr(x):
            """the name of the callee of the value: `<value>.func.attr`, or an accessor function applied to the value"""
            if isinstance(x, ast.Attribute) and x.attr == "attr" and isinstance(x.value, ast.Attribute) and x.value.attr == "func" and is_val(x.value.value):
                return True
            if isinstance(x, ast.Call) and not x.keywords and len(x.args) == 1 and is_val(x.args[0]) and call_name(x) in module_funcs:
                return names_callee_attr(module_funcs[call_name(x)])
            return False

        if is_val(e):  # truthiness of the value: an AST node is truthy
            return True if sc["helper"] else None
        if isinstance(e, ast.Call) and not e.keywords:
            cn = call_name(e)
            if cn == "isinstance" and len(e.args) == 2:
                if vals is VALS and is_stmt(e.args[0]):
                    ts = type_set(e.args[1])
                    return None if ts is None else sc["stype"] in ts
                if is_val(e.args[0]) and unparse(e.args[1]) == "ast.Call":
                    return True if sc["helper"] else None
                return None
            if len(e.args) == 1 and is_val(e.args[0]):
                if cn == "_is_subproc_helper_call":
                    return sc["helper"]
                f_ = module_funcs.get(cn)
                if f_ is not None and depth > 0 and cn not in wrap_fns:
                    body = [s_ for s_ in f_.body if not (isinstance(s_, ast.Expr) and isinstance(s_.value, ast.Constant))]
                    a_ = f_.args
                    if len(body) == 1 and isinstance(body[0], ast.Return) and body[0].value is not None and len(a_.args) == 1 and not (a_.posonlyargs or a_.kwonlyargs or a_.vararg or a_.kwarg):
                        inner = frozenset({a_.args[0].arg})
                        return ev3(body[0].value, lambda x: atom(x, sc, inner, depth - 1))
            return None
        if isinstance(e, ast.Compare) and len(e.ops) == 1:
            l, op, r = e.left, e.ops[0], e.comparators[0]
            if is_val(l) and isinstance(r, ast.Constant) and r.value is None and isinstance(op, (ast.Is, ast.IsNot)):
                if not sc["helper"]:
                    return None
                return isinstance(op, ast.IsNot)
            callee_attr = is_callee_attr(l)
            if callee_attr and isinstance(op, (ast.In, ast.NotIn)) and unparse(r) == "_RAISING_SUBPROC_HELPERS":
                if sc["attrin"] is None:
                    return None
                return sc["attrin"] == isinstance(op, ast.In)
            if callee_attr and isinstance(op, (ast.Eq, ast.NotEq)) and const_value(r) == WRAP_TARGET:
                # a helper call is never the wrapping call itself; anything else may be (the chain pass ran first)
                if not sc["helper"]:
                    return None
                return isinstance(op, ast.NotEq)
        return None

    def walker(sc):
        cache = {}

        def decide(n):
            if n not in cache:
                cache[n] = ev3(n.ast.test, lambda x: atom(x, sc, VALS))
            return cache[n]

        def skip_edge(a, b, label):
            if label in ("exc", "raise"):
                return True
            if a.kind == "if" and label in ("true", "false"):
                v = decide(a)
                return v is not None and v != (label == "true")
            return False

        return skip_edge, decide

    # ---- wrap sites
    def wrap_call(e):
        return isinstance(e, ast.Call) and last_attr(e) in wrap_fns and len(e.args) == 1 and not e.keywords and ((isinstance(e.args[0], ast.Name) and e.args[0].id in VALS) or is_value_read(e.args[0]))

    def arms(e, extra=()):
        if isinstance(e, ast.IfExp):
            return arms(e.body, extra + ((e.test, True),)) + arms(e.orelse, extra + ((e.test, False),))
        return [(e, extra)]

    def stored(n):
        """the expression a statement stores into <statement>.value (`s.value = e` or `setattr(s, 'value', e)`), else None"""
        a = n.ast
        if isinstance(a, ast.Assign) and len(a.targets) == 1 and isinstance(a.targets[0], ast.Attribute) and a.targets[0].attr == "value" and is_stmt(a.targets[0].value):
            return a.value
        if isinstance(a, ast.Expr) and isinstance(a.value, ast.Call) and call_name(a.value) == "setattr" and len(a.value.args) == 3 and not a.value.keywords and is_stmt(a.value.args[0]) and const_value(a.value.args[1]) == "value":
            return a.value.args[2]
        return None

    stores = [n for n in cfg.nodes if n.kind == "stmt" and stored(n) is not None]
    sites = []  # (node whose reachability decides, extra guards, store node, carrier local or None)
    for s_ in stores:
        for e, extra in arms(stored(s_)):
            if wrap_call(e):
                sites.append((s_, extra, s_, None))
            elif isinstance(e, ast.Name) and "." not in e.id:
                for d in defs.get(e.id, []):
                    if d.kind == "assign" and d.value is not None:
                        for e2, extra2 in arms(d.value):
                            if wrap_call(e2):
                                for dn in cfg.nodes_of(d.stmt):
                                    sites.append((dn, extra + extra2, s_, e.id))
    all_wraps = [c for c in calls_in(vv) if last_attr(c) in wrap_fns and not getattr(enclosing_stmt(c), "_xv_call_marker", False)]
    if not all_wraps or not stores:
        return False, "nothing wraps the value of a value statement" if not all_wraps else "the wrapped value is never stored back into the statement", loc(visit_src)
    if not sites:
        raise AnalysisError(f"{st}: {len(all_wraps)} wrap call(s) ({', '.join(sorted({short(enclosing_stmt(c), 60) for c in all_wraps}))}) but none is stored into <statement>.value in a recognised way")
    where_ = loc(sites[0][2].ast)

    def carried(site, skip_edge):
        """the wrapped value bound at `site` reaches its store on every normal path, not re-bound on the way"""
        dn, _extra, store, local = site
        if local is None:
            return True
        okc, _p = cfg.must_pass([dn], lambda m: m is store, exits=("exit",), skip_edge=skip_edge)
        seen = cfg.reach([dn], stop=lambda m: m is store, skip_edge=skip_edge)
        rebound = any(m is not store and m is not dn and m.ast is not None and any(m.ast is d.stmt for d in defs.get(local, [])) for m in seen)
        return okc and not rebound

    def undecided(skip_edge, decide):
        live = cfg.reach([cfg.entry], skip_edge=skip_edge)
        return sorted({unparse(n.ast.test) for n in live if n.kind == "if" and decide(n) is None})

    for stype in DOCUMENTED_VALUE_STMTS:
        # (a) the value is a call of a raising helper: the wrap is stored on every normal path
        sc = dict(stype=stype, helper=True, attrin=True)
        skip_edge, decide = walker(sc)
        sat = [s_ for s_ in sites if all(ev3(t, lambda x: atom(x, sc, VALS)) is p for t, p in s_[1]) and carried(s_, skip_edge)]
        nodes = {s_[0] for s_ in sat}
        reached, path = cfg.must_pass([cfg.entry], lambda m: m in nodes, exits=("exit",), skip_edge=skip_edge)
        if not reached:
            und = undecided(skip_edge, decide) + [unparse(t) for s_ in sites for t, p in s_[1] if ev3(t, lambda x: atom(x, sc, VALS)) is None]
            if und:
                raise AnalysisError(f"{st}: cannot decide whether the value of an {stype} statement that is a raising-helper call is wrapped: unrecognised test(s) {und}")
            return False, f"{stype} statement whose value is a call of a raising helper: not wrapped on {cfg.fmt_path(path)}", where_
        # (b) the value is a helper call outside the raising set (`!()`): never wrapped.  A value that is no helper call
        #     at all: reported when the wrap is definitely reached; not an error when that cannot be decided (the rule
        #     speaks about the helper family; what an accessor returns for foreign nodes is not modelled)
        for label, sc, strict in (("is a helper call outside the raising set", dict(stype=stype, helper=True, attrin=False), True), ("is not a subprocess helper call", dict(stype=stype, helper=False, attrin=None), False)):
            skip_edge, decide = walker(sc)
            live = cfg.reach([cfg.entry], skip_edge=skip_edge)
            for s_ in sites:
                if s_[0] not in live or any(ev3(t, lambda x: atom(x, sc, VALS)) is (not p) for t, p in s_[1]):
                    continue
                und = undecided(skip_edge, decide) + [unparse(t) for t, p in s_[1] if ev3(t, lambda x: atom(x, sc, VALS)) is None]
                if und and not strict:
                    continue
                if und:
                    raise AnalysisError(f"{st}: cannot decide that the value of an {stype} statement that {label} stays unwrapped: unrecognised test(s) {und}")
                return False, f"{stype} statement whose value {label} is wrapped too (the raising-set test does not guard the wrap)", loc(s_[2].ast)
    return True, f"{len(sites)} wrap site(s); statement={sorted(STMTS)} value={sorted(VALS)} wrap={sorted(wrap_fns)}", where_


def check(ctx):
    ctx.not_decided += [
        "short-circuit evaluation itself (Python's and/or over CommandPipeline.__bool__)",
        "actual process exit codes; interaction with job control",
        "phase-2 (context-aware) operands are not marked in_boolop: after the decision-table repair both parse paths decide alike, so marking there is not a necessary condition",
    ]
    ctx.rule("R1", "decision tables of _raise_subproc_error, subproc_check_boolop and _check_subproc_helper_raise equal the documented truth table on every path", floor=20)
    ctx.rule("R2", "every BoolOp the grammar builds from and/or/&&/|| passes through _mark_boolop_subproc_values, which tags each direct subprocess operand with in_boolop=True", floor=5)
    ctx.rule("R3", "wrapper coverage: raising helpers = all helpers minus !(); value statements covered; only the outermost chain is wrapped (flag restored in finally); the wrapper pass runs on every transformed parse", floor=6)
    ctx.rule("R4", "token -> helper -> capture kind agree across grammar, built_ins and specs; in_boolop is forwarded; non-pipeline helpers check the last pipeline after running", floor=14)
    ctx.rule("R8", "the raise switches are the user's: no code of xonsh sets, swaps or overlays `$XONSH_SUBPROC_RAISE_ERROR` (the statement-level switch), and `$XONSH_SUBPROC_CMD_RAISE_ERROR` / `$RAISE_SUBPROC_ERROR` are written only by the public subprocess API (run / check_call ask for it by contract) and the script-mode default table - a scope that turns the switch off around a body (a string alias, a hook) lets the statements after a failing one run and the caller see success", floor=3)
    ctx.rule("R7", "the pipeline the raise decision falls back to is the one the statement ran: helpers that return a string / None / a list ($(), $[], @$()) are judged through XSH.lastcmd, so on every path of _run_specs that ends the pipeline and returns something else than the pipeline, `lastcmd` is (re)assigned to that pipeline *after* it was ended - a callable-alias stage runs nested commands while it is being ended, and each of them sets lastcmd", floor=2)
    ctx.rule("R6", "every pipeline that is ended for the first time reaches the per-command raise decision (_raise_subproc_error) on every normal path - also one whose command could not be started", floor=1)
    ctx.rule("R5", "XSH.exit is honoured before and after a pipeline; an exception escaping a script / -c run yields a non-zero exit status; truthiness is returncode == 0 of the last stage", floor=5)

    # ------------------------------------------------------------------ R1
    pl = ctx.repo.module(PL)
    fn = pl.func("CommandPipeline._raise_subproc_error")
    st = f"{PL}:CommandPipeline._raise_subproc_error"
    from ..engine import inline as _inl

    def flat_paths(f_):
        """decision paths of f_ with its helpers expanded; infeasible (constant-decided) paths dropped"""
        ff = _inl.flatten(ctx.repo, f_, depth=2, skip=("_return_terminal", "print_exception"))
        return dtable.simplified(dtable.paths(ff))

    rows = _table(flat_paths(fn), st)
    if len(rows) < 4:
        raise AnalysisError(f"{st}: only {len(rows)} paths enumerated")
    for atoms, raises, unknown, p in rows:
        if unknown:
            raise AnalysisError(f"{st}: unrecognised guard(s) {unknown} on path {p!r}")
        desc = ", ".join(f"{k}={v}" for k, v in sorted(atoms.items()))
        failed = atoms.get("rtn_none") is False and atoms.get("rtn_zero") is False
        if raises:
            # raise requires: failed AND (rse is True OR (rse not False AND cmd flag))
            ok = failed and (atoms.get("rse_true") is True or (atoms.get("rse_false") is False and atoms.get("cmd_flag") is True))
            ctx.ob("R1", st, f"raise path [{desc}] is licensed: command failed and (@error_raise or ($XONSH_SUBPROC_CMD_RAISE_ERROR and not @error_ignore))", ok, key=f"raise-path|{desc}", where=loc(p.node))
        else:
            # a non-raising path must carry an exemption: not failed | @error_ignore | (not @error_raise and cmd flag off)
            ok = (
                atoms.get("rtn_none") is True
                or atoms.get("rtn_zero") is True
                or atoms.get("rse_false") is True
                or (atoms.get("rse_true") is False and atoms.get("cmd_flag") is False)
            )
            ctx.ob(
                "R1",
                st,
                f"non-raising path [{desc}] is exempt (not failed | @error_ignore | flag off); $XONSH_SUBPROC_CMD_RAISE_ERROR raises 'regardless of chain context'",
                ok,
                key="noraise-path|" + ",".join(f"{k}={v}" for k, v in sorted(atoms.items()) if k in ("in_boolop", "cmd_flag", "rse_true", "rse_false")),
                where=loc(p.node) if p.node is not None else loc(fn),
            )
    # the callable form is resolved before it is compared
    cfgf = CFG(fn)
    calls_rse = [n for n in cfgf.nodes if n.kind == "if" and "callable(" in unparse(n.ast.test)]
    tests = [n for n in cfgf.nodes if n.kind == "if" and re.search(r"raise_subproc_error is (True|False)", unparse(n.ast.test))]
    ctx.ob("R1", st, "a callable @error_* override is resolved before it is compared with True/False", bool(calls_rse) and all(cfgf.dominated(t, lambda m: m in calls_rse) for t in tests), key="callable-resolved-first")

    bi = ctx.repo.module(BI)
    for q in ("subproc_check_boolop", "_check_subproc_helper_raise"):
        fn = bi.func(q)
        st = f"{BI}:{q}"
        rows = _table(flat_paths(fn), st)
        n_raise = 0
        for atoms, raises, unknown, p in rows:
            # a guard the table does not know can only *restrict* a path: a raising path stays licensed by the
            # atoms it does carry, a non-raising path must still carry a documented exemption among them
            # (an unknown test such as `if value: return value` is no exemption)
            desc = ", ".join(f"{k}={v}" for k, v in sorted(atoms.items())) + (f" + unrecognised {unknown}" if unknown else "")
            if raises:
                n_raise += 1
                need = {"chain_flag": True, "rtn_none": False, "rtn_zero": False, "captured_object": False, "rse_false": False, "background": False, "spec_none": False}
                if q == "_check_subproc_helper_raise":
                    need["in_boolop"] = False
                    need["last_none"] = False
                miss = {k: v for k, v in need.items() if atoms.get(k) is not v}
                ctx.ob("R1", st, f"raise path is licensed: chain flag on, pipeline known, not background, failed, not !(), not @error_ignore" + (", not a chain operand" if "in_boolop" in need else ""), not miss, key=f"{q}|raise-missing|" + ",".join(sorted(miss)), where=loc(p.node), detail=f"path [{desc}] lacks {miss}" if miss else None)
            else:
                ex = (
                    atoms.get("chain_flag") is False
                    or atoms.get("background") is True
                    or atoms.get("last_none") is True
                    or atoms.get("spec_none") is True
                    or atoms.get("rtn_none") is True
                    or atoms.get("rtn_zero") is True
                    or atoms.get("captured_object") is True
                    or atoms.get("rse_false") is True
                    or (q == "_check_subproc_helper_raise" and atoms.get("in_boolop") is True)
                )
                kd = ", ".join(f"{k}={v}" for k, v in sorted(atoms.items()))
                ctx.ob("R1", st, f"non-raising path [{desc}] carries a documented exemption", ex, key=f"{q}|noraise-unexempt|{kd}", where=loc(p.node) if p.node is not None else loc(fn))
        ctx.ob("R1", st, "the function can raise CalledProcessError", n_raise >= 1, key=f"{q}|never-raises")
    # non-raising returns of subproc_check_boolop hand the value back unchanged
    fn = bi.func("subproc_check_boolop")
    vparam = fn.args.args[0].arg
    for n in walk_local(fn):
        if isinstance(n, ast.Return):
            ctx.ob("R1", f"{BI}:subproc_check_boolop", "the checked value is passed through unchanged", unparse(n.value) == vparam, key="check_boolop|value-changed", where=loc(n))

    # ------------------------------------------------------------------ R2
    bp = ctx.repo.module(BP)
    for q in ("BaseParser.p_or_test", "BaseParser.p_and_test"):
        fn = bp.func(q)
        cfg = CFG(fn)
        builds = [n for n in cfg.nodes if n.kind == "stmt" and isinstance(n.ast, ast.Assign) and isinstance(n.ast.value, ast.Call) and call_name(n.ast.value) == "ast.BoolOp"]
        if not builds:
            raise AnchorMissing(f"{BP}:{q}: no ast.BoolOp construction")
        for b in builds:
            tgt = unparse(b.ast.targets[0])
            marks = [n for n in cfg.nodes if n.kind == "stmt" and any(call_name(c) == "_mark_boolop_subproc_values" and c.args and unparse(c.args[0]) == tgt for c in calls_in(n.ast))]
            ok, path = cfg.must_pass(b, lambda m: m in marks, exits=("exit",))
            ctx.ob("R2", f"{BP}:{q}", f"`{short(b.ast, 60)}` is marked before the production returns", ok, key=f"{q}|unmarked-boolop", where=loc(b.ast), path=cfg.fmt_path(path) if path else None)
    mk = bp.func("_mark_boolop_subproc_values")
    loops = [n for n in walk_local(mk) if isinstance(n, ast.For)]
    ok = len(loops) == 1 and unparse(loops[0].iter).endswith(".values")
    ctx.ob("R2", f"{BP}:_mark_boolop_subproc_values", "iterates every direct operand (boolop.values)", ok, key="mark|iter")
    kw = [n for n in ast.walk(mk) if isinstance(n, ast.Call) and call_name(n) == "ast.keyword"]
    ok = any(const_value(kwarg(k, "arg")) == "in_boolop" and isinstance(kwarg(k, "value"), ast.Call) and const_value(kwarg(kwarg(k, "value"), "value")) is True for k in kw)
    ctx.ob("R2", f"{BP}:_mark_boolop_subproc_values", "appends keyword in_boolop=True", ok, key="mark|keyword")
    # the only skip conditions are 'not a helper call' and 'already marked'
    mcfg = CFG(mk)
    app = [n for n in mcfg.nodes if n.kind == "stmt" and "keywords.append" in unparse(n.ast)]
    if app:
        facts = facts_text(facts_at(mcfg, app[0]))
        ok = any("_is_subproc_helper_call" in f and f.startswith("not not ") or f.startswith("_is_subproc_helper_call") for f in facts) or any("not not _is_subproc_helper_call" in f for f in facts)
        # facts come as "not <test>" for the false edge of `if not _is_subproc_helper_call(value): continue`
        ok = ok or any(f == f"not not _is_subproc_helper_call({unparse(loops[0].target)})" for f in facts)
        guards = [(unparse(t), p) for t, p in mcfg.guards(app[0])]
        ok = len(guards) == 2 and any("_is_subproc_helper_call" in t and not p for t, p in guards) and any("in_boolop" in t and not p for t, p in guards)
        ctx.ob("R2", f"{BP}:_mark_boolop_subproc_values", "an operand is skipped only if it is not a helper call or already marked", ok, key="mark|extra-skip", detail=str(guards))

    # ------------------------------------------------------------------ R3
    f = Folder(bp)
    try:
        helpers = frozenset(f.name("_SUBPROC_HELPER_NAMES"))
        raising = frozenset(f.name("_RAISING_SUBPROC_HELPERS"))
    except NotConstant as e:
        raise AnalysisError(str(e))
    ctx.ob("R3", f"{BP}:_RAISING_SUBPROC_HELPERS", "raising helpers = all helpers minus subproc_captured_object (`!()` is the only exemption)", raising == helpers - {"subproc_captured_object"}, key="raising-set", detail=f"{sorted(raising)} vs {sorted(helpers)}")
    ctx.ob("R3", f"{BP}:_SUBPROC_HELPER_NAMES", "helper family is the five documented capture forms", helpers == set(CAPTURE_KIND), key="helper-set", detail=str(sorted(helpers)))
    wr = bp.cls("_SubprocChainRaiseWrapper")
    from ..engine.loader import class_assigns

    vst = class_assigns(wr).get("_VALUE_STMT_TYPES")
    names = {unparse(e) for e in vst.elts} if isinstance(vst, ast.Tuple) else set()
    ctx.ob("R3", f"{BP}:_SubprocChainRaiseWrapper", "standalone wrapping covers Expr, Assign, AugAssign and AnnAssign statements", {"ast.Expr", "ast.Assign", "ast.AugAssign", "ast.AnnAssign"} <= names, key="value-stmt-types", detail=str(sorted(names)))
    # the predicate that says "this chain holds a command" is found by what it does (it applies _is_subproc_helper_call),
    # not by its name; it may also be written in place
    vb_raw = bp.func("_SubprocChainRaiseWrapper._visit_boolop", raw=True)
    PREDS = {c.func.id for c in calls_in(vb_raw) if isinstance(c.func, ast.Name) and bp.has(c.func.id) and isinstance(bp.get(c.func.id), FuncTypes) and any(call_name(x) == "_is_subproc_helper_call" for x in calls_in(bp.get(c.func.id), local=False))}
    vb = flat(ctx, bp.func("_SubprocChainRaiseWrapper._visit_boolop"), depth=2, skip=("_recurse", "_wrap") + tuple(sorted(PREDS)))
    vcfg = CFG(vb)
    sets = [n for n in vcfg.nodes if n.kind == "stmt" and isinstance(n.ast, ast.Assign) and unparse(n.ast.targets[0]) == "self._inside_boolop" and const_value(n.ast.value) is True]
    # a reset writes False, or writes back a local that saved the flag before it was set (save/restore idiom)
    saved = names_bound_to_text(vb, "self._inside_boolop")
    saved = {s_ for s_ in saved if all(vcfg.dominated(st_, lambda m, s_=s_: m.kind == "stmt" and isinstance(m.ast, ast.Assign) and unparse(m.ast.targets[0]) == s_) for st_ in sets)}
    resets = [n for n in vcfg.nodes if n.kind == "stmt" and isinstance(n.ast, ast.Assign) and unparse(n.ast.targets[0]) == "self._inside_boolop" and (const_value(n.ast.value) is False or unparse(n.ast.value) in saved)]
    ok = bool(sets) and bool(resets)
    path = None
    if ok:
        ok, path = vcfg.must_pass(sets, lambda m: m in resets)
    ctx.ob("R3", f"{BP}:_SubprocChainRaiseWrapper._visit_boolop", "the inside-chain flag is reset on every exit (normal or exceptional)", ok, key="inside-boolop-not-restored", path=vcfg.fmt_path(path) if path else None)
    # nested chain: returns node unwrapped; outermost: wrapped iff it contains a subprocess.  Decided by three-valued
    # evaluation of the guards that dominate the wrapping return: it must be unreachable when the chain holds no
    # subprocess, and unreachable when the flag was set on entry (nested chain)
    wraps = [n for n in vcfg.nodes if n.kind == "stmt" and isinstance(n.ast, ast.Return) and "self._wrap(" in unparse(n.ast)]

    def blocked(w, assignment):
        def atoms(e):
            t = unparse(e)
            for k_, v_ in assignment.items():
                if t == k_ or (k_.endswith("(") and t.startswith(k_)):
                    return v_
            return None

        return any(ev3(t, atoms) is (not p) for t, p in vcfg.guards(w))

    entry_flag = {"self._inside_boolop": True} | {s_: True for s_ in saved}
    vdefs_ = df.all_defs(vb)

    def evidence(w):
        """positive guards of w that look for a command in the chain: (guard text, expression, predicate function or None)"""
        out = []
        for t0, p0 in vcfg.guards(w):
            for t, p_ in implied_facts(t0, p0):
                e = t
                if isinstance(t, ast.Name) and len(vdefs_.get(t.id, [])) == 1 and vdefs_[t.id][0].value is not None:
                    e = vdefs_[t.id][0].value
                fn_ = bp.get(e.func.id) if isinstance(e, ast.Call) and isinstance(e.func, ast.Name) and e.func.id in PREDS else None
                looks = fn_ is not None or any(isinstance(x, ast.Call) and call_name(x) == "_is_subproc_helper_call" for x in ast.walk(e))
                if p_ and looks:
                    out.append((unparse(t), e, fn_))
        return out

    okw = bool(wraps) and all(evidence(w) and all(blocked(w, {gt: False}) for gt, _e, _f in evidence(w)) and blocked(w, entry_flag) for w in wraps)
    ctx.ob("R3", f"{BP}:_SubprocChainRaiseWrapper._visit_boolop", "only an outermost chain that contains a subprocess is wrapped", okw, key="wrap-condition")
    for gt, e_, bc in [ev_ for w in wraps for ev_ in evidence(w)][:1]:
        scope = bc if bc is not None else e_
        deep = False
        for n in ast.walk(scope):
            if isinstance(n, ast.Call) and call_name(n) in ("ast.walk",) and n.args and isinstance(n.args[0], ast.Name):
                deep = True
            if bc is not None and isinstance(n, ast.Call) and call_name(n) == bc.name:
                deep = True  # explicit recursion into nested chains
        uses_pred = any(isinstance(c, ast.Call) and call_name(c) == "_is_subproc_helper_call" for c in ast.walk(scope))
        ctx.ob("R3", f"{BP}:{bc.name if bc is not None else '_SubprocChainRaiseWrapper._visit_boolop'}", "the predicate that decides whether the outermost chain is wrapped looks for subprocess operands at any depth (chains of groups such as `a && b || c && d` have no plain command directly under the top operator)", deep and uses_pred, key="contains-subproc|shallow", where=loc(bc if bc is not None else e_))
    ok, why, where_ = _standalone_wrap(ctx, bp, wr)
    ctx.ob("R3", f"{BP}:_SubprocChainRaiseWrapper.visit", "a standalone raising-helper call is wrapped", ok, key="standalone-wrap", detail=why, where=where_)
    irh = bp.func("_is_raising_subproc_helper_call")
    ctx.ob("R3", f"{BP}:_is_raising_subproc_helper_call", "membership is tested against _RAISING_SUBPROC_HELPERS", "_RAISING_SUBPROC_HELPERS" in unparse(irh), key="raising-test")
    # Execer.parse: every transformed tree passes the wrapper pass
    ex = ctx.repo.module(EX)
    pf = ex.func("Execer.parse")
    pcfg = CFG(pf)
    wrapn = [n for n in pcfg.nodes if n.kind == "stmt" and any(call_name(c) == "wrap_subproc_raise_checks" for c in calls_in(n.ast))]
    ctxv = [n for n in pcfg.nodes if n.kind == "stmt" and any((call_name(c) or "").endswith("ctxvisit") for c in calls_in(n.ast))]
    ok = bool(wrapn) and bool(ctxv)
    if ok:
        ok, path = pcfg.must_pass(ctxv, lambda m: m in wrapn, exits=("exit",))
    ctx.ob("R3", f"{EX}:Execer.parse", "every context-transformed tree passes wrap_subproc_raise_checks before it is returned", ok, key="parse|wrapper-skipped")
    treevars = {t.id for n in ctxv if isinstance(n.ast, ast.Assign) for t in n.ast.targets if isinstance(t, ast.Name)}
    rets = [n for n in pcfg.nodes if n.kind == "stmt" and isinstance(n.ast, ast.Return) and isinstance(n.ast.value, ast.Name) and n.ast.value.id in treevars]
    ok = bool(rets) and all(pcfg.dominated(r, lambda m: m in wrapn) for r in rets)
    ctx.ob("R3", f"{EX}:Execer.parse", "`return tree` is dominated by the wrapper pass", ok, key="parse|return-undominated")

    # ------------------------------------------------------------------ R4
    sp = ctx.repo.module(SP)
    for h, kind in CAPTURE_KIND.items():
        if not bi.has(h):
            ctx.ob("R4", f"{BI}:{h}", "helper emitted by the grammar is defined in built_ins", False, key=f"{h}|undefined")
            continue
        fn = bi.func(h)
        st = f"{BI}:{h}"
        runs = [c for c in calls_in(fn) if (call_name(c) or "").endswith("run_subproc")]
        ok = len(runs) == 1 and const_value(kwarg(runs[0], "captured"), "?") == kind
        ctx.ob("R4", st, f"runs the pipeline with captured={kind!r}", ok, key=f"{h}|capture-kind", where=loc(fn), detail=short(runs[0]) if runs else None)
        okb = len(runs) == 1 and unparse(kwarg(runs[0], "in_boolop")) == "in_boolop" and any(a.arg == "in_boolop" for a in fn.args.kwonlyargs)
        ctx.ob("R4", st, "forwards the parser's in_boolop mark", okb, key=f"{h}|in_boolop-not-forwarded", where=loc(fn))
        oke = len(runs) == 1 and unparse(kwarg(runs[0], "envs")) == "envs"
        ctx.ob("R4", st, "forwards per-command env overlays", oke, key=f"{h}|envs-not-forwarded", where=loc(fn))
        if kind in ("stdout", False):
            cfg = CFG(fn)
            rn = [n for n in cfg.nodes if n.kind == "stmt" and runs and any(c is runs[0] for c in calls_in(n.ast))]
            chk = [n for n in cfg.nodes if n.kind == "stmt" and any(call_name(c) == "_check_subproc_helper_raise" and c.args and unparse(c.args[0]) == "in_boolop" for c in calls_in(n.ast))]
            ok = bool(rn) and bool(chk)
            if ok:
                ok, _ = cfg.must_pass(rn, lambda m: m in chk, exits=("exit",))
            ctx.ob("R4", st, "a helper that returns text/None/list checks the pipeline it just ran (so nested `echo @$(false)` raises)", ok, key=f"{h}|no-post-check", where=loc(fn))
    # XonshSession binds the helpers
    binds = ctx.repo.read(BI)
    for h in CAPTURE_KIND:
        ctx.ob("R4", f"{BI}:XonshSession", f"{h} is bound on the session object", re.search(rf"self\.{h}\s*=\s*{h}\b", binds) is not None, key=f"{h}|unbound")
    # grammar: token -> helper
    dr = bp.func("BaseParser._dollar_rules")
    # by path enumeration: the path on which `<tok> == "$["` holds builds which helper call (if/elif order, arm order
    # and != tests do not matter)
    found = {}
    for pth in dtable.simplified(dtable.paths(dr, stores=True, loops="skip")):
        toks = []
        for e, pol in pth.conds:
            alts = dtable.branches(e, pol)
            for e2, p2 in alts[0] if len(alts) == 1 else [dtable.normalise(e, pol)]:
                if p2 and isinstance(e2, ast.Compare) and isinstance(e2.ops[0], ast.Eq) and isinstance(const_value(e2.comparators[0]), str):
                    toks.append(const_value(e2.comparators[0]))
        if len(toks) != 1:
            continue
        exprs = [v for k_, v in pth.env.items() if isinstance(v, ast.AST) and not k_.startswith("<")] + [e.value if isinstance(e, ast.Assign) else e for e in pth.effects if isinstance(e, ast.AST)]
        for x in exprs:
            for c in ast.walk(x):
                if isinstance(c, ast.Call) and call_name(c) == "xonsh_call" and c.args and isinstance(const_value(c.args[0]), str):
                    found[toks[0]] = const_value(c.args[0]).replace("__xonsh__.", "")
    for tok, h in TOKEN_HELPER.items():
        ctx.ob("R4", f"{BP}:BaseParser._dollar_rules", f"token {tok!r} builds a call to {h}", found.get(tok) == h, key=f"token|{tok}", detail=str(found.get(tok)))
    for q, h in (("BaseParser.p_subproc_atom_uncaptured", "subproc_uncaptured"), ("BaseParser.p_subproc_atom_captured_stdout", "subproc_captured_stdout"), ("BaseParser.p_subproc_atom_subproc_inject", "subproc_captured_inject")):
        fn = bp.func(q)
        got = [const_value(c.args[0]) for c in calls_in(fn) if call_name(c) == "xonsh_call" and c.args]
        ctx.ob("R4", f"{BP}:{q}", f"nested form builds a call to {h}", got == [f"__xonsh__.{h}"], key=f"{q}|helper", detail=str(got))
    # bare-command wrapping uses ![ ... ]
    tl = ctx.repo.module("xonsh/tools.py")
    spt = tl.func("subproc_toks")
    pd = {a.arg: d for a, d in zip(reversed(spt.args.args), reversed(spt.args.defaults))}
    ctx.ob("R4", "xonsh/tools.py:subproc_toks", "a bare command is wrapped as ![...] (hidden object: subject to the chain check)", const_value(pd.get("lparen")) in (None, "![") or "![" in unparse(spt), key="subproc_toks|wrapper-form")
    # specs: in_boolop reaches every spec; lastcmd is set before any return of _run_specs
    c2s = sp.func("cmds_to_specs")
    ok = any(isinstance(n, ast.Assign) and unparse(n.targets[0]).endswith(".in_boolop") and unparse(n.value) == "in_boolop" for n in walk_local(c2s))
    ctx.ob("R4", f"{SP}:cmds_to_specs", "every spec of the pipeline records in_boolop", ok, key="cmds_to_specs|in_boolop")
    rs = sp.func("run_subproc")
    ok = any(call_name(c) == "cmds_to_specs" and unparse(kwarg(c, "in_boolop")) == "in_boolop" and unparse(kwarg(c, "captured")) == "captured" for c in calls_in(rs))
    ctx.ob("R4", f"{SP}:run_subproc", "captured kind and in_boolop are handed to cmds_to_specs", ok, key="run_subproc|forwarding")
    # decided on the helper-transparent view: the (chained) assignment may sit in a helper that is handed the pipeline;
    # what is stored must be the pipeline this call ran (the local bound from _run_command_pipeline, or a plain copy of
    # it such as the helper's parameter)
    rsp = flat(ctx, sp.func("_run_specs"), 1, skip=("_run_command_pipeline", "resume_process", "end"))
    rcfg = CFG(rsp)
    rdefs = df.all_defs(rsp)
    PIPE = set()
    for nm_ in names_bound_to_call(rsp, lambda c_: c_.endswith("_run_command_pipeline"), rdefs):
        PIPE |= copies_of(rdefs, nm_)
    if not PIPE:
        raise AnalysisError(f"{SP}:_run_specs: the local holding the pipeline was not found")
    setl = [n for n in rcfg.nodes if n.kind == "stmt" and isinstance(n.ast, ast.Assign) and any(unparse(t) == "XSH.lastcmd" for t in n.ast.targets) and isinstance(n.ast.value, ast.Name) and n.ast.value.id in PIPE]
    rets = [n for n in rcfg.nodes if n.kind == "stmt" and isinstance(n.ast, ast.Return)]
    ok = bool(setl) and all(rcfg.dominated(r, lambda m: m in setl) for r in rets)
    ctx.ob("R4", f"{SP}:_run_specs", "XSH.lastcmd is set to the new pipeline before any return", ok, key="_run_specs|lastcmd")

    # ------------------------------------------------------------------ R5
    rcfg = CFG(rs)
    exits = [n for n in rcfg.nodes if n.kind == "if" and unparse(n.ast.test) == "XSH.exit is not None" and any(isinstance(s, ast.Raise) and "SystemExit" in unparse(s) for s in n.ast.body)]
    runn = [n for n in rcfg.nodes if n.kind == "stmt" and any(call_name(c) in ("_run_specs", "cmds_to_specs") for c in calls_in(n.ast))]
    before = any(all(rcfg.dominated(r, lambda m, e=e: m is e) for r in runn) for e in exits) if runn else False
    after = False
    rets = [n for n in rcfg.nodes if n.kind == "stmt" and isinstance(n.ast, ast.Return)]
    for e in exits:
        if rets and all(rcfg.dominated(r, lambda m, e=e: m is e) for r in rets) and any(e in rcfg.reach([x]) for x in runn):
            after = True
    ctx.ob("R5", f"{SP}:run_subproc", "`exit N` is honoured before the next pipeline starts", before, key="run_subproc|exit-before")
    ctx.ob("R5", f"{SP}:run_subproc", "`exit N` is honoured after the pipeline, before the result is returned", after, key="run_subproc|exit-after")
    cp = pl.cls("CommandPipeline")
    from ..engine.loader import class_methods

    bm = class_methods(cp).get("__bool__")
    ok = bm is not None and any(isinstance(n, ast.Return) and unparse(n.value) in ("self.returncode == 0", "0 == self.returncode") for n in walk_local(bm))
    ctx.ob("R5", f"{PL}:CommandPipeline.__bool__", "a pipeline is true iff its return code is 0", ok, key="bool")
    rcprop = class_methods(cp).get("returncode")
    ok = rcprop is not None and "self.proc" in unparse(rcprop)
    ctx.ob("R5", f"{PL}:CommandPipeline.returncode", "the pipeline's code is read from self.proc (the last stage)", ok, key="returncode-source")
    # self.proc is only ever procs[-1] or None
    bad = []
    n_proc = 0
    for q, f2 in pl.functions():
        if not q.startswith("CommandPipeline."):
            continue
        for n in walk_local(f2):
            if isinstance(n, ast.Assign):
                for t in n.targets:
                    for tt in (t.elts if isinstance(t, ast.Tuple) else [t]):
                        if unparse(tt) == "self.proc":
                            n_proc += 1
                            v = unparse(n.value)
                            if v not in ("None", "self.procs[-1]", "procs[-1]", "proc"):
                                bad.append((q, v))
                            elif v == "proc":
                                # local `proc` must be the loop variable that ends as the last stage
                                pass
    ctx.ob("R5", f"{PL}:CommandPipeline", f"self.proc is only ever the last stage or None ({n_proc} assignments)", not bad and n_proc >= 1, key="proc-assignment", detail=str(bad))
    mn = ctx.repo.module(MN)
    mx = mn.func("main_xonsh")
    src = unparse(mx)
    # in the finally: a non-SystemExit exception sets exit_code = 1
    retvars = {n.value.id for n in walk_local(mx) if isinstance(n, ast.Return) and isinstance(n.value, ast.Name)}
    # fact based (branch order / else-vs-negated-test do not matter): some assignment of a non-zero constant to
    # the returned variable, inside a finally, is guarded by "the recorded exception is not SystemExit"
    fin_ok = False
    mcfg = CFG(mx)
    for n in ast.walk(mx):
        if isinstance(n, ast.Try) and n.finalbody:
            for m in ast.walk(ast.Module(body=n.finalbody, type_ignores=[])):
                if isinstance(m, ast.Assign) and unparse(m.targets[0]) in retvars and isinstance(const_value(m.value), int) and not isinstance(const_value(m.value), bool) and const_value(m.value) != 0:
                    for node in mcfg.nodes_of(m):
                        fs = [dtable.normalise(e, pol) for e, pol in facts_at(mcfg, node)]
                        if any("SystemExit" in unparse(e) and not pol for e, pol in fs):
                            fin_ok = True
    ctx.ob("R5", f"{MN}:main_xonsh", "an exception other than SystemExit recorded in exc_info sets a non-zero exit code", fin_ok, key="main|exception-exit-code")
    # ... and nothing on that branch replaces it by a value that can be 0 for the operating system: the status the process
    # ends with is the code modulo 256, so a code taken from a runtime value (an alias returning 256, -256 ...) can read 0
    runtime = []
    for n in ast.walk(mx):
        if isinstance(n, ast.Try) and n.finalbody:
            for m in ast.walk(ast.Module(body=n.finalbody, type_ignores=[])):
                if isinstance(m, ast.Assign) and unparse(m.targets[0]) in retvars:
                    for node in mcfg.nodes_of(m):
                        fs = [dtable.normalise(e, pol) for e, pol in facts_at(mcfg, node)]
                        if any("SystemExit" in unparse(e) and not pol for e, pol in fs):
                            v = m.value
                            const_nz = isinstance(const_value(v), int) and not isinstance(const_value(v), bool) and const_value(v) != 0
                            or_nz = isinstance(v, ast.BoolOp) and isinstance(v.op, ast.Or) and isinstance(const_value(v.values[-1]), int) and const_value(v.values[-1]) not in (0, False) and all("%" in unparse(x) or isinstance(x, ast.Constant) for x in v.values[:-1])
                            if not (const_nz or or_nz):
                                runtime.append(m)
    ctx.ob("R5", f"{MN}:main_xonsh", "on the exception branch the exit code is a non-zero constant (or `<x % 256> or <non-zero>`), never a bare runtime value", not runtime, key="main|exception-exit-code-from-runtime-value", where=loc(runtime[0]) if runtime else loc(mx), detail=f"`{short(runtime[0], 60)}`: sys.exit(256) is exit status 0" if runtime else None)
    fired = {unparse(k.value) for c in calls_in(mx) if (call_name(c) or "").endswith("on_exit.fire") for k in c.keywords if k.arg == "exit_code"}
    ok = len(retvars) == 1 and fired <= retvars and bool(fired)
    ctx.ob("R5", f"{MN}:main_xonsh", "main_xonsh returns the computed exit code", ok, key="main|returns-exit-code")
    del src

    # ---- R6: no normal way out of CommandPipeline.end() around the raise decision, except "already ended"
    plm = ctx.repo.module(PL)
    endf = flat(ctx, plm.func("CommandPipeline.end"), 2, skip=("_raise_subproc_error", "tee_stdout", "_close_proc", "_close_prev_procs", "_return_terminal", "_check_signal", "_apply_to_history", "_apply_to_thread_local", "_endtime", "_set_input"))
    ecfg = CFG(endf)
    dec = [n for n in ecfg.nodes if n.kind == "stmt" and any((call_name(c) or "").endswith("_raise_subproc_error") for c in calls_in(n.ast)) and not getattr(n.ast, "_xv_bind", False)]
    if not dec:
        raise AnchorMissing(f"{PL}:CommandPipeline.end: no call of _raise_subproc_error on the way out (directly or through _end)")
    # the one legitimate shortcut: the pipeline was ended before (the decision was taken then)
    ended_attr = {unparse(t) for n in walk_local(endf) if isinstance(n, ast.Assign) and const_value(n.value, None) is True for t in n.targets if isinstance(t, ast.Attribute) and unparse(t.value) == "self"}
    if not ended_attr:
        raise AnchorMissing(f"{PL}:CommandPipeline.end: the ended flag")
    ok, path = ecfg.must_pass([ecfg.entry], lambda m_: m_ in dec, exits=("exit",), skip_edge=ecfg.assume_edges([(a_, False) for a_ in ended_attr]))
    ctx.ob("R6", f"{PL}:CommandPipeline.end", f"every normal path of a first end() (not `{'/'.join(sorted(ended_attr))}`) passes _raise_subproc_error()", ok, key="end|raise-decision-skipped", where=loc(endf), path=ecfg.fmt_path(path) if path else None)
    _lastcmd_is_the_statements_pipeline(ctx)
    _raise_switches_not_written(ctx)
    # the exit code the chain's truthiness reads is the one the reaper recorded (shared with C06.R9)
    from .c06 import _reaper_records

    _reaper_records(ctx, "R5")



def _raise_switches_not_written(ctx):
    """R8: who may write the raise switches."""
    STMT = {"XONSH_SUBPROC_RAISE_ERROR"}
    CMD = {"XONSH_SUBPROC_CMD_RAISE_ERROR", "RAISE_SUBPROC_ERROR"}
    # confirmed by reading: the public API's `check` contract and the per-mode default table of main.py
    ALLOWED_CMD = {"xonsh/api/subprocess.py": "run / check_call / check_output ask for the per-command raise by contract", "xonsh/main.py": "the default table of script / -c mode", "xonsh/environ.py": "definition of the variables and of the deprecated alias (sync)"}
    n = 0
    for m in ctx.repo.modules("xonsh", "xontrib", exclude=("xonsh/parser_table.py",), containing=tuple(STMT | CMD)):
        writes = []
        for x in ast.walk(m.tree):
            if isinstance(x, ast.Call):
                nm = call_name(x) or ""
                tail = nm.split(".")[-1]
                if tail in ("swap", "_set_item", "set", "setdefault", "update", "register"):
                    for k in x.keywords:
                        if k.arg in STMT | CMD:
                            writes.append((k.arg, x))
                    for a in x.args[:2]:
                        if isinstance(a, ast.Constant) and a.value in STMT | CMD and tail in ("_set_item", "set", "setdefault"):
                            writes.append((a.value, x))
                        if isinstance(a, ast.Dict):
                            for kk in a.keys:
                                if isinstance(kk, ast.Constant) and kk.value in STMT | CMD:
                                    writes.append((kk.value, x))
                for k in x.keywords:
                    if k.arg in ("overlay", "env") and isinstance(k.value, ast.Dict):
                        for kk in k.value.keys:
                            if isinstance(kk, ast.Constant) and kk.value in STMT | CMD:
                                writes.append((kk.value, x))
            elif isinstance(x, (ast.Assign, ast.AugAssign, ast.Delete)):
                tg = x.targets if isinstance(x, (ast.Assign, ast.Delete)) else [x.target]
                for t in tg:
                    if isinstance(t, ast.Subscript) and isinstance(t.slice, ast.Constant) and t.slice.value in STMT | CMD and "env" in unparse(t.value).lower():
                        writes.append((t.slice.value, x))
            elif isinstance(x, ast.Tuple) and len(x.elts) == 2 and isinstance(x.elts[0], ast.Constant) and x.elts[0].value in STMT | CMD and m.rel == "xonsh/main.py":
                writes.append((x.elts[0].value, x))
        for name, site in writes:
            n += 1
            if name in STMT:
                ok, why = m.rel == "xonsh/environ.py", "the statement-level switch is written by xonsh's own code"
            else:
                ok, why = m.rel in ALLOWED_CMD, "the per-command switch is written outside the public subprocess API and the mode defaults"
            ctx.ob("R8", f"{m.rel}", f"`{short(site, 60)}` writes ${name}" + (f" ({ALLOWED_CMD[m.rel]})" if ok and m.rel in ALLOWED_CMD else ""), ok, key=f"{m.rel}|raise-switch-written|{name}", where=loc(site), detail=None if ok else why + ": whatever runs inside that scope no longer stops at a failing statement")
    if n < 3:
        raise AnalysisError(f"only {n} writes of the raise switches found (the public API's swaps are expected)")


def _lastcmd_is_the_statements_pipeline(ctx):
    from ..engine import dtable as _dt

    sp = ctx.repo.module(SP)
    fn = flat(ctx, sp.func("_run_specs"), 1, skip=("_run_command_pipeline", "resume_process", "end"))
    st = f"{SP}:_run_specs"
    defs = df.all_defs(fn)
    CP = names_bound_to_call(fn, lambda nm_: nm_.endswith("_run_command_pipeline"), defs)
    if not CP:
        raise AnalysisError(f"{st}: the local holding the pipeline was not found")
    # (the path enumerator substitutes locals forward: the pipeline also appears as its defining call)
    CP = set(CP) | {unparse(d.value) for nm_ in CP for d in defs.get(nm_, []) if d.value is not None}
    n = 0
    for p_ in _dt.paths(fn, stores=True, loops="skip"):
        if p_.outcome != "return" or not _dt.feasible(p_):
            continue
        rv = unparse(p_.value) if p_.value is not None else "None"
        ends = [i_ for i_, e in enumerate(p_.effects) if any(isinstance(c, ast.Call) and isinstance(c.func, ast.Attribute) and c.func.attr == "end" and unparse(c.func.value) in CP for c in ast.walk(e))]
        if not ends or rv in CP:
            continue  # not ended here, or the caller gets the pipeline itself and reads its own return code
        n += 1
        sets = [i_ for i_, e in enumerate(p_.effects) if isinstance(e, ast.Assign) and any(isinstance(t, ast.Attribute) and t.attr == "lastcmd" and unparse(t.value) == "XSH" for t in e.targets) and unparse(e.value) in CP]
        ok = bool(sets) and max(sets) > max(ends)
        conds = "; ".join(("" if pol else "not ") + unparse(e) for e, pol in p_.conds)
        ctx.ob("R7", st, f"path returning `{rv[:30]}` ({conds[:80]}): XSH.lastcmd is set to the pipeline after `end()` returned", ok, key=f"_run_specs|lastcmd-before-end|{rv[:30]}", where=loc(fn))
    if n < 2:
        raise AnalysisError(f"{st}: only {n} ending paths with a non-pipeline result enumerated")

META = {
    "technique": "static analysis: decision-table extraction (path enumeration + forward substitution, atoms classified into a small abstract domain) compared with a documented oracle; CFG must-pass-through for parser-side marking; table folding across grammar, built_ins and specs",
    "text": "The raise/no-raise logic is finite: the check extracts the complete decision tables of "
    "CommandPipeline._raise_subproc_error, subproc_check_boolop and _check_subproc_helper_raise from the source and "
    "verifies every raising path is licensed (failed, not !(), not @error_ignore, flags) and every non-raising path "
    "carries a documented exemption — for all flag/capture/decorator combinations, which the ~60 sampled cases do "
    "not enumerate (the `false x || ...` vs `ls /nope || ...` divergence was a row of this table). It also shows "
    "that every grammar-built chain is marked, the predicate deciding whether the outermost chain is wrapped "
    "searches subprocess operands at any depth, the wrapper covers all statement kinds and the whole helper family "
    "minus !(), token->helper->capture kind agree across three modules, helpers that return text re-check the "
    "pipeline they ran, XSH.exit is honoured on both sides of a pipeline and escaping exceptions give exit 1. "
    "Python's own and/or evaluation and real exit codes are trusted.",
    "note": "Decides the listed structural clauses, not the behaviour. Oracle rows are written from the property "
    "statement and docs/error_handling.rst ('regardless of chain context').",
    "more": 'Also decided: every first CommandPipeline.end() reaches the per-command raise decision on every normal path, also for a command that could not be started. On the exception branch of main_xonsh the exit code is a non-zero constant, never a runtime value that can read 0 modulo 256. The pipeline the raise decision falls back to (XSH.lastcmd, for helpers that return no pipeline) is set again after the pipeline ended - an alias stage runs nested commands meanwhile; the reaper records minus the signal for a signalled child and the exit status for an exited one.',
}

META["more"] += ' Who may write the raise switches: nobody writes $XONSH_SUBPROC_RAISE_ERROR; the per-command switch is written only by the public subprocess API, the mode defaults and its definition (frozen table).'
