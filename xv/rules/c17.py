"""C17 — ``xonsh format`` never changes what a program means.

Tree equality and idempotence for all programs are not decided.  Decided: token text
is re-emitted verbatim (only the documented comment lstrip / f-string brace re-escape /
source slice); no content-changing string operation runs over the joined text in
regions that can lie inside a token (today one does: known finding); a file is
rewritten only after formatting returned normally and produced a different text, and
tokenizer errors surface as FormatError.
"""

from __future__ import annotations

import ast

from .common import *

from ..engine.loader import class_methods

CO = "xonsh/formatter/core.py"
CL = "xonsh/formatter/cli.py"
CONTENT_CHANGING = {"strip", "rstrip", "lstrip", "replace", "expandtabs", "translate", "lower", "upper", "title", "casefold", "sub", "subn", "removeprefix", "removesuffix", "format"}


def check(ctx):
    ctx.not_decided += [
        "that output and input parse to the same tree for every program (Python-mode spacing and the subprocess-line classifier are value-level; a command after `with ...:` on the same line is still spaced as Python)",
        "idempotence of formatting",
        "which token starts a macro body (nested `g!(..)` inside a macro argument, `x[0]!(..)`, `$(echo! ..)` are reproduced as collapsed at run time: the recogniser keys on the token before `!`, a value-level decision), and positions in a source that starts with a byte-order mark",
    ]
    ctx.rule("R1", "token text is emitted verbatim: _render_token returns only tok.string, a source slice, the documented brace re-escape or the comment lstrip", floor=4)
    ctx.rule("R2", "no content-changing string operation is applied to the joined text in regions that can lie inside a token", floor=1)
    ctx.rule("R4", "between two words of a subprocess command the formatter neither creates nor removes a gap: every constant spacing decision is taken outside subprocess context, or agrees with the gap in the source (a gap separates two arguments, no gap joins them: `host:/path`, `a,b`, `if=/dev/zero`)", floor=8)
    ctx.rule("R7", "a macro body is kept byte for byte: in _space_between no gap is *decided* before the macro-verbatim test (`_macro_until_depth > 0 or _macro_alias_line` -> the source's own text between the two tokens) - every return that can be reached while a macro body is being formatted is that verbatim text or the empty glue inside one token; a constant or computed gap (two spaces before a comment, an indent) returned ahead of the test rewrites the raw argument the macro receives", floor=3)
    ctx.rule("R8", "inside an f-string the gaps are the source's: between FSTRING_START and FSTRING_END the text of a replacement field is part of the literal's meaning (`{y = }` prints the spaces, `{y:{w}}` is a format spec in which a space is the sign flag), so the formatter must know it is inside one - some state of _Formatter is updated under a test of FSTRING_START / FSTRING_END and read by _space_between; without it the operator-spacing rules (`=`, `:`) rewrite the field", floor=1)
    ctx.rule("R5", "the formatter's text is decoded once: bytes it encodes itself are tokenized with that very encoding, not with one re-detected from a coding cookie inside the text", floor=1)
    ctx.rule("R6", "what the formatter remembers from one token to the next (indent step, line flags, depths) is computed from tokens, its own settings and constants - never from raw rows of the source text: a row can be a bracket continuation or lie inside a string, which only the tokenizer knows (an indent step read off such a row moves own-line comments further on every pass)", floor=15)
    ctx.rule("R3", "a file is rewritten only after format_source returned normally and changed the text; tokenizer errors become FormatError and are reported without writing", floor=5)

    co = ctx.repo.module(CO)
    rt = co.func("_Formatter._render_token")
    tparam = rt.args.args[1].arg
    n_ret = 0
    for n in walk_local(rt):
        if not isinstance(n, ast.Return) or n.value is None:
            continue
        n_ret += 1
        v = n.value
        txt = unparse(v)
        ok = False
        why = ""
        if txt == f"{tparam}.string":
            ok = True
        elif isinstance(v, ast.Call) and call_name(v) == "_format_comment" and [unparse(a) for a in v.args] == [f"{tparam}.string"]:
            ok = True
        elif isinstance(v, ast.Name):
            ds = df.all_defs(rt).get(v.id, [])
            ok = bool(ds) and all(isinstance(d.value, ast.Call) and call_name(d.value) == "self._source_slice" for d in ds)
        elif txt == f"{tparam}.string.replace('{{', '{{{{').replace('}}', '}}}}')":
            ok = True
            # only reachable for FSTRING_MIDDLE tokens
            cfg = CFG(rt)
            facts = facts_text(facts_at(cfg, node_in(cfg, n)[0]))
            ok = any("FSTRING_MIDDLE" in f and not f.startswith("not ") for f in facts)
            why = "brace re-escape outside the FSTRING_MIDDLE branch" if not ok else ""
        ctx.ob("R1", f"{CO}:_Formatter._render_token", f"`{short(n, 70)}` re-emits the token's own text", ok, key=f"render|{txt[:60]}", where=loc(n), detail=why or None)
    if n_ret < 3:
        raise AnalysisError(f"{CO}:_render_token: only {n_ret} returns")
    fc = co.func("_format_comment")
    ops = {last_attr(c) for c in calls_in(fc) if isinstance(c.func, ast.Attribute)}
    ctx.ob("R1", f"{CO}:_format_comment", "comment text is only left-stripped", ops <= {"lstrip", "startswith"}, key="comment|ops", detail=str(sorted(ops)))
    ss = co.func("_Formatter._source_slice")
    ops = {last_attr(c) for c in calls_in(ss) if isinstance(c.func, ast.Attribute)} & CONTENT_CHANGING
    ctx.ob("R1", f"{CO}:_Formatter._source_slice", "the source slice is returned without content-changing operations", not ops, key="source_slice|ops", detail=str(sorted(ops)))

    # inside brackets a line start copies the source's leading whitespace verbatim: that text can be *content* (the
    # raw argument of a multi-line function macro `name!(...)` is handed to the macro as typed), so any re-indentation
    # there changes the program
    runf = flat(ctx, co.func("_Formatter.run"), depth=1, skip=("_iter_tokens", "_space_between", "_render_token", "_flush_blank_lines", "_comment_indent", "_is_subproc_statement", "_is_alias_macro_line", "_finalize", "_source_slice", "_raw_between"))
    rdefs_ = df.all_defs(runf)
    depth_ifs = [n for n in walk_local(runf) if isinstance(n, ast.If) and "_paren_depth" in unparse(n.test) and any(isinstance(a_, ast.If) and "_line_start" in unparse(a_.test) for a_ in ancestors(n))]
    if not depth_ifs:
        raise AnalysisError(f"{CO}:_Formatter.run: bracket-continuation branch (`_paren_depth` under `_line_start`) not found")
    n_cont = 0
    for dif in depth_ifs:
        inside_arm = dif.body if not (isinstance(dif.test, ast.UnaryOp) or (isinstance(dif.test, ast.Compare) and isinstance(dif.test.ops[0], (ast.LtE, ast.Eq)))) else dif.orelse
        for st_ in inside_arm:
            for c in calls_in(st_):
                if isinstance(c.func, ast.Attribute) and c.func.attr == "append" and unparse(c.func.value) == "self._out" and c.args:
                    n_cont += 1
                    v = c.args[0]
                    if isinstance(v, ast.Name) and len(rdefs_.get(v.id, [])) >= 1:
                        vs = [d.value for d in rdefs_[v.id] if lexically_inside(d.stmt, dif)]
                        v = vs[0] if len(vs) == 1 else v
                    base = v.value if isinstance(v, ast.Subscript) and isinstance(v.slice, ast.Slice) else None
                    if isinstance(base, ast.Name):
                        bs = [d.value for d in rdefs_.get(base.id, []) if lexically_inside(d.stmt, dif)]
                        base = bs[0] if len(bs) == 1 else base
                    ok = base is not None and isinstance(base, ast.Subscript) and unparse(base.value).startswith("self._src")
                    ctx.ob("R1", f"{CO}:_Formatter.run", f"`{short(c, 60)}`: inside brackets the leading whitespace of a continuation line is copied from the source verbatim (a plain slice of the source row)", ok, key="run|continuation-indent-rewritten", where=loc(c))
    if n_cont < 1:
        raise AnalysisError(f"{CO}:_Formatter.run: no emission found in the bracket-continuation branch")
    # row tables: the tokenizer numbers rows by "\n" only; a table indexed by token rows must be split the same way
    n_tab = 0
    # the tables: attributes self.X that are indexed with a tokenizer row (`tok.start[0] - 1`, `s_line - 1` ...)
    row_tables = set()
    for q, fn in co.functions():
        for n in walk_local(fn):
            if isinstance(n, ast.Subscript) and isinstance(n.value, ast.Attribute) and isinstance(n.value.value, ast.Name) and n.value.value.id == "self" and not isinstance(n.slice, ast.Slice):
                it = unparse(n.slice)
                if ".start[0]" in it or ".end[0]" in it or "_line" in it:
                    row_tables.add(n.value.attr)
    if not row_tables:
        raise AnalysisError(f"{CO}: no table indexed by tokenizer rows found")
    for q, fn in co.functions():
        for n in walk_local(fn):
            if isinstance(n, (ast.Assign, ast.AnnAssign)) and n.value is not None:
                tg = n.targets if isinstance(n, ast.Assign) else [n.target]
                if not any(isinstance(t, ast.Attribute) and isinstance(t.value, ast.Name) and t.value.id == "self" and t.attr in row_tables for t in tg):
                    continue
                v = n.value
                while isinstance(v, ast.Call) and call_name(v) in ("list", "tuple") and len(v.args) == 1:
                    v = v.args[0]
                n_tab += 1
                exact = isinstance(v, ast.Call) and isinstance(v.func, ast.Attribute) and v.func.attr == "split" and [const_value(a) for a in v.args] == ["\n"] and not v.keywords
                uses_splitlines = any(isinstance(x, ast.Call) and last_attr(x) == "splitlines" for x in ast.walk(n.value))
                if not exact and not uses_splitlines:
                    raise AnalysisError(f"{CO}:{q}: `{short(n, 60)}`: cannot decide how the row table is split")
                ctx.ob("R1", f"{CO}:{q}", f"`{short(n, 60)}`: the source line table (indexed by tokenizer row numbers, which count only \\n) is split on \\n, not with splitlines() (which also breaks at \\f, \\v, \\x85, U+2028 ...)", exact, key=f"{q}|line-table-split", where=loc(n))
    if n_tab < 1:
        raise AnalysisError(f"{CO}: no source line table found")
    # ------------------------------------------------------------------ R2
    fz = co.func("_Formatter._finalize")
    textp = fz.args.args[1].arg
    defs = df.all_defs(fz)
    n_ops = 0
    for c in calls_in(fz, local=False):
        if not isinstance(c.func, ast.Attribute) or c.func.attr not in CONTENT_CHANGING:
            continue
        n_ops += 1
        recv = c.func.value
        # pieces of the joined text: loop/comprehension variable over text.split(...)
        piece = False
        if isinstance(recv, ast.Name):
            for a in ancestors(c):
                if isinstance(a, (ast.ListComp, ast.GeneratorExp, ast.SetComp)):
                    for g in a.generators:
                        if is_name(g.target, recv.id):
                            src = df.resolve_copy(defs, g.iter)
                            if any(isinstance(x, ast.Call) and last_attr(x) in ("split", "splitlines") for x in ast.walk(src)) and textp in df.names_read(src) | {l[1] for l in df.leaves(defs, src)}:
                                piece = True
                if isinstance(a, ast.For) and is_name(a.target, recv.id):
                    src = df.resolve_copy(defs, a.iter)
                    if any(isinstance(x, ast.Call) and last_attr(x) in ("split", "splitlines") for x in ast.walk(src)):
                        piece = True
        whole_tail = is_name(recv, textp) and c.func.attr == "rstrip" and [const_value(a) for a in c.args] == ["\n"]
        if piece:
            ctx.ob("R2", f"{CO}:_Formatter._finalize", f"`{short(c, 50)}` is applied to every line of the joined text — lines inside multi-line string literals included — and changes their content", False, key=f"finalize|per-line-{c.func.attr}", where=loc(c))
        elif whole_tail:
            ctx.ob("R2", f"{CO}:_Formatter._finalize", f"`{short(c, 50)}` only normalises the newlines at the very end of the file", True, where=loc(c))
        else:
            ctx.ob("R2", f"{CO}:_Formatter._finalize", f"`{short(c, 50)}`: content-changing operation on joined text is one of the recognised safe forms", False, key=f"finalize|unrecognised-{c.func.attr}", where=loc(c))
    if n_ops < 1:
        ctx.ob("R2", f"{CO}:_Formatter._finalize", "no content-changing operation on the joined text", True)

    # ------------------------------------------------------------------ R3
    it = co.func("_Formatter._iter_tokens")
    ok = False
    for n in ast.walk(it):
        if isinstance(n, ast.ExceptHandler) and n.type is not None and "TokenError" in unparse(n.type):
            ok = any(isinstance(s, ast.Raise) and "FormatError" in unparse(s) for s in n.body)
    ctx.ob("R3", f"{CO}:_Formatter._iter_tokens", "tokenizer errors are converted into FormatError", ok, key="iter_tokens|format-error")
    cl = ctx.repo.module(CL)
    mn = flat(ctx, cl.func("main"), 2, skip=("_process_one", "format_source", "build_parser"))
    # the writer, by role: what `main` calls per file and what - seen through its helpers - opens a file for writing.  All of
    # R3 is decided on that helper-transparent view: splitting the per-file routine (stdin part / file part / write-back
    # helper) moves statements, not paths
    funcs = dict(cl.functions())
    entries = []
    for c in calls_in(mn):
        nm = call_name(c)
        if nm in funcs and funcs[nm] is not mn and nm not in [e[0] for e in entries]:
            view = flat(ctx, funcs[nm], 3)
            if _write_opens(view):
                entries.append((nm, funcs[nm], view))
    # (a function that only hands on to another writer - the per-file loop split off `main` - is not the writer itself)
    names_ = [e[0] for e in entries]
    entries = [e for e in entries if not any(call_name(c) in names_ and call_name(c) != e[0] for c in calls_in(e[1]))] or entries
    _positional_pairing(ctx, mn)
    if not entries:
        raise AnchorMissing(f"{CL}: `main` calls no function of the module that (itself or through its helpers) opens a file for writing: no write-mode open")
    for ename, efn, pov in entries:
        try:
            _write_back(ctx, ename, efn, pov)
        except AnalysisError as e_:
            if not ctx.violations:
                raise
            ctx.note(f"R3 write-back analysis of {ename} not completed next to reported violations: {e_}")
    from .c19 import _enclosing_try_with_handler

    calls = [c for c in calls_in(mn) if call_name(c) in [e[0] for e in entries] and not getattr(stmt_of(c), "_xv_call_marker", False)]
    ok = bool(calls) and all(_enclosing_try_with_handler(c, {"FormatError"}, mn)[0] is not None for c in calls)
    ctx.ob("R3", f"{CL}:main", "a FormatError from one file is reported and counted, never propagated into a write", ok, key="main|format-error-handler")
    _spacing(ctx, co)
    _state_from_tokens_only(ctx)
    _macro_body_verbatim(ctx)
    _fstring_field_state(ctx)
    # ---- R5: encode(E) ... tokenize(bytes) re-detects the encoding from a PEP 263 cookie; the text was decoded already
    it = co.func("_Formatter._iter_tokens")
    encs = [c for c in calls_in(it) if last_attr(c) == "encode"]
    if not encs:
        ctx.ob("R5", f"{CO}:_Formatter._iter_tokens", "the text is tokenized as text (no encode / re-decode round trip)", True, key="iter_tokens|no-encode")
    for c in encs:
        enc = const_value(c.args[0], None) if c.args else "utf-8"
        toks = [t for t in calls_in(it) if (call_name(t) or "").split(".")[-1] in ("tokenize", "_tokenize", "generate_tokens")]
        # the cookie-sensitive entry point is `tokenize(readline, ...)`: it calls detect_encoding(); `_tokenize(readline, ENC, ...)`
        # takes the encoding from its caller
        ok = bool(toks) and all((call_name(t) or "").split(".")[-1] == "_tokenize" and len(t.args) >= 2 and const_value(t.args[1], None) == enc for t in toks)
        ctx.ob("R5", f"{CO}:_Formatter._iter_tokens", f"bytes produced by `{short(c, 40)}` are decoded by the tokenizer as {enc!r} (not as whatever a coding cookie in the text says)", ok, key="iter_tokens|encoding-redetected-from-cookie", where=loc(c), detail=None if ok else f"tokenizer entry: {[short(t, 50) for t in toks]}")


def _write_opens(fn):
    return [c for c in calls_in(fn) if call_name(c) == "open" and is_write_mode(open_mode(c) or "w")]


def _is_format_call(v):
    return v is not None and isinstance(v, ast.Call) and call_name(v) == "format_source"


def _foreign_defs(defs, name, seen=()):
    """definitions that reach ``name`` - directly or through plain copies (`b = a`, a helper's parameter binding) - and are
    not the formatter call itself"""
    out = []
    for d in defs.get(name, []):
        v = d.value
        if _is_format_call(v) and d.kind in ("assign", "walrus"):
            continue
        if d.kind in ("assign", "walrus") and isinstance(v, ast.Name) and v.id != name and v.id not in seen and defs.get(v.id):
            out += _foreign_defs(defs, v.id, seen + (name,))
            continue
        out.append(d)
    return out


def _write_back(ctx, ename, efn, pov):
    """R3 over the helper-transparent view ``pov`` of the per-file routine ``ename``"""
    st = f"{CL}:{ename}"
    cfg = CFG(pov)
    writes = _write_opens(pov)
    pdefs = df.all_defs(pov)
    fmts = [n for n in cfg.nodes if n.kind == "stmt" and any(_is_format_call(c) for c in calls_in(n.ast))]
    if not fmts:
        raise AnalysisError(f"{st}: no call of format_source in the helper-transparent view")

    def copies(e):
        return {c_ for c_ in copies_of(pdefs, e.id)} if isinstance(e, ast.Name) else {unparse(e)}

    # roles: the formatter's output and the text it was given - paired per formatter call, each with its plain copies
    FORMATTED = set()
    PAIRS = set()
    for name, ds in pdefs.items():
        for d in ds:
            if d.kind in ("assign", "walrus") and _is_format_call(d.value):
                outs = copies_of(pdefs, name)
                FORMATTED |= outs
                if d.value.args:
                    PAIRS |= {(a_, b_) for a_ in copies(d.value.args[0]) for b_ in outs}
    changed_texts = {f"{a_} == {b_}" for a_, b_ in PAIRS} | {f"{b_} == {a_}" for a_, b_ in PAIRS}
    # the parsed command line: a parameter of the routine (and the names helpers know it by)
    NS = set()
    for a in efn.args.posonlyargs + efn.args.args + efn.args.kwonlyargs:
        NS |= copies_of(pdefs, a.arg)

    def is_flag(e, attr, depth=0):
        if isinstance(e, ast.Attribute):
            return e.attr == attr and isinstance(e.value, ast.Name) and e.value.id in NS
        if isinstance(e, ast.Name) and depth < 4:
            ds = pdefs.get(e.id, [])
            return bool(ds) and all(bound(d) is not None and is_flag(bound(d), attr, depth + 1) for d in ds)
        return False

    def bound(d):
        """the expression a definition binds to its name (element-wise for `a, b = x, y`), None if it is not a plain binding"""
        v = d.value
        if d.kind == "unpack":
            return v.elts[d.index] if isinstance(v, (ast.Tuple, ast.List)) and d.index is not None and d.index < len(v.elts) and not any(isinstance(x, ast.Starred) for x in v.elts) else None
        return v if d.kind in ("assign", "walrus") else None

    for w in writes:
        wn = node_in(cfg, stmt_of(w))[0]
        dom = cfg.dominated(wn, lambda m: m in fmts)
        ctx.ob("R3", st, f"`{short(w)}` is reached only after format_source returned normally", dom, key="process_one|write-before-format", where=loc(w))
        facts = facts_at(cfg, wn)
        ft = facts_text(facts)
        changed = any(t in changed_texts and not pol for t, pol in nfacts(cfg, wn))
        ctx.ob("R3", st, "the file is rewritten only if the text changed", changed, key="process_one|write-unchanged", where=loc(w), detail="; ".join(ft))
        nocheck = all(any(not pol and is_flag(e, flag) for e, pol in facts) for flag in ("check", "diff"))
        ctx.ob("R3", st, "--check / --diff never write", nocheck, key="process_one|write-in-check-mode", where=loc(w))
        # what is written is the formatter's output
        wstmt = stmt_of(w)
        wr = [c for c in calls_in(wstmt, local=False) if last_attr(c) == "write"] if isinstance(wstmt, ast.With) else []
        ok = bool(wr) and all(len(c.args) == 1 and unparse(c.args[0]) in FORMATTED for c in wr)
        # ... and nothing touches it on the way: every definition that reaches the written name is the formatter call itself
        touched = [d for c in wr if c.args and isinstance(c.args[0], ast.Name) for d in _foreign_defs(pdefs, c.args[0].id)]
        tw = touched[0].stmt if touched and getattr(touched[0], "stmt", None) is not None else None
        ctx.ob("R3", st, "exactly the formatter's output is written", ok and not touched, key="process_one|written-value", where=loc(tw) if tw is not None else loc(w), detail=f"`{short(tw, 70)}` rewrites the output after the formatter returned (a text-level edit cannot tell a line end from a line break inside a token)" if tw is not None else None)
    # the text handed to the formatter is read with universal newlines (the engine's rows end in \n; a \r\n that reaches it
    # inside a multi-line token is token text)
    for c in [c for c in calls_in(pov) if call_name(c) == "open" and not is_write_mode(open_mode(c) or "r") and not getattr(stmt_of(c), "_xv_call_marker", False)]:
        nl = kwarg(c, "newline")
        ok = nl is None or (isinstance(nl, ast.Constant) and nl.value is None)
        ctx.ob("R3", st, f"`{short(c, 60)}` reads the source with newline translation", ok, key="process_one|read-without-newline-translation", where=loc(c))


CAPTURE_OPENERS = {"$(", "$[", "!(", "![", "@$("}
PYTHON_OPENERS = {"@(", "${"}


def _spacing(ctx, co):
    from ..engine import dtable
    from ..engine.fold import Folder, NotConstant

    cls = co.cls("_Formatter")
    meths = class_methods(cls)
    sb = meths.get("_space_between")
    if sb is None:
        raise AnchorMissing(f"{CO}:_Formatter._space_between")
    st = f"{CO}:_Formatter._space_between"
    folder = Folder(co)

    def table(e):
        try:
            v = folder.fold(e, {})
        except (NotConstant, AnalysisError):
            return None
        return set(v) if isinstance(v, (set, frozenset, tuple, list)) and all(isinstance(x, str) for x in v) else None

    # the context predicate(s): methods that consult both the line classification and the bracket stack
    def reads(fn, attr):
        return any(isinstance(n, ast.Attribute) and n.attr == attr and unparse(n.value) == "self" for n in walk_local(fn))

    line_attr = "_subproc_line"
    if not any(reads(f, line_attr) for f in meths.values()):
        raise AnchorMissing(f"{CO}:_Formatter: the subprocess-line flag")
    preds = {name for name, f in meths.items() if name not in ("_space_between", "__init__", "run") and not f.args.args[1:] and any(isinstance(r, ast.Return) and r.value is not None for r in walk_local(f)) and reads(f, line_attr) and reads(f, "_brackets")}
    for name in sorted(preds):
        f = meths[name]
        tabs = [table(c.comparators[0]) for c in ast.walk(f) if isinstance(c, ast.Compare) and len(c.ops) == 1 and isinstance(c.ops[0], ast.In)]
        tabs = [t for t in tabs if t is not None]
        # 'subprocess' is said through a table that holds every capture opener and no Python-mode opener: `return True`
        # under `x in T`, or `return x in T` itself
        def capture_test(e):
            t_ = table(e.comparators[0]) if isinstance(e, ast.Compare) and len(e.ops) == 1 and isinstance(e.ops[0], ast.In) else None
            return t_ is not None and t_ >= CAPTURE_OPENERS and not (t_ & PYTHON_OPENERS)

        says_subproc = False
        for r in [r for r in walk_local(f) if isinstance(r, ast.Return) and r.value is not None]:
            if capture_test(r.value):
                says_subproc = True
            elif const_value(r.value, None) is True and any(isinstance(a_, ast.If) and capture_test(a_.test) and any(lexically_inside(r, b_) or r is b_ for b_ in a_.body) for a_ in ancestors(r)):
                says_subproc = True
        ok = says_subproc and any(isinstance(r, ast.Return) and isinstance(r.value, ast.Attribute) and r.value.attr == line_attr for r in walk_local(f))
        ctx.ob("R4", f"{CO}:_Formatter.{name}", "the context test says 'subprocess' for every capture opener ($( $[ !( ![ @$( ), 'Python' inside @( and ${, and falls back to the line's classification", ok, key=f"{name}|context-predicate-shape", where=loc(f))

    def is_pos(e, who, what):
        """e is `<who>.<what>` possibly subscripted"""
        while isinstance(e, ast.Subscript):
            e = e.value
        return isinstance(e, ast.Attribute) and e.attr == what and isinstance(e.value, ast.Name) and e.value.id == who

    pprev, pcur = param_name(sb, 0), param_name(sb, 1)
    n = 0
    sites = {}
    for p_ in dtable.paths(sb, loops="skip"):
        if p_.outcome != "return" or not dtable.feasible(p_):
            continue
        v = p_.value
        if not isinstance(v, ast.Constant):
            # computed from the two tokens (raw source between them / indentation of a continuation line)
            continue
        n += 1
        not_subproc = gap = nogap = exempt = padding = False
        line_false = depth0 = False
        for e, pol in p_.conds:
            txt = unparse(e)
            if isinstance(e, ast.Call) and isinstance(e.func, ast.Attribute) and unparse(e.func.value) == "self" and e.func.attr in preds and not pol:
                not_subproc = True
            if isinstance(e, ast.Attribute) and e.attr == line_attr and not pol:
                line_false = True
            if isinstance(e, ast.Compare) and len(e.ops) == 1 and isinstance(e.ops[0], ast.Eq) and const_value(e.comparators[0], None) == 0 and ("_paren_depth" in txt or "_brackets" in txt) and pol:
                depth0 = True
            if isinstance(e, ast.Compare) and len(e.ops) == 1:
                l, r, op = e.left, e.comparators[0], e.ops[0]
                pe = is_pos(l, pprev, "end") or is_pos(r, pprev, "end")
                cs_ = is_pos(l, pcur, "start") or is_pos(r, pcur, "start")
                if pe and cs_:
                    if isinstance(op, ast.Eq):
                        if pol:
                            nogap = True
                        else:
                            gap = True  # different rows / different positions
                    elif isinstance(op, ast.NotEq):
                        if pol:
                            gap = True
                    elif isinstance(op, (ast.Gt, ast.Lt)):
                        if pol:
                            gap = True
                        else:
                            nogap = True
                # documented exemptions: f-string pieces (unreliable positions), comments, the token after a backslash-newline
                if isinstance(op, (ast.In, ast.Eq)) and pol:
                    if "FSTRING" in unparse(r) or "COMMENT" in unparse(r):
                        exempt = True
                    t = table(r) if isinstance(op, ast.In) else ({const_value(r, None)} if isinstance(const_value(r, None), str) else None)
                    if t and all("\n" in x for x in t):
                        exempt = True
                    # padding just inside a capture's own brackets: the token before is a capture/python-eval opener, or the
                    # bracket being closed is one
                    if t and t <= (CAPTURE_OPENERS | PYTHON_OPENERS | {"@!("}) and isinstance(op, ast.In):
                        padding = True
        if line_false and depth0:
            not_subproc = True
        val = v.value
        if not_subproc or exempt:
            ok = True
        elif val == "":
            ok = nogap or padding
        else:
            ok = gap
        why = None if ok else ("removes" if val == "" else "creates") + " a gap although nothing on this path says the source had " + ("none" if val == "" else "one") + ", and the path can be taken between two words of a command"
        # one obligation per return statement: all paths into it must be fine
        rs = p_.node
        guard = next((a for a in ancestors(rs) if isinstance(a, ast.If)), None) if rs is not None else None
        gk = short(guard.test, 70) if guard is not None else "(default)"
        ent = sites.setdefault((id(rs), gk, repr(val)), {"node": rs, "ok": True, "why": None, "paths": 0, "bad": None})
        ent["paths"] += 1
        if not ok and ent["ok"]:
            ent.update(ok=False, why=why, bad="; ".join(p_.cond_texts())[-160:])
    for (_, gk, val), ent in sites.items():
        ctx.ob("R4", st, f"`if {gk}: return {val}` ({ent['paths']} path(s))", ent["ok"], key=f"space_between|gap-decided-without-source|{gk}|{val}", where=loc(ent["node"]) if ent["node"] is not None else loc(sb), detail=(ent["why"] + " - e.g. under [" + ent["bad"] + "]") if not ent["ok"] else None)
    if len(sites) < 8:
        raise AnalysisError(f"{st}: only {len(sites)} constant spacing decisions enumerated")



def _verbatim(e, defs, RAW, depth=0):
    """e is a piece of the raw text itself (row, slice of a row, concatenation of such pieces and constants) -
    as opposed to something measured on or decided from it (a length, a test, a count)"""
    if depth > 6:
        return False
    if isinstance(e, ast.Constant):
        return isinstance(e.value, str)
    if isinstance(e, ast.Attribute):
        return unparse(e) in RAW
    if isinstance(e, ast.Subscript):
        return _verbatim(e.value, defs, RAW, depth + 1)
    if isinstance(e, ast.BinOp) and isinstance(e.op, ast.Add):
        return _verbatim(e.left, defs, RAW, depth + 1) and _verbatim(e.right, defs, RAW, depth + 1)
    if isinstance(e, ast.Name):
        ds = defs.get(e.id, [])
        if not ds:
            return False
        for d in ds:
            if d.kind == "for" and d.value is not None:
                if not _verbatim(d.value, defs, RAW, depth + 1):
                    return False
            elif d.value is None or not _verbatim(d.value, defs, RAW, depth + 1):
                return False
        return True
    return False


def _fstring_field_state(ctx):
    """R8: a token-derived 'inside an f-string' state exists and the spacing decision reads it."""
    from ..engine.loader import class_methods

    co = ctx.repo.module(CO)
    ms = class_methods(co.cls("_Formatter"))
    state = set()
    for nm, f in ms.items():
        for a in walk_local(f):
            tg = a.targets if isinstance(a, ast.Assign) else [a.target] if isinstance(a, ast.AugAssign) else []
            attrs = [t.attr for t in tg if isinstance(t, ast.Attribute) and unparse(t.value) == "self"]
            if not attrs:
                continue
            if any(isinstance(g, (ast.If, ast.IfExp, ast.While)) and any(isinstance(x, ast.Name) and x.id in ("FSTRING_START", "FSTRING_END") for x in ast.walk(g.test)) for g in ancestors(a)):
                state |= set(attrs)
    sb = ms.get("_space_between")
    if sb is None:
        raise AnalysisError(f"{CO}:_Formatter._space_between missing")
    read = {x.attr for x in ast.walk(sb) if isinstance(x, ast.Attribute) and unparse(x.value) == "self"} & state
    ok = bool(read)
    ctx.ob("R8", f"{CO}:_Formatter", "a state updated on FSTRING_START / FSTRING_END is read by _space_between", ok, key="_Formatter|no-fstring-field-state", where=loc(sb), detail=None if ok else (f"state updated on the f-string delimiters: {sorted(state) or 'none'}; _space_between reads none of it" + " - `=` and `:` inside a replacement field are spaced like operators of a statement"))


def _macro_body_verbatim(ctx):
    """R7: what _space_between can answer while a macro body is being formatted."""
    co = ctx.repo.module(CO)
    sb = co.func("_Formatter._space_between")
    st = f"{CO}:_Formatter._space_between"
    cfg = CFG(sb)
    tests = [n for n in cfg.nodes if n.kind == "if" and any(isinstance(x, ast.Attribute) and x.attr.startswith("_macro") for x in ast.walk(n.ast.test)) and any(isinstance(r, ast.Return) and r.value is not None and isinstance(r.value, ast.Call) and (call_name(r.value) or "").endswith("_raw_between") for b in n.ast.body for r in ast.walk(b))]
    if len(tests) != 1:
        raise AnalysisError(f"{st}: expected one macro-verbatim test (`if <macro state>: return self._raw_between(..)`), found {len(tests)}")
    mt = tests[0]
    flags = {x.attr for x in ast.walk(mt.ast.test) if isinstance(x, ast.Attribute) and x.attr.startswith("_macro")}
    ctx.ob("R7", st, f"the macro-verbatim test reads the macro state ({sorted(flags)}) and answers with the source's own text", len(flags) >= 2, key="space_between|macro-test-shape", where=loc(mt.ast), detail=None if len(flags) >= 2 else "function macros (depth) and alias macros (line flag) are both verbatim")
    # everything reachable without taking the 'not in a macro body' way out of the test
    seen = cfg.reach([cfg.entry], skip_edge=lambda a, b, label: a is mt and label == "false")
    n = 0
    for r in [x for x in seen if x.kind == "stmt" and isinstance(x.ast, ast.Return)]:
        v = r.ast.value
        if v is not None and isinstance(v, ast.Call) and (call_name(v) or "").endswith("_raw_between"):
            continue
        n += 1
        glue = v is not None and isinstance(v, ast.Constant) and v.value == ""
        ctx.ob("R7", st, f"`{short(r.ast, 40)}` ahead of the macro-verbatim test only glues (inside one token / the bang marker)", glue, key=f"space_between|gap-decided-inside-macro-body|{unparse(v)[:30] if v is not None else 'None'}", where=loc(r.ast), detail=None if glue else "reached while a macro body is being formatted: the gap it returns replaces the source's own text inside the raw macro argument")
    if n == 0:
        raise AnalysisError(f"{st}: no decision ahead of the macro-verbatim test (the f-string glue is expected)")


def _state_from_tokens_only(ctx):
    from ..engine.loader import class_methods

    co = ctx.repo.module(CO)
    ms = class_methods(co.cls("_Formatter"))
    init = ms.get("__init__")
    if init is None:
        raise AnchorMissing(f"{CO}:_Formatter.__init__")
    # the raw text and everything __init__ derives from it (the row table)
    srcp = param_name(init, 0)
    idefs = df.all_defs(init)
    RAW = set()
    for a in walk_local(init):
        if isinstance(a, (ast.Assign, ast.AnnAssign)) and getattr(a, "value", None) is not None:
            ts = a.targets if isinstance(a, ast.Assign) else [a.target]
            for t in ts:
                if isinstance(t, ast.Attribute) and unparse(t.value) == "self" and any(k == "param" and v == srcp for k, v in df.leaves(idefs, a.value)):
                    RAW.add(f"self.{t.attr}")
    if not RAW:
        raise AnalysisError(f"{CO}:_Formatter.__init__ keeps no attribute derived from the source text `{srcp}`")
    n = 0
    for nm, f in ms.items():
        if nm == "__init__":
            continue
        ff = flat(ctx, f, 2)
        defs = df.all_defs(ff)
        for a in walk_local(ff):
            if not isinstance(a, (ast.Assign, ast.AugAssign, ast.AnnAssign)) or getattr(a, "value", None) is None:
                continue
            ts = a.targets if isinstance(a, ast.Assign) else [a.target]
            for t in ts:
                if isinstance(t, ast.Attribute) and unparse(t.value) == "self":
                    lv = df.leaves(defs, a.value, depth=8)
                    bad = sorted({v for k, v in lv if any(v == r_ or v.startswith(r_ + "[") or v.startswith(r_ + ".") for r_ in RAW)})
                    if bad and _verbatim(a.value, defs, RAW):
                        bad = []  # a piece of the source kept for verbatim re-emission is not a decision taken from it
                    n += 1
                    ctx.ob("R6", f"{CO}:_Formatter.{nm}", f"`{short(a, 60)}`: state kept across tokens is not computed from raw source rows", not bad, key=f"{nm}|state-from-raw-rows|{t.attr}", where=loc(a), detail=f"derived from {bad}" if bad else None)


def _positional_pairing(ctx, mn):
    """A text is written to the path it was formatted from.  Where `main` pairs paths with results *by position*
    (`zip(paths, results)`), the list of results must have one slot per path: it is filled by exactly one append on
    every way through the loop that builds it - the handled-failure way included - otherwise every path after a
    failing one is paired with its successor's text."""
    defs = df.all_defs(mn)
    n = 0
    for lp in [x for x in walk_local(mn) if isinstance(x, ast.For) and isinstance(x.iter, ast.Call) and call_name(x.iter) == "zip"]:
        lists = [a.id for a in lp.iter.args if isinstance(a, ast.Name) and any(isinstance(d.value, (ast.List, ast.Call)) for d in defs.get(a.id, []) if d.value is not None)]
        for nm in lists:
            fillers = [f for f in walk_local(mn) if isinstance(f, ast.For) and f is not lp and any(isinstance(c.func, ast.Attribute) and c.func.attr == "append" and unparse(c.func.value) == nm for b_ in f.body for c in calls_in(b_))]
            for f in fillers:
                n += 1
                bcfg = CFG(f.body)
                apps = [nd for nd in bcfg.nodes if nd.kind == "stmt" and any(isinstance(c.func, ast.Attribute) and c.func.attr == "append" and unparse(c.func.value) == nm for c in calls_in(nd.ast))]
                # every way through one iteration that is not an escaping exception passes an append that completed:
                # the exception edge out of the appending statement itself leads to a handler - without a slot
                ok, path = bcfg.must_pass(bcfg.entry, lambda m: m in apps, exits=("exit",), skip_edge=lambda a_, b_, l_: a_ in apps and l_ != "exc" and False)
                if ok:
                    # the append statement may itself raise (its argument is the failing call): is there a handler that swallows it?
                    for ap in apps:
                        for t in [a for a in ancestors(ap.ast) if isinstance(a, ast.Try) and lexically_inside(a, f)]:
                            if any(ap.ast is b_ or lexically_inside(ap.ast, b_) for b_ in t.body):
                                for h in t.handlers:
                                    hcfg_ok = any(isinstance(x, (ast.Raise, ast.Return)) for b_ in h.body for x in ast.walk(b_)) or any(isinstance(c.func, ast.Attribute) and c.func.attr == "append" and unparse(c.func.value) == nm for b_ in h.body for c in calls_in(b_))
                                    if not hcfg_ok:
                                        ok = False
                ctx.ob("R3", f"{CL}:main", f"`{short(lp.iter, 40)}` pairs by position: `{nm}` gets exactly one slot per input on every way through the loop that fills it (a handled failure included)", ok, key=f"main|positional-pairing-skips-failures|{nm}", where=loc(f), detail=None if ok else f"a failure handled inside the filling loop leaves no slot in `{nm}`: every later path is paired with the next input's text")
    if n == 0:
        ctx.ob("R3", f"{CL}:main", "paths and formatted texts are not paired by position (each text is produced and used in one iteration)", True, key="main|no-positional-pairing")

META = {
    "technique": "static analysis: return-shape/provenance check of the token renderer, operation whitelist over the joined text, CFG dominance and guard facts before the write-back",
    "text": "Decides the three structural clauses the property rests on, for all programs: every return of "
    "_render_token is the token's own text (tok.string, the comment lstrip, a source slice, or the brace re-escape "
    "confined to FSTRING_MIDDLE); the row table those slices index is split on \\n exactly (tokenizer rows count "
    "only \\n; splitlines() also breaks at \\f, \\v, U+2028 ...); content-changing string operations applied to pieces of the *joined* text are "
    "reported (known finding: _finalize's per-line rstrip reaches inside multi-line string literals); in the CLI "
    "the write-mode open is dominated by a normally returning format_source, guarded by `original != formatted` and "
    "by not --check/--diff, writes exactly the formatter's output, and tokenizer errors become FormatError handled "
    "per file; between two words of a subprocess command every constant gap _space_between can return is decided outside subprocess context or agrees with the gap in the source (a gap is the argument boundary). Tree equality and idempotence for all programs are not decided.",
    "note": "Decides the listed structural clauses, not the behaviour. Python-mode spacing (which operators get spaces) "
    "and the line classifier (_is_subproc_statement: a heuristic over token shapes) are value-level and outside this analysis.",
    "more": 'The CLI writes exactly what the formatter returned (no edit in between) and reads with newline translation; the formatter tokenizes its own UTF-8 bytes as UTF-8, never with an encoding re-detected from a coding cookie. What the formatter remembers from one token to the next is computed from tokens, settings and constants, never measured on raw rows of the source text. Where paths and formatted texts are paired by position, the list of results gets one slot per input on every way through the loop that fills it.',
}

META["more"] += " Every answer of _space_between that can be reached while a macro body is being formatted is the source's own text or the empty glue. A token-derived 'inside an f-string' state must exist and be read by the spacing decision (known finding: none exists, `{y = }` and `{y:{w}}` are respaced)."
